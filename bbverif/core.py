"""Shared runner infrastructure: repo loading, findings, reports, evidence, exit-code discipline.

Nothing in this package imports or executes code from the analysed repository: sources are read as
text and parsed with ``ast``.
"""
import ast
import hashlib
import json
import os
import re
import sys
import time
import traceback

VERIF_ROOT = os.path.dirname(os.path.dirname(os.path.abspath(__file__)))
EVIDENCE_DIR = os.path.join(VERIF_ROOT, 'evidence')
REPLAY_DIR = os.path.join(EVIDENCE_DIR, 'replay')
KNOWN_FINDINGS = os.path.join(VERIF_ROOT, 'known_findings.json')

SOURCE_FILES = ['bronzebeard/asm.py', 'bronzebeard/dfu.py', 'bronzebeard/__init__.py']
DOC_FILES = ['docs/instruction_reference.rst', 'docs/assembly_language.rst', 'docs/command_line_usage.rst']


class AnalysisError(Exception):
    """The analysis cannot give a verdict (anchor vanished, construct outside the abstract domain,
    instance floor not met).  Never a pass, never a violation: exit status 2."""


class _Normalise(ast.NodeTransformer):
    """Type annotations carry no run-time behaviour the rules care about: `x: T = v` is analysed as `x = v`, a bare `x: T`
    as `pass`, and parameter / return annotations are dropped (line numbers are kept)."""

    def visit_ClassDef(self, node):
        # class P(typing.NamedTuple): a: int; b: int = 0   -- the field list lives in the annotations that are dropped below
        def is_dataclass(d):
            d = d.func if isinstance(d, ast.Call) else d
            return (isinstance(d, ast.Name) and d.id == 'dataclass') or (isinstance(d, ast.Attribute) and d.attr == 'dataclass')
        # (a @dataclass without an __init__ of its own takes its fields from the annotations in the same way)
        if any((isinstance(b, ast.Attribute) and b.attr == 'NamedTuple') or (isinstance(b, ast.Name) and b.id == 'NamedTuple') for b in node.bases) \
                or (any(is_dataclass(d) for d in node.decorator_list) and not node.bases
                    and not any(isinstance(st, ast.FunctionDef) and st.name in ('__init__', '__post_init__') for st in node.body)):
            fields = [(st.target.id, st.value) for st in node.body if isinstance(st, ast.AnnAssign) and isinstance(st.target, ast.Name)]
            node._nt_fields = fields
        self.generic_visit(node)
        return node

    def visit_AnnAssign(self, node):
        self.generic_visit(node)
        if node.value is None:
            return ast.copy_location(ast.Pass(), node)
        new = ast.Assign(targets=[node.target], value=node.value, type_comment=None)
        return ast.copy_location(new, node)

    def visit_Assign(self, node):
        """`a, b, c = (E(v) for v in <literal sequence / range(constants)>)`  is  `a = E(v0); b = E(v1); c = E(v2)`: the
        comprehension is consumed in order by the unpacking (same evaluation order), and nothing else can observe v."""
        self.generic_visit(node)
        import copy
        if len(node.targets) != 1 or not isinstance(node.targets[0], (ast.Tuple, ast.List)):
            return node
        tgts = node.targets[0].elts
        v = node.value
        split = _split_parallel_assign(node)
        if split is not None:
            return split
        if not all(isinstance(t, ast.Name) for t in tgts) or not isinstance(v, (ast.GeneratorExp, ast.ListComp)) or len(v.generators) != 1:
            return node
        gen = v.generators[0]
        if gen.ifs or gen.is_async or not isinstance(gen.target, ast.Name):
            return node
        var = gen.target.id
        it = gen.iter
        values = None
        try:
            if isinstance(it, ast.Call) and isinstance(it.func, ast.Name) and it.func.id == 'range' and not it.keywords and 1 <= len(it.args) <= 3:
                args = [ast.literal_eval(a) for a in it.args]
                if all(isinstance(a, int) and not isinstance(a, bool) for a in args):
                    values = list(range(*args))
            elif isinstance(it, (ast.Tuple, ast.List)):
                values = [ast.literal_eval(e) for e in it.elts]
        except (ValueError, TypeError, SyntaxError, MemoryError, RecursionError):
            return node
        if values is None or len(values) != len(tgts) or len(values) > 64:
            return node
        # v must not be rebound inside the element expression (nested comprehension / lambda parameter / walrus)
        for n in ast.walk(v.elt):
            if isinstance(n, ast.Name) and n.id == var and not isinstance(n.ctx, ast.Load):
                return node
            if isinstance(n, ast.arg) and n.arg == var:
                return node
        names = {t.id for t in tgts}
        if var in names or any(isinstance(n, ast.Name) and n.id in names for n in ast.walk(v.elt)):
            return node                   # sequential assignments would let a later element see an earlier target
        out = []
        for t, val in zip(tgts, values):
            elt = copy.deepcopy(v.elt)

            class Sub(ast.NodeTransformer):
                def visit_Name(self, n):
                    if n.id == var and isinstance(n.ctx, ast.Load):
                        return ast.copy_location(ast.Constant(value=val), n)
                    return n
            elt = Sub().visit(elt)
            out.append(ast.copy_location(ast.Assign(targets=[ast.Name(id=t.id, ctx=ast.Store())], value=elt, type_comment=None), node))
        return out

    def visit_If(self, node):
        """`if (x := E) OP ...:` with the assignment expression as the first thing the test evaluates is `x = E` followed by
        `if x OP ...:` (same evaluation order; an `elif` is an `if` inside the else arm, where the assignment then stands)."""
        self.generic_visit(node)
        holder, field, idx = None, None, None
        cur, parent = node.test, (node, 'test', None)
        while True:
            if isinstance(cur, ast.NamedExpr):
                break
            if isinstance(cur, ast.BoolOp):
                parent, cur = (cur, 'values', 0), cur.values[0]
            elif isinstance(cur, ast.Compare):
                parent, cur = (cur, 'left', None), cur.left
            elif isinstance(cur, ast.UnaryOp):
                parent, cur = (cur, 'operand', None), cur.operand
            elif isinstance(cur, ast.BinOp):
                parent, cur = (cur, 'left', None), cur.left
            else:
                return node
        if not isinstance(cur.target, ast.Name):
            return node
        holder, field, idx = parent
        load = ast.copy_location(ast.Name(id=cur.target.id, ctx=ast.Load()), cur)
        if idx is None:
            setattr(holder, field, load)
        else:
            getattr(holder, field)[idx] = load
        assign = ast.copy_location(ast.Assign(targets=[ast.copy_location(ast.Name(id=cur.target.id, ctx=ast.Store()), cur)], value=cur.value, type_comment=None), node)
        return [assign, node]

    def visit_For(self, node):
        """`for T in map(f, xs): BODY` is `for _m in xs: T = f(_m); BODY`: map is lazy, so f is applied to each element right
        before the body runs for it, in order."""
        self.generic_visit(node)
        it = node.iter
        if (isinstance(it, ast.Call) and isinstance(it.func, ast.Name) and it.func.id == 'map' and len(it.args) == 2 and not it.keywords
                and isinstance(it.args[0], ast.Name) and not isinstance(it.args[1], ast.Starred)):
            tmp = '_mapped_{}'.format(node.lineno)
            call = ast.Call(func=it.args[0], args=[ast.Name(id=tmp, ctx=ast.Load())], keywords=[])
            bind = ast.Assign(targets=[node.target], value=call, type_comment=None)
            new = ast.For(target=ast.Name(id=tmp, ctx=ast.Store()), iter=it.args[1], body=[bind] + node.body, orelse=node.orelse, type_comment=None)
            ast.copy_location(new, node)
            ast.copy_location(bind, node)
            for sub in ast.walk(bind):
                if not hasattr(sub, 'lineno'):
                    ast.copy_location(sub, node)
            ast.copy_location(new.target, node)
            return new
        # for a, b in zip(range(n), itertools.count(start, step)): BODY   is   for a in range(n): b = start + a * step; BODY
        if (isinstance(it, ast.Call) and isinstance(it.func, ast.Name) and it.func.id == 'zip' and len(it.args) == 2 and not it.keywords
                and isinstance(node.target, (ast.Tuple, ast.List)) and len(node.target.elts) == 2 and all(isinstance(e, ast.Name) for e in node.target.elts)):
            rng, cnt = it.args
            is_count = isinstance(cnt, ast.Call) and ((isinstance(cnt.func, ast.Attribute) and cnt.func.attr == 'count' and isinstance(cnt.func.value, ast.Name)
                                                       and cnt.func.value.id == 'itertools') or (isinstance(cnt.func, ast.Name) and cnt.func.id == 'count')) \
                and not cnt.keywords and len(cnt.args) <= 2 and not any(isinstance(a, ast.Starred) for a in cnt.args)
            is_range = isinstance(rng, ast.Call) and isinstance(rng.func, ast.Name) and rng.func.id == 'range' and len(rng.args) == 1 and not rng.keywords
            simple = lambda e: isinstance(e, (ast.Name, ast.Constant))
            if is_count and is_range and all(simple(a) for a in cnt.args):
                a_name, b_name = node.target.elts
                start = cnt.args[0] if cnt.args else ast.Constant(value=0)
                step = cnt.args[1] if len(cnt.args) == 2 else ast.Constant(value=1)
                value = ast.BinOp(left=start, op=ast.Add(), right=ast.BinOp(left=ast.Name(id=a_name.id, ctx=ast.Load()), op=ast.Mult(), right=step))
                bind = ast.Assign(targets=[ast.Name(id=b_name.id, ctx=ast.Store())], value=value, type_comment=None)
                new = ast.For(target=ast.Name(id=a_name.id, ctx=ast.Store()), iter=rng, body=[bind] + node.body, orelse=node.orelse, type_comment=None)
                for n_ in [new, bind] + list(ast.walk(bind)) + [new.target]:
                    if not hasattr(n_, 'lineno') or n_ in (new, bind):
                        ast.copy_location(n_, node)
                return new
        return node

    suppress_names = ()       # (module aliases of contextlib, local names of contextlib.suppress), set by normalise_tree

    def visit_With(self, node):
        """`with contextlib.suppress(E1, E2): BODY`  is  `try: BODY  except (E1, E2): pass`: suppress.__exit__ swallows exactly the
        exceptions that are instances of the listed classes and execution continues after the with statement."""
        self.generic_visit(node)
        if len(node.items) != 1 or node.items[0].optional_vars is not None:
            return node
        ce = node.items[0].context_expr
        if not (isinstance(ce, ast.Call) and not ce.keywords and ce.args and not any(isinstance(a, ast.Starred) for a in ce.args)):
            return node
        mods, names = self.suppress_names
        f = ce.func
        is_suppress = (isinstance(f, ast.Attribute) and f.attr == 'suppress' and isinstance(f.value, ast.Name) and f.value.id in mods) \
            or (isinstance(f, ast.Name) and f.id in names)
        if not is_suppress or not all(isinstance(a, (ast.Name, ast.Attribute)) for a in ce.args):
            return node
        typ = ce.args[0] if len(ce.args) == 1 else ast.copy_location(ast.Tuple(elts=list(ce.args), ctx=ast.Load()), ce)
        handler = ast.ExceptHandler(type=typ, name=None, body=[ast.copy_location(ast.Pass(), node)])
        ast.copy_location(handler, node)
        new = ast.Try(body=node.body, handlers=[handler], orelse=[], finalbody=[])
        return ast.copy_location(new, node)

    def visit_Match(self, node):
        """`match S: case 'a': A; case 'b' | 'c': B; case _: D`  is  `if S == 'a': A; elif S == 'b' or S == 'c': B; else: D` when the
        subject is a plain name / attribute chain (evaluated once or many times: same value) and every pattern is a literal, an
        alternative of literals or the wildcard, without guards.  Anything else is left alone (the walkers report it)."""
        self.generic_visit(node)
        import copy

        def plain(e):
            while isinstance(e, ast.Attribute):
                e = e.value
            return isinstance(e, ast.Name)
        if not plain(node.subject):
            return node

        def literals(pat):
            if isinstance(pat, ast.MatchValue) and isinstance(pat.value, ast.Constant) and isinstance(pat.value.value, (str, int, bytes)) \
                    and not isinstance(pat.value.value, bool):
                return [pat.value]
            if isinstance(pat, ast.MatchOr):
                out = []
                for p_ in pat.patterns:
                    sub = literals(p_)
                    if sub is None:
                        return None
                    out.extend(sub)
                return out
            return None
        arms = []
        default = None
        for i, case in enumerate(node.cases):
            if case.guard is not None:
                return node
            if isinstance(case.pattern, ast.MatchAs) and case.pattern.pattern is None and case.pattern.name is None:
                if i != len(node.cases) - 1:
                    return node
                default = case.body
                continue
            lits = literals(case.pattern)
            if lits is None:
                return node
            tests = [ast.Compare(left=copy.deepcopy(node.subject), ops=[ast.Eq()], comparators=[c]) for c in lits]
            test = tests[0] if len(tests) == 1 else ast.BoolOp(op=ast.Or(), values=tests)
            for n_ in ast.walk(test):
                ast.copy_location(n_, case.pattern)
            arms.append((test, case.body, case.pattern))
        if not arms:
            return node
        orelse = default or []
        for test, body, pat in reversed(arms):
            iff = ast.If(test=test, body=body, orelse=orelse)
            ast.copy_location(iff, pat)
            orelse = [iff]
        ast.copy_location(orelse[0], node)
        return orelse[0]

    def _search_with_return(self, node):
        """def f(..): [prefix]; for T in IT: if TEST: return KEY      is      def f(..): [prefix]; _found = DEFAULT
                                    return DEFAULT                                    for T in IT: if TEST: _found = KEY; break
                                                                                     return _found
        (the first-match search written with return instead of break; DEFAULT a constant or absent)"""
        body = node.body
        if len(body) < 1:
            return
        last = body[-1]
        default = None
        if isinstance(last, ast.Return) and len(body) >= 2 and (last.value is None or isinstance(last.value, ast.Constant)):
            loop = body[-2]
            default = last.value
            cut = -2
        else:
            loop = last
            cut = -1
        holder = None
        if isinstance(loop, ast.Try) and len(loop.body) == 1 and not loop.orelse and not loop.finalbody \
                and not any(isinstance(n, (ast.Return, ast.Yield, ast.YieldFrom)) for h in loop.handlers for n in ast.walk(h)):
            # try: for ..: if ..: return KEY  except E: raise ..   -- the loop is searched inside the try, the result returned after it
            holder, loop = loop, loop.body[0]
        if not (isinstance(loop, ast.For) and not loop.orelse and len(loop.body) == 1 and isinstance(loop.body[0], ast.If)
                and not loop.body[0].orelse and len(loop.body[0].body) == 1 and isinstance(loop.body[0].body[0], ast.Return)
                and loop.body[0].body[0].value is not None):
            return
        # only the first-match search over predicate lists (`if all(p(..) for p in preds)`): other searches are read as they stand
        if not any(isinstance(n, ast.Call) and isinstance(n.func, ast.Name) and n.func.id == 'all' for n in ast.walk(loop.body[0].test)):
            return
        # no other return / yield inside the loop
        inner = [n for n in ast.walk(loop) if isinstance(n, (ast.Return, ast.Yield, ast.YieldFrom))]
        if len(inner) != 1:
            return
        var = '_found_{}'.format(loop.lineno)
        ret = loop.body[0].body[0]
        init = ast.copy_location(ast.Assign(targets=[ast.Name(id=var, ctx=ast.Store())], value=default or ast.Constant(value=None), type_comment=None), loop)
        setv = ast.copy_location(ast.Assign(targets=[ast.Name(id=var, ctx=ast.Store())], value=ret.value, type_comment=None), ret)
        brk = ast.copy_location(ast.Break(), ret)
        loop.body[0].body = [setv, brk]
        final = ast.copy_location(ast.Return(value=ast.Name(id=var, ctx=ast.Load())), last)
        node.body = body[:cut] + [init, holder if holder is not None else loop, final]
        for n_ in ast.walk(init):
            if not hasattr(n_, 'lineno'):
                ast.copy_location(n_, loop)
        for n_ in ast.walk(final):
            if not hasattr(n_, 'lineno'):
                ast.copy_location(n_, last)
        for n_ in ast.walk(setv):
            if not hasattr(n_, 'lineno'):
                ast.copy_location(n_, ret)

    def _unused_enumerate(self, node):
        """`for i, x in enumerate(xs): BODY` with i read nowhere in the function  is  `for x in xs: BODY`."""
        for loop in [n for n in ast.walk(node) if isinstance(n, ast.For)]:
            it = loop.iter
            if not (isinstance(it, ast.Call) and isinstance(it.func, ast.Name) and it.func.id == 'enumerate' and 1 <= len(it.args) <= 2
                    and all(k.arg == 'start' for k in it.keywords) and not isinstance(it.args[0], ast.Starred)
                    and isinstance(loop.target, (ast.Tuple, ast.List)) and len(loop.target.elts) == 2 and isinstance(loop.target.elts[0], ast.Name)):
                continue
            idx = loop.target.elts[0].id
            uses = [n for n in ast.walk(node) if isinstance(n, ast.Name) and n.id == idx and n is not loop.target.elts[0]]
            if uses or any(isinstance(n, (ast.Global, ast.Nonlocal)) and idx in n.names for n in ast.walk(node)):
                continue
            if any(isinstance(a, ast.Call) for a in list(it.args[1:]) + [k.value for k in it.keywords]):
                continue
            loop.target = loop.target.elts[1]
            loop.iter = it.args[0]

    def _fn(self, node):
        self.generic_visit(node)
        self._search_with_return(node)
        self._unused_enumerate(node)
        _counter_updates(node)
        node.returns = None
        for a in node.args.posonlyargs + node.args.args + node.args.kwonlyargs:
            a.annotation = None
        if node.args.vararg:
            node.args.vararg.annotation = None
        if node.args.kwarg:
            node.args.kwarg.annotation = None
        return node

    visit_FunctionDef = _fn
    visit_AsyncFunctionDef = _fn


def _split_parallel_assign(node):
    """`a, b = X, Y` with plain local names on the left and, on the right, displays / constants / calls that mention none of the
    targets is `a = X; b = Y` (same evaluation order; nothing on the right can see a target).  None when it does not apply."""
    tgt, v = node.targets[0], node.value
    if not isinstance(v, (ast.Tuple, ast.List)) or len(v.elts) != len(tgt.elts) or len(tgt.elts) < 2:
        return None
    if not all(isinstance(t, ast.Name) for t in tgt.elts) or any(isinstance(e, ast.Starred) for e in v.elts):
        return None
    names = [t.id for t in tgt.elts]
    if len(set(names)) != len(names):
        return None
    for e in v.elts:
        for n in ast.walk(e):
            if isinstance(n, ast.Name) and n.id in names:
                return None
            if isinstance(n, (ast.NamedExpr, ast.Lambda, ast.Yield, ast.YieldFrom, ast.Await)):
                return None
    out = []
    for t, e in zip(tgt.elts, v.elts):
        st = ast.Assign(targets=[ast.Name(id=t.id, ctx=ast.Store())], value=e, type_comment=None)
        out.append(ast.copy_location(st, node))
        ast.copy_location(st.targets[0], t)
    return out


def _counter_updates(fn):
    """`n = n + e` / `n = n - e` on a local integer counter is `n += e` / `n -= e`.  A counter is a plain local whose every other
    binding in the function is an integer constant or an augmented assignment (so no aliasing question arises: integers are
    immutable, the two spellings cannot be told apart)."""
    own = list(_own_nodes(fn))
    params = {a.arg for a in fn.args.posonlyargs + fn.args.args + fn.args.kwonlyargs}
    rebinds = {}
    for n in own:
        if isinstance(n, ast.Assign) and len(n.targets) == 1 and isinstance(n.targets[0], ast.Name):
            rebinds.setdefault(n.targets[0].id, []).append(n)
        elif isinstance(n, ast.Name) and isinstance(n.ctx, (ast.Store, ast.Del)):
            rebinds.setdefault(n.id, [])
    stores = {}
    for n in own:
        if isinstance(n, ast.Name) and isinstance(n.ctx, (ast.Store, ast.Del)):
            stores[n.id] = stores.get(n.id, 0) + 1
    for name, assigns in rebinds.items():
        if name in params or not assigns:
            continue
        consts = [a for a in assigns if isinstance(a.value, ast.Constant) and isinstance(a.value.value, int) and not isinstance(a.value.value, bool)]
        steps = [a for a in assigns if isinstance(a.value, ast.BinOp) and isinstance(a.value.op, (ast.Add, ast.Sub))
                 and isinstance(a.value.left, ast.Name) and a.value.left.id == name
                 and not any(isinstance(x, ast.Name) and x.id == name for x in ast.walk(a.value.right))]
        augs = [n for n in own if isinstance(n, ast.AugAssign) and isinstance(n.target, ast.Name) and n.target.id == name]
        if not consts or not steps or len(consts) + len(steps) != len(assigns) or stores.get(name, 0) != len(assigns) + len(augs):
            continue
        for a in steps:
            new = ast.AugAssign(target=ast.Name(id=name, ctx=ast.Store()), op=a.value.op, value=a.value.right)
            ast.copy_location(new, a)
            ast.copy_location(new.target, a.targets[0])
            a.__class__ = ast.AugAssign
            a.__dict__.clear()
            a.__dict__.update(new.__dict__)


ACC = '_collected'


def _own_nodes(fn):
    """Nodes of a function body that belong to the function itself (not to nested functions / lambdas / classes)."""
    todo = list(fn.body)
    while todo:
        n = todo.pop()
        yield n
        for c in ast.iter_child_nodes(n):
            if not isinstance(c, (ast.FunctionDef, ast.AsyncFunctionDef, ast.Lambda, ast.ClassDef)):
                todo.append(c)


class _YieldToAppend(ast.NodeTransformer):
    def visit_FunctionDef(self, node):
        return node

    visit_AsyncFunctionDef = visit_Lambda = visit_ClassDef = visit_FunctionDef

    def visit_Expr(self, node):
        v = node.value
        if isinstance(v, ast.Yield):
            arg = v.value if v.value is not None else ast.Constant(value=None)
            call = ast.Call(func=ast.Attribute(value=ast.Name(id=ACC, ctx=ast.Load()), attr='append', ctx=ast.Load()), args=[arg], keywords=[])
            return ast.copy_location(ast.Expr(value=ast.copy_location(call, node)), node)
        if isinstance(v, ast.YieldFrom):
            call = ast.Call(func=ast.Attribute(value=ast.Name(id=ACC, ctx=ast.Load()), attr='extend', ctx=ast.Load()), args=[v.value], keywords=[])
            return ast.copy_location(ast.Expr(value=ast.copy_location(call, node)), node)
        return node

    def visit_Return(self, node):
        if node.value is None:
            return ast.copy_location(ast.Return(value=ast.Name(id=ACC, ctx=ast.Load())), node)
        return node


def _collected_generator(fn, funcs):
    """`def f(..): return list(g(..))` with g a module-level generator function whose yields are all statements: the equivalent
    eager body of f (`_collected = []`, every `yield x` an append, `return _collected`), or None.  list() consumes the generator
    on the spot, so order of effects and result are the same."""
    import copy
    body = list(fn.body)
    doc = []
    if body and isinstance(body[0], ast.Expr) and isinstance(body[0].value, ast.Constant) and isinstance(body[0].value.value, str):
        doc, body = body[:1], body[1:]
    if len(body) != 1 or not isinstance(body[0], ast.Return) or body[0].value is None:
        return None
    v = body[0].value
    if isinstance(v, ast.Call) and isinstance(v.func, ast.Name) and v.func.id == 'list' and len(v.args) == 1 and not v.keywords:
        inner = v.args[0]
    elif isinstance(v, ast.List) and len(v.elts) == 1 and isinstance(v.elts[0], ast.Starred):
        inner = v.elts[0].value
    else:
        return None
    if not (isinstance(inner, ast.Call) and isinstance(inner.func, ast.Name)):
        return None
    g = funcs.get(inner.func.id)
    if g is None or g is fn or g.decorator_list or not isinstance(g, ast.FunctionDef):
        return None
    own = list(_own_nodes(g))
    yields = [n for n in own if isinstance(n, (ast.Yield, ast.YieldFrom))]
    if not yields:
        return None
    stmt_yields = {id(n.value) for n in own if isinstance(n, ast.Expr) and isinstance(n.value, (ast.Yield, ast.YieldFrom))}
    if any(id(y) not in stmt_yields for y in yields):
        return None                       # a yield whose value is used (send protocol)
    if any(isinstance(n, ast.Return) and n.value is not None for n in own):
        return None
    if any(isinstance(n, ast.Name) and n.id == ACC for n in ast.walk(g)):
        return None
    a = g.args
    if a.vararg or a.kwarg or a.posonlyargs or a.kwonlyargs or any(isinstance(x, ast.Starred) for x in inner.args) or any(k.arg is None for k in inner.keywords):
        return None
    params = [x.arg for x in a.args]
    bound = {}
    if len(inner.args) > len(params):
        return None
    for name, arg in zip(params, inner.args):
        bound[name] = arg
    for k in inner.keywords:
        if k.arg not in params or k.arg in bound:
            return None
        bound[k.arg] = k.value
    defaults = dict(zip(params[len(params) - len(a.defaults):], a.defaults))
    for name in params:
        if name not in bound:
            if name not in defaults:
                return None
            bound[name] = defaults[name]
    pre = []
    if not all(isinstance(bound[n], ast.Name) and bound[n].id == n for n in params):
        tgt = ast.Tuple(elts=[ast.Name(id=n, ctx=ast.Store()) for n in params], ctx=ast.Store())
        val = ast.Tuple(elts=[bound[n] for n in params], ctx=ast.Load())
        pre = [ast.copy_location(ast.Assign(targets=[tgt], value=val, type_comment=None), body[0])]
    init = ast.copy_location(ast.Assign(targets=[ast.Name(id=ACC, ctx=ast.Store())], value=ast.List(elts=[], ctx=ast.Load()), type_comment=None), body[0])
    gbody = [ _YieldToAppend().visit(copy.deepcopy(st)) for st in g.body]
    if gbody and isinstance(gbody[0], ast.Expr) and isinstance(gbody[0].value, ast.Constant) and isinstance(gbody[0].value.value, str):
        gbody = gbody[1:]
    last = g.body[-1]
    ret = ast.Return(value=ast.Name(id=ACC, ctx=ast.Load()))
    ret.lineno = ret.end_lineno = getattr(last, 'end_lineno', last.lineno)
    ret.col_offset = ret.end_col_offset = 0
    return doc + pre + [init] + gbody + [ret]


def _collected_comprehension(fn):
    """`def f(items, ..): ...; return [E for x in items if C]` (one generator, over a parameter): the equivalent loop that appends
    to `_collected`.  The comprehension variable becomes a local of f, which nothing can observe after the return."""
    if not fn.body or not isinstance(fn.body[-1], ast.Return):
        return None
    v = fn.body[-1].value
    if not isinstance(v, ast.ListComp) or len(v.generators) != 1:
        return None
    g = v.generators[0]
    a = fn.args
    params = {x.arg for x in a.posonlyargs + a.args + a.kwonlyargs}
    if g.is_async or not (isinstance(g.iter, ast.Name) and g.iter.id in params):
        return None
    bound = {n.id for n in ast.walk(g.target) if isinstance(n, ast.Name)}
    used_before = {n.id for st in fn.body[:-1] for n in ast.walk(st) if isinstance(n, ast.Name)}
    if bound & (params | used_before) or any(isinstance(n, ast.Name) and n.id == ACC for n in ast.walk(fn)):
        return None
    if any(isinstance(n, (ast.ListComp, ast.SetComp, ast.DictComp, ast.GeneratorExp, ast.Lambda, ast.NamedExpr)) for n in ast.walk(v.elt)):
        return None                       # nested scopes would see the loop variable differently
    ret = fn.body[-1]
    app = ast.Expr(value=ast.Call(func=ast.Attribute(value=ast.Name(id=ACC, ctx=ast.Load()), attr='append', ctx=ast.Load()), args=[v.elt], keywords=[]))
    body = [app]
    for c in reversed(g.ifs):
        body = [ast.If(test=c, body=body, orelse=[])]
    loop = ast.For(target=g.target, iter=g.iter, body=body, orelse=[], type_comment=None)
    init = ast.Assign(targets=[ast.Name(id=ACC, ctx=ast.Store())], value=ast.List(elts=[], ctx=ast.Load()), type_comment=None)
    new_ret = ast.Return(value=ast.Name(id=ACC, ctx=ast.Load()))
    for n in (init, loop, new_ret):
        ast.copy_location(n, ret)
        for sub in ast.walk(n):
            if not hasattr(sub, 'lineno') and isinstance(sub, (ast.stmt, ast.expr)):
                ast.copy_location(sub, ret)
    return fn.body[:-1] + [init, loop, new_ret]


# -- scalar replacement of a local helper object -----------------------------------------------------------------------------
def _simple_record_class(cls):
    """A module-level class whose instances are plain records with a few mutating methods: no bases, no decorators, an
    __init__ and methods that touch `self` only as `self.<attr>`.  Returns {method name: FunctionDef} or None."""
    if cls.decorator_list or cls.keywords or any(not (isinstance(b, ast.Name) and b.id == 'object') for b in cls.bases):
        return None
    methods = {}
    for st in cls.body:
        if isinstance(st, ast.FunctionDef):
            if st.decorator_list or not st.args.args or st.args.vararg or st.args.kwarg or st.args.kwonlyargs or st.args.posonlyargs:
                return None
            methods[st.name] = st
        elif isinstance(st, ast.Expr) and isinstance(st.value, ast.Constant):
            continue
        elif (isinstance(st, ast.Assign) and len(st.targets) == 1 and isinstance(st.targets[0], ast.Name) and st.targets[0].id == '__slots__'
              and (isinstance(st.value, ast.Constant) or (isinstance(st.value, (ast.Tuple, ast.List)) and all(isinstance(e, ast.Constant) for e in st.value.elts)))):
            continue        # __slots__ = ('a', 'b'): only how the record stores its fields
        else:
            return None
    if '__init__' not in methods or any(n.startswith('__') and n != '__init__' for n in methods):
        return None
    for m in methods.values():
        selfname = m.args.args[0].arg
        for n in ast.walk(m):
            if isinstance(n, (ast.FunctionDef, ast.AsyncFunctionDef, ast.Lambda, ast.ClassDef, ast.Yield, ast.YieldFrom, ast.Global, ast.Nonlocal)) and n is not m:
                return None
            if isinstance(n, ast.Return) and n.value is not None:
                return None
        # self only as self.<attr>
        attr_bases = {id(n.value) for n in ast.walk(m) if isinstance(n, ast.Attribute)}
        for n in ast.walk(m):
            if isinstance(n, ast.Name) and n.id == selfname and id(n) not in attr_bases:
                return None
        # no method of self is called from inside a method
        for n in ast.walk(m):
            if isinstance(n, ast.Call) and isinstance(n.func, ast.Attribute) and isinstance(n.func.value, ast.Name) and n.func.value.id == selfname:
                return None
        # a bare `return` only as the very last statement
        for n in ast.walk(m):
            if isinstance(n, ast.Return) and n is not m.body[-1]:
                return None
    return methods


def _init_attrs(init):
    selfname = init.args.args[0].arg
    out = set()
    for n in ast.walk(init):
        if isinstance(n, ast.Attribute) and isinstance(n.value, ast.Name) and n.value.id == selfname and isinstance(n.ctx, ast.Store):
            out.add(n.attr)
    return out


def _inline_method(meth, var, call, used_names, tag):
    """Statements of `meth` with self.<a> -> <var>__<a>, parameters bound to the call's arguments, locals renamed."""
    import copy
    params = [a.arg for a in meth.args.args]
    selfname, params = params[0], params[1:]
    defaults = dict(zip(params[len(params) - len(meth.args.defaults):], meth.args.defaults))
    bound = {}
    if len(call.args) > len(params) or any(isinstance(a, ast.Starred) for a in call.args):
        return None
    for name, a in zip(params, call.args):
        bound[name] = a
    for kw in call.keywords:
        if kw.arg is None or kw.arg not in params or kw.arg in bound:
            return None
        bound[kw.arg] = kw.value
    for name in params:
        if name not in bound:
            if name not in defaults:
                return None
            bound[name] = defaults[name]
    body = [copy.deepcopy(st) for st in meth.body]
    if body and isinstance(body[0], ast.Expr) and isinstance(body[0].value, ast.Constant) and isinstance(body[0].value.value, str):
        body = body[1:]
    if body and isinstance(body[-1], ast.Return):
        body = body[:-1]
    stored = {n.id for st in body for n in ast.walk(st) if isinstance(n, ast.Name) and isinstance(n.ctx, ast.Store)}
    pre = []
    subst = {}
    for name in params:
        a = bound[name]
        if isinstance(a, (ast.Name, ast.Constant)) and name not in stored:
            subst[name] = a
        else:
            tmp = '_{}_{}_{}'.format(var, tag, name)
            pre.append(ast.Assign(targets=[ast.Name(id=tmp, ctx=ast.Store())], value=a, type_comment=None))
            subst[name] = ast.Name(id=tmp, ctx=ast.Load())
    locals_ = stored - set(params)

    class T(ast.NodeTransformer):
        def visit_Attribute(self, n):
            if isinstance(n.value, ast.Name) and n.value.id == selfname:
                return ast.copy_location(ast.Name(id='{}__{}'.format(var, n.attr), ctx=n.ctx), n)
            self.generic_visit(n)
            return n

        def visit_Name(self, n):
            if n.id in subst:
                if isinstance(n.ctx, ast.Load):
                    return ast.copy_location(copy.deepcopy(subst[n.id]), n)
                return ast.copy_location(ast.Name(id=subst[n.id].id, ctx=n.ctx), n) if isinstance(subst[n.id], ast.Name) else n
            if n.id in locals_:
                return ast.copy_location(ast.Name(id='_{}_{}_{}'.format(var, tag, n.id), ctx=n.ctx), n)
            return n
    out = pre + [T().visit(st) for st in body]
    for st in out:
        for n in ast.walk(st):
            if isinstance(n, (ast.stmt, ast.expr)):
                ast.copy_location(n, call) if not hasattr(n, 'lineno') else None
        ast.copy_location(st, call) if not hasattr(st, 'lineno') else None
    return out or [ast.copy_location(ast.Pass(), call)]


def _scalar_replace(fn, classes):
    """`v = C(..)` with C a simple record class and v used only as `v.<attr>` / `v.<method>(..)` statements inside fn: the
    object is replaced by one local per attribute and its methods are inlined (the object never escapes, so nothing else can
    observe the difference).  Returns True when fn was rewritten."""
    changed = False
    # the construction may stand anywhere in the function (e.g. once per iteration of the item loop), not only at its top level
    for st in [n for n in _own_nodes(fn) if isinstance(n, ast.Assign)]:
        if not (isinstance(st, ast.Assign) and len(st.targets) == 1 and isinstance(st.targets[0], ast.Name) and isinstance(st.value, ast.Call)
                and isinstance(st.value.func, ast.Name) and st.value.func.id in classes):
            continue
        var = st.targets[0].id
        methods = classes[st.value.func.id]
        attrs = _init_attrs(methods['__init__'])
        # every other occurrence of var
        ok = True
        attr_bases = {}
        for n in ast.walk(fn):
            if isinstance(n, ast.Attribute) and isinstance(n.value, ast.Name) and n.value.id == var:
                attr_bases[id(n.value)] = n
        method_calls = {}       # id(Attribute) -> Call
        for n in ast.walk(fn):
            if isinstance(n, ast.Call) and isinstance(n.func, ast.Attribute) and id(n.func.value) in attr_bases and n.func.attr in methods and n.func.attr not in attrs:
                method_calls[id(n.func)] = n
        call_stmts = {}
        for n in ast.walk(fn):
            if isinstance(n, ast.Expr) and isinstance(n.value, ast.Call) and id(n.value.func) in method_calls:
                call_stmts[id(n.value)] = n
        for n in ast.walk(fn):
            if isinstance(n, ast.Name) and n.id == var:
                if n is st.targets[0]:
                    continue
                a = attr_bases.get(id(n))
                if a is None or not isinstance(n.ctx, ast.Load):
                    ok = False
                elif id(a) in method_calls:
                    if id(method_calls[id(a)]) not in call_stmts:
                        ok = False        # the method's result is used
                elif a.attr not in attrs:
                    ok = False
            if isinstance(n, (ast.FunctionDef, ast.Lambda, ast.ClassDef)) and n is not fn and any(isinstance(x, ast.Name) and x.id == var for x in ast.walk(n)):
                ok = False                # captured by a nested scope
            if isinstance(n, (ast.Global, ast.Nonlocal)) and var in n.names:
                ok = False
        names = {n.id for n in ast.walk(fn) if isinstance(n, ast.Name)} | {a.arg for a in ast.walk(fn) if isinstance(a, ast.arg)}
        if any('{}__{}'.format(var, a) in names for a in attrs):
            ok = False
        if not ok:
            continue
        counter = [0]

        class R(ast.NodeTransformer):
            def visit_FunctionDef(self, n):
                if n is fn:
                    self.generic_visit(n)
                return n

            def visit_Assign(self, n):
                if n is st:
                    counter[0] += 1
                    inl = _inline_method(methods['__init__'], var, n.value, names, 'init{}'.format(counter[0]))
                    if inl is None:
                        raise _NoSRA()
                    return inl
                self.generic_visit(n)
                return n

            def visit_Expr(self, n):
                if isinstance(n.value, ast.Call) and id(n.value) in call_stmts:
                    counter[0] += 1
                    inl = _inline_method(methods[n.value.func.attr], var, n.value, names, '{}{}'.format(n.value.func.attr, counter[0]))
                    if inl is None:
                        raise _NoSRA()
                    return inl
                self.generic_visit(n)
                return n

            def visit_Attribute(self, n):
                if isinstance(n.value, ast.Name) and n.value.id == var and n.attr in attrs:
                    return ast.copy_location(ast.Name(id='{}__{}'.format(var, n.attr), ctx=n.ctx), n)
                self.generic_visit(n)
                return n
        import copy
        backup = copy.deepcopy(fn.body)
        try:
            R().visit(fn)
            changed = True
        except _NoSRA:
            fn.body = backup
    return changed


class _NoSRA(Exception):
    pass


# -- a generator function consumed by a for loop -----------------------------------------------------------------------------
def _own_loop_breaks(body, kinds=(ast.Break,)):
    """Does a loop body contain a `break` (or another statement of `kinds`) that belongs to this loop (not to a nested loop)?"""
    todo = list(body)
    while todo:
        n = todo.pop()
        if isinstance(n, kinds):
            return True
        if isinstance(n, (ast.For, ast.While, ast.AsyncFor)):
            todo.extend(n.orelse)
            continue
        if isinstance(n, (ast.FunctionDef, ast.AsyncFunctionDef, ast.Lambda, ast.ClassDef)):
            continue
        todo.extend(ast.iter_child_nodes(n))
    return False


def _inline_generator_loop(fn, loop, funcs):
    """`for T in g(args): BODY` with g a module-level generator of the shape `pre...; for v in xs: A...; yield E; B...`:
    the statements `pre...; for v in xs: A...; T = E; BODY; B...` (g's names renamed).  A `continue` in BODY has to reach B, so BODY
    runs inside a one-trip loop; a `break` of BODY's own loop is not expressible that way and blocks the rewrite."""
    import copy
    it = loop.iter
    target = loop.target
    enum_target, enum_start = None, None
    if (isinstance(it, ast.Call) and isinstance(it.func, ast.Name) and it.func.id == 'enumerate' and 1 <= len(it.args) <= 2
            and all(k.arg == 'start' for k in it.keywords) and len(it.args) + len(it.keywords) <= 2
            and isinstance(target, (ast.Tuple, ast.List)) and len(target.elts) == 2 and isinstance(target.elts[0], ast.Name)):
        # for I, T in enumerate(g(args)[, start]): g's loop yields exactly once per iteration (checked below), so I counts g's own
        # iterations: the inlined loop runs over enumerate(<g's iterable>, start)
        enum_target = target.elts[0]
        enum_start = it.args[1] if len(it.args) == 2 else (it.keywords[0].value if it.keywords else None)
        it, target = it.args[0], target.elts[1]
    if loop.orelse or not (isinstance(it, ast.Call) and isinstance(it.func, ast.Name)) or it.keywords or any(isinstance(a, ast.Starred) for a in it.args):
        return None
    g = funcs.get(it.func.id)
    if g is None or g is fn or g.decorator_list or not isinstance(g, ast.FunctionDef):
        return None
    a = g.args
    if a.vararg or a.kwarg or a.posonlyargs or a.kwonlyargs or len(it.args) > len(a.args) or len(a.args) - len(it.args) > len(a.defaults):
        return None
    body = list(g.body)
    if body and isinstance(body[0], ast.Expr) and isinstance(body[0].value, ast.Constant) and isinstance(body[0].value.value, str):
        body = body[1:]
    loops = [k for k, st in enumerate(body) if isinstance(st, ast.For)]
    if len(loops) != 1:
        return None
    k = loops[0]
    pre, gloop, post = body[:k], body[k], body[k + 1:]
    if post or gloop.orelse:
        return None
    own = list(_own_nodes(g))
    yields = [n for n in own if isinstance(n, (ast.Yield, ast.YieldFrom))]
    top = [j for j, st in enumerate(gloop.body) if isinstance(st, ast.Expr) and isinstance(st.value, ast.Yield)]
    if len(yields) != 1 or len(top) != 1 or yields[0] is not gloop.body[top[0]].value or yields[0].value is None:
        return None
    if any(isinstance(n, (ast.Return, ast.Global, ast.Nonlocal)) for n in own):
        return None
    if any(isinstance(n, (ast.FunctionDef, ast.Lambda, ast.ClassDef)) for n in ast.walk(g) if n is not g):
        return None
    if _own_loop_breaks(loop.body) or _own_loop_breaks(gloop.body):
        return None
    if enum_target is not None and _own_loop_breaks(gloop.body, (ast.Continue,)):
        return None               # an iteration of g's loop that yields nothing: the two counters would drift apart
    if any(isinstance(n, (ast.Yield, ast.YieldFrom)) for st in loop.body for n in ast.walk(st)):
        return None
    j = top[0]
    suffix = '__' + g.name
    params = [x.arg for x in a.args]
    stored = {n.id for n in ast.walk(g) if isinstance(n, ast.Name) and isinstance(n.ctx, ast.Store)}
    local_names = stored | set(params)
    fparams = {x.arg for x in fn.args.args + fn.args.kwonlyargs + fn.args.posonlyargs}
    fstored = {n.id for n in ast.walk(fn) if isinstance(n, ast.Name) and isinstance(n.ctx, ast.Store)}
    fnames = {n.id for n in ast.walk(fn) if isinstance(n, ast.Name)} | fparams
    if any((n + suffix) in fnames for n in local_names):
        return None
    defaults = dict(zip(params[len(params) - len(a.defaults):], a.defaults))
    subst = {}
    binds = []
    for idx, name in enumerate(params):
        arg = it.args[idx] if idx < len(it.args) else defaults[name]
        if isinstance(arg, ast.Name) and arg.id in fparams and arg.id not in fstored and name not in stored:
            subst[name] = arg.id          # the caller's own, never reassigned parameter: same object throughout
        else:
            binds.append(ast.Assign(targets=[ast.Name(id=name + suffix, ctx=ast.Store())], value=arg, type_comment=None))

    class Ren(ast.NodeTransformer):
        def visit_Name(self, n):
            if n.id in subst:
                return ast.copy_location(ast.Name(id=subst[n.id], ctx=n.ctx), n)
            if n.id in local_names:
                return ast.copy_location(ast.Name(id=n.id + suffix, ctx=n.ctx), n)
            return n
    ren = lambda st: Ren().visit(copy.deepcopy(st))
    new_pre = [ren(st) for st in pre]
    before = [ren(st) for st in gloop.body[:j]]
    after = [ren(st) for st in gloop.body[j + 1:]]
    bind_t = ast.Assign(targets=[target], value=ren(gloop.body[j]).value.value, type_comment=None)
    has_continue = any(isinstance(n, ast.Continue) for st in loop.body for n in ast.walk(st))
    inner = list(loop.body)
    if after and has_continue:
        once = ast.For(target=ast.Name(id='_once' + suffix, ctx=ast.Store()), iter=ast.Tuple(elts=[ast.Constant(value=0)], ctx=ast.Load()),
                       body=inner, orelse=[], type_comment=None)
        inner = [once]
    new_target, new_iter = ren(gloop).target, ren(gloop).iter
    if enum_target is not None:
        new_target = ast.Tuple(elts=[enum_target, new_target], ctx=ast.Store())
        new_iter = ast.Call(func=ast.Name(id='enumerate', ctx=ast.Load()), args=[new_iter] + ([enum_start] if enum_start is not None else []), keywords=[])
    new_loop = ast.For(target=new_target, iter=new_iter, body=before + [bind_t] + inner + after, orelse=[], type_comment=None)
    out = binds + new_pre + [new_loop]
    for st in out:
        for n in ast.walk(st):
            if isinstance(n, (ast.stmt, ast.expr)) and not hasattr(n, 'lineno'):
                ast.copy_location(n, loop)
    return out


def _inline_generator_loops(fn, funcs):
    changed = False
    new_body = []
    for st in fn.body:
        if isinstance(st, ast.For):
            repl = _inline_generator_loop(fn, st, funcs)
            if repl is not None:
                new_body.extend(repl)
                changed = True
                continue
        new_body.append(st)
    if changed:
        fn.body = new_body
    return changed


def _canonical_table_params(tree):
    """The passes receive the two symbol tables of `assemble` (its keyword parameters `constants` and `labels`: public names) under
    parameter names of their own.  Rules speak about "the label table of the pass"; so that they do not depend on what a pass calls
    it, a parameter of a module-level function that is handed `labels` (`constants`) by a direct call in `assemble` is renamed to
    that canonical name (alpha-renaming: only when the function binds no other variable of that name, in any nested scope)."""
    funcs = {n.name: n for n in tree.body if isinstance(n, ast.FunctionDef)}
    asm = funcs.get('assemble')
    if asm is None:
        return
    own = {a.arg for a in asm.args.args + asm.args.kwonlyargs}
    wanted = {}          # (function, parameter) -> canonical name
    for call in ast.walk(asm):
        if not (isinstance(call, ast.Call) and isinstance(call.func, ast.Name) and call.func.id in funcs and call.func.id != 'assemble'):
            continue
        fn = funcs[call.func.id]
        if fn.args.vararg or fn.args.kwarg or any(isinstance(a, ast.Starred) for a in call.args) or any(k.arg is None for k in call.keywords):
            continue
        params = [a.arg for a in fn.args.posonlyargs + fn.args.args]
        for i, a in enumerate(call.args):
            if isinstance(a, ast.Name) and a.id in ('labels', 'constants') and a.id in own and i < len(params):
                wanted.setdefault((fn.name, params[i]), set()).add(a.id)
        for k in call.keywords:
            if isinstance(k.value, ast.Name) and k.value.id in ('labels', 'constants') and k.value.id in own:
                wanted.setdefault((fn.name, k.arg), set()).add(k.value.id)
    todo = {}
    for (fname, param), canon in wanted.items():
        if len(canon) == 1 and param != next(iter(canon)):
            todo.setdefault(fname, []).append((param, next(iter(canon))))
    for fname, pairs in todo.items():
        fn = funcs[fname]
        pairs = dict(pairs)
        if len(set(pairs.values())) != len(pairs):
            continue
        bound = set()
        for n in ast.walk(fn):
            if isinstance(n, ast.Name):
                bound.add(n.id)
            elif isinstance(n, ast.arg):
                bound.add(n.arg)
            elif isinstance(n, (ast.FunctionDef, ast.ClassDef)) and n is not fn:
                bound.add(n.name)
        if any(new in bound for new in pairs.values()):
            continue           # the canonical name means something else in this function
        shadowed = False
        for n in ast.walk(fn):
            if n is not fn and isinstance(n, (ast.FunctionDef, ast.Lambda)):
                a = n.args
                if any(x.arg in pairs for x in a.posonlyargs + a.args + a.kwonlyargs + ([a.vararg] if a.vararg else []) + ([a.kwarg] if a.kwarg else [])):
                    shadowed = True
            if isinstance(n, (ast.Global, ast.Nonlocal)) and any(x in pairs for x in n.names):
                shadowed = True
        if shadowed:
            continue
        for n in ast.walk(fn):
            if isinstance(n, ast.Name) and n.id in pairs:
                n.id = pairs[n.id]
            elif isinstance(n, ast.arg) and n.arg in pairs:
                n.arg = pairs[n.arg]
        for call in ast.walk(tree):
            if isinstance(call, ast.Call) and isinstance(call.func, ast.Name) and call.func.id == fname:
                for k in call.keywords:
                    if k.arg in pairs:
                        k.arg = pairs[k.arg]


def _split_module_tuple_assignments(tree):
    """Module level `A, B = x, y` is `A = x; B = y` when no right-hand element reads one of the targets (the right-hand side is
    evaluated first either way, in the same order): named constants defined in pairs are constants like any other."""
    body = []
    for st in tree.body:
        if (isinstance(st, ast.Assign) and len(st.targets) == 1 and isinstance(st.targets[0], (ast.Tuple, ast.List))
                and isinstance(st.value, (ast.Tuple, ast.List)) and len(st.targets[0].elts) == len(st.value.elts)
                and all(isinstance(t, ast.Name) for t in st.targets[0].elts) and not any(isinstance(v, ast.Starred) for v in st.value.elts)):
            names = {t.id for t in st.targets[0].elts}
            reads = {n.id for v in st.value.elts for n in ast.walk(v) if isinstance(n, ast.Name)}
            calls = any(isinstance(n, (ast.Call, ast.NamedExpr)) for v in st.value.elts for n in ast.walk(v))
            if len(names) == len(st.targets[0].elts) and not (names & reads) and not calls:
                for t, v in zip(st.targets[0].elts, st.value.elts):
                    body.append(ast.copy_location(ast.Assign(targets=[t], value=v, type_comment=None), st))
                continue
        body.append(st)
    tree.body = body


def normalise_tree(tree):
    mods, names = set(), set()
    for st in ast.walk(tree):
        if isinstance(st, ast.Import):
            mods.update((a.asname or a.name) for a in st.names if a.name == 'contextlib')
        elif isinstance(st, ast.ImportFrom) and st.module == 'contextlib' and st.level == 0:
            names.update((a.asname or a.name) for a in st.names if a.name == 'suppress')
    norm = _Normalise()
    norm.suppress_names = (mods, names)
    tree = norm.visit(tree)
    _canonical_table_params(tree)
    _split_module_tuple_assignments(tree)
    gen_funcs = {n.name: n for n in tree.body if isinstance(n, ast.FunctionDef)}
    for n in list(gen_funcs.values()):
        _inline_generator_loops(n, gen_funcs)
    record_classes = {}
    for n in tree.body:
        if isinstance(n, ast.ClassDef):
            m = _simple_record_class(n)
            if m is not None:
                record_classes[n.name] = m
    if record_classes:
        for n in tree.body:
            if isinstance(n, ast.FunctionDef):
                _scalar_replace(n, record_classes)
    funcs = {n.name: n for n in tree.body if isinstance(n, ast.FunctionDef)}
    for fn in list(funcs.values()):
        new = _collected_generator(fn, funcs)
        if new is None:
            new = _collected_comprehension(fn)
        if new is not None:
            fn.body = new
    ast.fix_missing_locations(tree)
    return tree


class Repo:
    def __init__(self, root):
        self.root = os.path.abspath(root)
        self.text = {}
        self.tree = {}
        self.lines = {}
        for rel in SOURCE_FILES + DOC_FILES:
            p = os.path.join(self.root, rel)
            try:
                with open(p, encoding='utf-8') as f:
                    self.text[rel] = f.read()
            except OSError as e:
                raise AnalysisError('cannot read {}: {}'.format(p, e))
            self.lines[rel] = self.text[rel].splitlines()
        for rel in SOURCE_FILES:
            try:
                self.tree[rel] = ast.parse(self.text[rel], filename=rel)
            except SyntaxError as e:
                raise AnalysisError('cannot parse {}: {}'.format(rel, e))
            self.tree[rel] = normalise_tree(self.tree[rel])
            for node in ast.walk(self.tree[rel]):
                for child in ast.iter_child_nodes(node):
                    child._parent = node
            self.tree[rel]._parent = None

    def digests(self, rels=None):
        out = {}
        for rel in rels or (SOURCE_FILES + DOC_FILES):
            out[rel] = hashlib.sha256(self.text[rel].encode('utf-8')).hexdigest()[:16]
        return out

    @property
    def asm(self):
        return self.tree['bronzebeard/asm.py']

    @property
    def dfu(self):
        return self.tree['bronzebeard/dfu.py']


def norm_stmt(node_or_text):
    """Normalised one-line text of a statement / expression: the finding key never uses line numbers."""
    if isinstance(node_or_text, ast.AST):
        try:
            text = ast.unparse(node_or_text)
        except Exception:
            text = ast.dump(node_or_text)
    else:
        text = str(node_or_text)
    text = text.strip().split('\n')[0]
    text = re.sub(r'\s+', ' ', text)
    if len(text) > 160:
        text = text[:157] + '...'
    return text


class Finding:
    def __init__(self, rule, construct, stmt, message, file='bronzebeard/asm.py', line=None, detail=None):
        self.rule = rule
        self.construct = construct
        self.stmt = norm_stmt(stmt) if stmt is not None else ''
        self.message = message
        self.file = file
        self.line = line if line is not None else getattr(stmt, 'lineno', None)
        self.detail = detail or {}

    @property
    def key(self):
        return '{}|{}|{}'.format(self.rule, self.construct, self.stmt)

    def to_json(self):
        return {
            'rule': self.rule, 'construct': self.construct, 'statement': self.stmt,
            'message': self.message, 'file': self.file, 'line': self.line, 'detail': self.detail,
            'key': self.key,
        }

    def __str__(self):
        loc = '{}:{}'.format(self.file, self.line) if self.line else self.file
        return '[{}] {} in {}: {}  <<{}>>'.format(self.rule, loc, self.construct, self.message, self.stmt)


class Report:
    """What one property's check analysed and concluded."""

    def __init__(self, prop, level, explanation):
        self.prop = prop
        self.level = level
        self.explanation = explanation
        self.findings = []
        self.obligations = []      # (rule, instance, ok)
        self.samples = []
        self.notes = []
        self.not_decided = []
        self.analysed = {}         # free-form measured counters
        self.trusted_base = []
        self.assumptions = []
        self._nontrivial = set()
        self._seen = set()
        self._floors = []

    # -- recording -----------------------------------------------------------------------------
    def ok(self, rule, instance, nontrivial=True):
        key = (rule, str(instance), True)
        if key in self._seen:
            return
        self._seen.add(key)
        self.obligations.append((rule, str(instance), True))
        if nontrivial:
            self._nontrivial.add((rule, str(instance)))

    def fail(self, finding, instance=None):
        key = (finding.rule, str(instance if instance is not None else finding.construct), False)
        if key not in self._seen:
            self._seen.add(key)
            self.obligations.append(key)
        self._nontrivial.add((finding.rule, str(instance if instance is not None else finding.construct)))
        # one finding per key
        if all(f.key != finding.key for f in self.findings):
            self.findings.append(finding)

    def check(self, cond, rule, instance, finding_factory, nontrivial=True):
        if cond:
            self.ok(rule, instance, nontrivial)
        else:
            self.fail(finding_factory(), instance)
        return cond

    def sample(self, obj, limit=24):
        if len(self.samples) < limit:
            self.samples.append(obj)

    def note(self, text):
        if text not in self.notes:
            self.notes.append(text)

    def count(self, key, n=1):
        self.analysed[key] = self.analysed.get(key, 0) + n

    def floor(self, key, minimum):
        """Instance floor: fewer analysed instances than confirmed by hand = analysis broken."""
        self._floors.append((key, minimum))

    def undecided(self, message):
        """Part of the code was not understood.  The run goes on (a violation established elsewhere must not be masked); if it
        ends without findings the verdict is 'no verdict' with this message."""
        self.__dict__.setdefault('_undecided', []).append(str(message))

    def attempt(self, rule_fn, *args, **kwargs):
        """Run one rule; a no-verdict inside it (AnalysisError) is deferred like `undecided`, so that it cannot mask a violation
        another rule of the same run establishes.  Returns the rule's result, or None when it gave no verdict."""
        try:
            return rule_fn(*args, **kwargs)
        except AnalysisError as e:
            self.undecided(str(e))
            return None

    def check_floors(self):
        """Evaluated by the runner when no violation was found: a vacuous pass is analysis-broken, but a floor must not
        mask a violation that was already established."""
        und = self.__dict__.get('_undecided', [])
        if und:
            raise AnalysisError(und[0] + (' (+{} more)'.format(len(set(und)) - 1) if len(set(und)) > 1 else ''))
        for key, minimum in self._floors:
            have = self.analysed.get(key, 0)
            if have < minimum:
                raise AnalysisError('instance floor not met for {}: analysed {} < expected {} '
                                    '(anchor vanished or rule no longer matches the code)'.format(key, have, minimum))


def load_known():
    try:
        with open(KNOWN_FINDINGS) as f:
            data = json.load(f)
    except FileNotFoundError:
        return {'known': [], 'fixed': []}
    return data


def run_property(prop, runner, repo_root, tier, level, seed=0, write_evidence=True, quiet=False):
    """Run one property check and translate its Report into the interface contract."""
    t0 = time.time()
    out = []

    def emit(s):
        out.append(s)
        if not quiet:
            try:
                print(s)
                sys.stdout.flush()
            except BrokenPipeError:
                pass

    try:
        repo = Repo(repo_root)
        report = runner(repo, tier)
        if not report.findings:
            report.check_floors()
    except AnalysisError as e:
        emit('ANALYSIS-ERROR property={} {}'.format(prop, e))
        return 2, out
    except Exception:
        tb = traceback.format_exc()
        emit('ANALYSIS-ERROR property={} internal error in checker:\n{}'.format(prop, tb))
        return 2, out

    known = load_known()
    known_keys = {}
    for k in known.get('known', []):
        if k.get('property') == prop:
            known_keys[k['key']] = k
    new, listed = [], []
    for f in report.findings:
        if f.key in known_keys:
            listed.append(f)
        else:
            new.append(f)

    wall = time.time() - t0
    n_obl = len(report.obligations)
    n_ok = sum(1 for o in report.obligations if o[2])
    emit('property={} tier={} repo={} obligations={} discharged={} findings={} (new={} known={}) wall={:.2f}s'.format(
        prop, tier, repo.root, n_obl, n_ok, len(report.findings), len(new), len(listed), wall))
    for k, v in sorted(report.analysed.items()):
        emit('  analysed {}: {}'.format(k, v))
    for n in report.notes:
        emit('  note: {}'.format(n))
    for f in listed:
        emit('KNOWN-FINDING: property={} {}'.format(prop, f))
    replay_paths = []
    for f in new:
        os.makedirs(REPLAY_DIR, exist_ok=True)
        h = hashlib.sha256(f.key.encode()).hexdigest()[:12]
        path = os.path.join(REPLAY_DIR, '{}-{}.json'.format(prop, h))
        rec = f.to_json()
        rec['property'] = prop
        rec['repo'] = repo.root
        try:
            with open(path, 'w') as fh:
                json.dump(rec, fh, indent=1, default=str)
        except OSError:
            pass
        replay_paths.append(path)
        emit('  finding: {}'.format(f))
        emit('VIOLATION property={} replay={}'.format(prop, path))

    liveness = None
    if tier == 'thorough' and not new and os.environ.get('BBVERIF_NO_LIVENESS') != '1':
        from . import liveness as _lv
        try:
            liveness = _lv.run(prop, repo.root)
        except Exception as e:  # the twins are a cross-check of the checker, never a verdict on the tree
            liveness = {'error': repr(e)}
        if 'error' not in liveness:
            emit('  rule liveness on this tree: {} of {} known twins applicable; {}'.format(
                liveness['variants_applicable'], liveness['variants_known'],
                ', '.join('{} {}/{} as expected'.format(k, v['as_expected'], v['run']) for k, v in sorted(liveness['by_kind'].items()))))
            for m in liveness['missed']:
                emit('  SELFTEST-MISS: property={} breaking twin {} was not reported (exit {})'.format(prop, m['variant'], m['exit']))
            for m in liveness['alarmed']:
                emit('  SELFTEST-ALARM: property={} preserving twin {} gave exit {}'.format(prop, m['variant'], m['exit']))
        wall = time.time() - t0

    if write_evidence:
        cov = {
            'evaluations': max(n_obl, 1),
            'distinct_nontrivial': len(report._nontrivial),
            'rule': 'one evaluation per (rule, instance) obligation derived from the syntax tree of the current '
                    'working tree; an instance is non-trivial when the rule had to relate at least two program '
                    'facts (not a mere presence test); distinct by (rule, instance) name',
            'samples': report.samples[:24] or [{'rule': o[0], 'instance': o[1], 'ok': o[2]} for o in report.obligations[:8]],
            'obligations': n_obl,
            'discharged': n_ok,
            'checker_cmd': '/venv/bin/python /verif/bbverif/check.py {} --tier {}'.format(prop, tier),
            'trusted_base': report.trusted_base or ['CPython ast module', 'bbverif abstract domains and oracle tables'],
            'explanation': report.explanation,
            'exhaustive': True,
            'analysed': report.analysed,
            'rules': sorted({o[0] for o in report.obligations}),
            'not_decided': report.not_decided,
            'notes': report.notes,
            'findings': [f.to_json() for f in report.findings],
            'known_findings_matched': [f.key for f in listed],
            'source_digests': repo.digests(),
        }
        if liveness is not None:
            cov['rule_liveness'] = liveness
        ev = {
            'property_id': prop,
            'tier': tier,
            'seed': seed,
            'level': level,
            'coverage': cov,
            'assumptions': report.assumptions,
            'wall_s': round(wall, 3),
            'violations': len(new),
        }
        os.makedirs(EVIDENCE_DIR, exist_ok=True)
        with open(os.path.join(EVIDENCE_DIR, '{}.json'.format(prop)), 'w') as fh:
            json.dump(ev, fh, indent=1, default=str)

    return (1 if new else 0), out
