"""C10 - data directives emit exactly the documented bytes; misfitting values are refused.

The rules are stated over path summaries of whole functions (`hwalk.function_paths`: helpers, closures and function-valued
parameters are followed) and over *evaluation* of the symbolic format / size expressions (`symeval`): for every documented keyword
and every integer sample around the comparison constants of the code, the format that reaches struct.pack is computed and compared
with the documentation, the size() method and the reference table.  No rule looks at names of locals, helper functions or tables;
the anchors are the item classes (Sequence, ShorthandPack, Pack, String, IncludeBytes, Blob) and the entry point `assemble`."""
import ast

from ..core import Report, Finding, AnalysisError
from ..facts import Facts
from ..astutil import unparse, dotted, walk_no_nested
from ..callgraph import CallGraph
from ..prov import Prov, coarse
from ..pathwalk import show, is_const, C
from ..hwalk import function_paths, all_values, normalise, identity_decorator
from ..symeval import SymEval, Undecided, LookupFailed, Lin, STRUCT_STANDARD, breakpoints
from .. import oracle, docs, codecchain as CC
from ..immsites import find_all, contains, ctor_fields

LEVEL = 'other'
NARROWING = {'&', '%', '>>', '<<', '|', '^', '//', '*', '+', '-', '**'}
WRAPPERS = ('c_uint32', 'c_int32', 'c_uint8', 'c_int8', 'c_uint16', 'c_int16', 'c_uint64', 'c_int64', 'abs', 'min', 'max', 'divmod', 'pow')
ATOMIC = ('havoc', 'attr', 'name', 'var', 'unpack', 'sub', 'item', 'lv')
INT_LETTERS = 'bBhHiIlLqQ'
SELF = ('name', 'self')


# -- program structure -------------------------------------------------------------------------------------------------------
class Model:
    def __init__(self, facts):
        self.facts = facts
        self._paths = {}

    def users(self, cls):
        """Module-level functions that handle items of class `cls`: they mention the class other than by constructing it
        (isinstance tests, the class passed to a generic skeleton)."""
        out = []
        for name, fn in self.facts.funcs.items():
            ctor = {id(n.func) for n in ast.walk(fn) if isinstance(n, ast.Call) and isinstance(n.func, ast.Name)}
            if any(isinstance(n, ast.Name) and n.id == cls and isinstance(n.ctx, ast.Load) and id(n) not in ctor for n in ast.walk(fn)):
                out.append(name)
        return out

    def untouched_defaults(self, fn):
        """Parameters with a default that no call in the module ever passes (for a module-level function that is only called
        directly): they are analysed with their default value."""
        if self.facts.funcs.get(fn.name) is not fn:
            return ()
        a = fn.args
        pos = [x.arg for x in getattr(a, 'posonlyargs', []) + a.args]
        with_default = set(pos[len(pos) - len(a.defaults):]) | {x.arg for x, d in zip(a.kwonlyargs, a.kw_defaults) if d is not None}
        if not with_default:
            return ()
        passed = set()
        for n in ast.walk(self.facts.tree):
            if isinstance(n, ast.Call) and isinstance(n.func, ast.Name) and n.func.id == fn.name:
                if any(isinstance(x, ast.Starred) for x in n.args) or any(k.arg is None for k in n.keywords):
                    return ()
                passed |= set(pos[:len(n.args)]) | {k.arg for k in n.keywords}
            elif isinstance(n, ast.Name) and n.id == fn.name and isinstance(n.ctx, ast.Load) and not (isinstance(getattr(n, '_parent', None), ast.Call) and n._parent.func is n):
                return ()        # used as a value: it may be called with anything
        return tuple(sorted(with_default - passed))

    def paths(self, fn, self_class=None):
        if id(fn) not in self._paths:
            self._paths[id(fn)] = function_paths(self.facts, fn, self_class=self_class, defaults=self.untouched_defaults(fn))[1]
        return self._paths[id(fn)]

    def method(self, cls, name):
        owner, m = self.facts.method(cls, name)
        if m is None:
            raise AnalysisError('anchor vanished: {}.{}'.format(cls, name))
        self.paths(m, self_class=cls)       # walked with `self` known to be a cls (so that self.helper() is followed)
        return m

    def returns(self, fn):
        """[(path, returned symbolic value, node)] of the non-raising paths of a function."""
        out = []
        for p in self.paths(fn):
            if p.end == 'return':
                ev = [e for e in p.events if e[0] == 'return'][-1]
                out.append((p, ev[1], ev[2]))
            elif p.end == 'fallthrough':
                out.append((p, C(None), fn))
        return out

    def items_of(self, path, cls):
        return [v for v, f in path.facts.items() if cls in f['isa']]

    def sites(self, cls, pred):
        """[(function name, path, item symbol, site value, ast node)] for values satisfying `pred` on the non-raising paths (of the
        functions handling `cls`) on which an item is known to be a `cls`."""
        out = []
        for fname in self.users(cls):
            for p in self.paths(self.facts.funcs[fname]):
                if p.end == 'raise':
                    continue
                items = self.items_of(p, cls)
                if not items:
                    continue
                seen = []
                for part, node in all_values(p):
                    for s in find_all(part, pred):
                        if s in seen:
                            continue
                        seen.append(s)
                        xs = [x for x in items if contains(s, x)]
                        if xs:
                            out.append((fname, p, xs[0], s, node))
        return out


def strip_res(v):
    while isinstance(v, tuple) and v and v[0] == 'res':
        v = v[3]
    return v


def is_pack_call(t):
    """struct.pack(fmt, v), struct.Struct(fmt).pack(v) or <a Struct object taken from a table>.pack(v)"""
    if t[0] == 'call' and t[1] == 'struct.pack':
        return True
    if t[0] == 'mcall' and t[2] == 'pack':
        r = strip_res(t[1])
        if r[0] == 'call' and r[1] == 'struct.Struct':
            return True
        # a method of a repo class named pack is not a struct packing; a subscripted / attribute value may be a Struct object
        return r[0] in ('sub', 'unpack', 'ifexp') or (r[0] == 'attr' and r[1][0] == 'name')
    return False


def is_to_bytes(t):
    """v.to_bytes(width, byteorder, signed=...): the other way of producing the little-endian two's complement bytes of an integer"""
    return t[0] == 'mcall' and t[2] == 'to_bytes'


def pack_args(t):
    """(positional arguments incl. the format, keyword arguments) of a packing call"""
    if is_to_bytes(t):
        kw = dict(t[4])
        a = list(t[3])
        width = a[0] if a else kw.get('length')
        order = a[1] if len(a) > 1 else kw.get('byteorder')
        signed = kw.get('signed', C(False))
        if width is None or order is None or set(kw) - {'length', 'byteorder', 'signed'} or len(a) > 2:
            return (), t[4]
        return (('tobytes', width, order, signed), t[1]), ()
    if t[0] == 'call':
        return tuple(t[2]), t[3]
    r = strip_res(t[1])
    if r[0] == 'call' and r[1] == 'struct.Struct':
        return tuple(r[2]) + tuple(t[3]), tuple(r[3]) + tuple(t[4])
    return (('attr', r, 'format'),) + tuple(t[3]), tuple(t[4])


def feasible(ev, path, syms, what):
    """The path's conditions that mention one of `syms` hold under the evaluator's bindings (None = some other condition)."""
    for test, pol, node in path.conds:
        if not any(contains(test, s) for s in syms):
            continue
        try:
            val = bool(ev.ev(test))
        except Undecided as e:
            raise AnalysisError('{}: the condition `{}` on the value / keyword cannot be evaluated ({})'.format(what, show(test)[:100], e))
        if val != pol:
            return False
    return True


# -- R10.1 / R10.2 integer directives ------------------------------------------------------------------------------------------
def key_attribute(model, cls):
    """The attribute by which `cls.size()` selects the width (the directive keyword), and the attribute whose length multiplies it."""
    m = model.method(cls, 'size')
    keys, lens = set(), set()
    self_attr = lambda t: t[0] == 'attr' and t[1] == SELF
    for p, v, node in model.returns(m):
        for t in find_all(v, lambda t: t[0] == 'sub'):
            keys.update(a[2] for a in find_all(t[2], self_attr))
        for t in find_all(v, lambda t: t[0] == 'mcall' and t[2] == 'get' and t[3]):
            keys.update(a[2] for a in find_all(t[3][0], self_attr))
        for t in find_all(v, lambda t: t[0] == 'call' and t[1] == 'len' and len(t[2]) == 1 and self_attr(t[2][0])):
            lens.add(t[2][0][2])
        for test, pol, _ in p.conds:
            for t in find_all(test, lambda t: t[0] == 'cmp' and is_const(t[3])):
                keys.update(a[2] for a in find_all(t[2], self_attr))
    keys -= lens
    if len(keys) != 1 or len(lens) > 1:
        raise AnalysisError('{}.size(): cannot tell which attribute selects the width (candidates {})'.format(cls, sorted(keys)))
    return next(iter(keys)), (next(iter(lens)) if lens else None)


def size_of(model, cls, key_attr, len_attr, kw):
    """Width in bytes that cls.size() accounts for one value of keyword kw (Lin in the number of values for sequences)."""
    m = model.method(cls, 'size')
    results = set()
    for p, v, node in model.returns(m):
        bind = {('attr', SELF, key_attr): kw}
        if len_attr is not None:
            bind[('call', 'len', (('attr', SELF, len_attr),), ())] = Lin(1, 0)
        ev = SymEval(model.facts, bind, {SELF: cls})
        try:
            if not feasible(ev, p, [('attr', SELF, key_attr)], cls + '.size()'):
                continue
            results.add(ev.ev(v))
        except LookupFailed:
            results.add(None)
        except Undecided as e:
            raise AnalysisError('{}.size() for {!r}: {}'.format(cls, kw, e))
    if len(results) != 1:
        raise AnalysisError('{}.size() for {!r}: paths disagree ({})'.format(cls, kw, results))
    r = next(iter(results))
    if isinstance(r, Lin):
        return r.a if r.b == 0 else ('not proportional', r)
    return r


STR_METHODS_UNDERSTOOD = {'lower', 'upper', 'swapcase', 'strip', 'lstrip', 'rstrip', 'replace', 'format', 'title', 'capitalize', 'casefold', 'zfill'}


def understood_expression(v, x):
    """The value is built from attributes of item x and constants by arithmetic, slicing, conditional expressions and plain str
    methods only: everything the evaluator models.  A conversion / helper / builtin call is not (its effect on the value is not
    known to the rule, e.g. str(fmt) is the identity for a str)."""
    if not isinstance(v, tuple) or not v:
        return True
    if not isinstance(v[0], str):
        return all(understood_expression(y, x) for y in v)
    k = v[0]
    if k in ('const',):
        return True
    if k == 'attr':
        return v[1] == x
    if k in ('bin', 'cmp'):
        return understood_expression(v[2], x) and understood_expression(v[3], x)
    if k == 'un':
        return understood_expression(v[2], x)
    if k == 'ifexp':
        return all(understood_expression(y, x) for y in v[1:4])
    if k == 'mcall':
        return v[2] in STR_METHODS_UNDERSTOOD and understood_expression(v[1], x) and understood_expression(v[3], x) and not v[4]
    if k in ('sub', 'slice'):
        return all(understood_expression(y, x) for y in v[1:] if isinstance(y, tuple))
    return False


def enclosing_handlers_fall_through(node, exc_names=('struct.error', 'Exception', 'BaseException', 'OverflowError', 'ValueError')):
    """The statement sits in the body of a `try` whose handler for a packing error does not leave (raise / return / continue): what
    that handler does afterwards (e.g. packing again with another format) belongs to the same conversion."""
    child, p = node, getattr(node, '_parent', None)
    while p is not None and not isinstance(p, (ast.FunctionDef, ast.Lambda)):
        if isinstance(p, ast.Try) and any(child is b for b in p.body):
            for h in p.handlers:
                names = [dotted(e) for e in h.type.elts] if isinstance(h.type, ast.Tuple) else [dotted(h.type)] if h.type is not None else [None]
                if any(n is None or n in exc_names for n in names):
                    last = h.body[-1] if h.body else None
                    leaves = isinstance(last, (ast.Return, ast.Continue, ast.Break)) or (isinstance(last, ast.Raise) and last.exc is not None)
                    if not leaves:
                        return True
        child, p = p, getattr(p, '_parent', None)
    return False


FORMAT_SAMPLES = ['<I', '<i', '>H', '<B', '=q', 'b', '<Q', '!h']
VALUE_SAMPLES = [0, 1, -1, 127, 128, 255, 256, -128, -129, 65535, 2 ** 31, 2 ** 32 - 1, 2 ** 32, -2 ** 63, 2 ** 64 - 1, 2 ** 64 + 5]


def identity_on_samples(facts, expr, leaf, samples, classes=None):
    """Bounded check (over the listed samples, not a proof): does the expression return its input unchanged?
    True | (False, sample, result) | None when it cannot be evaluated."""
    for sample in samples:
        try:
            got = SymEval(facts, {leaf: sample}, classes).ev(expr)
        except Undecided:
            return None
        if got != sample or type(got) is not type(sample):
            return (False, sample, got)
    return True


def arith_operands(val):
    """The values an arithmetic expression is computed from: maximal sub-terms that are plain values (a variable, an attribute, an
    element of a list ...), constants aside."""
    v = strip_res(val)
    if v[0] in ATOMIC:
        return [v]
    if v[0] == 'const':
        return []
    out = []
    for x in v[1:]:
        if isinstance(x, tuple) and x and isinstance(x[0], str):
            out += arith_operands(x)
        elif isinstance(x, tuple):
            for y in x:
                if isinstance(y, tuple) and y and isinstance(y[0], str):
                    out += arith_operands(y)
    return out


def own_arithmetic(val):
    """Arithmetic / wrapping applied to the value itself (not to an index or a receiver inside it)."""
    v = strip_res(val)
    if v[0] == 'bin' and v[1] in NARROWING:
        return True
    if v[0] == 'call' and v[1] in WRAPPERS:
        return True
    if v[0] == 'mcall' and v[2] == 'value' or (v[0] == 'attr' and v[2] == 'value' and v[1][0] == 'call' and v[1][1] in WRAPPERS):
        return True
    if v[0] == 'ifexp':
        return own_arithmetic(v[2]) or own_arithmetic(v[3])
    return False


def check_integer_directives(rep, model, doc_text):
    facts = model.facts
    # pack: which attributes of a Pack item reach struct.pack as format and as value
    pack_sites = model.sites('Pack', is_pack_call)
    fmt_attr = val_attr = None
    for fname, p, x, s, node in pack_sites:
        a = [strip_res(y) for y in pack_args(s)[0]]
        ok = len(a) == 2 and not pack_args(s)[1] and all(y[0] == 'attr' and y[1] == x for y in a) and a[0][2] != a[1][2]
        if not ok and not (len(a) == 2 and not pack_args(s)[1] and understood_expression(tuple(a), x)):
            raise AnalysisError('{}: what is packed for a Pack item is not understood: {}'.format(fname, show(s)[:120]))
        if isinstance(node, ast.AST) and enclosing_handlers_fall_through(node):
            raise AnalysisError('{}: a packing error of {} is handled by carrying on: the conversion is not understood'.format(fname, show(s)[:80]))
        witness = None
        if not ok:
            # each argument is an understood expression over one attribute of the item: the given format / value must come out unchanged
            # (evaluated on FORMAT_SAMPLES / VALUE_SAMPLES: a bounded check, a difference is a witness)
            attrs = []
            for y, samples in zip(a, (FORMAT_SAMPLES, VALUE_SAMPLES)):
                leaves = [t for t in find_all(y, lambda t: t[0] == 'attr' and t[1] == x)]
                if len(set(leaves)) != 1:
                    raise AnalysisError('{}: what is packed for a Pack item is not understood: {}'.format(fname, show(s)[:120]))
                verdict = identity_on_samples(facts, y, leaves[0], samples)
                if verdict is None:
                    raise AnalysisError('{}: what is packed for a Pack item cannot be evaluated: {}'.format(fname, show(y)[:100]))
                if verdict is not True:
                    witness = (show(y), verdict[1], verdict[2])
                attrs.append(leaves[0])
            if witness is None:
                a, ok = attrs, attrs[0][2] != attrs[1][2]
        rep.check(ok, 'R10.3.pack', '{}: pack emits struct.pack(<the item\'s format>, <the item\'s value>)'.format(fname),
                  lambda s=s, node=node, fname=fname, witness=witness: Finding('R10.3.pack', fname, node, 'pack emits struct.pack({}) instead of the given format applied to the given value{}'.format(
                      ', '.join(show(y) for y in pack_args(s)[0]), ': {} turns {!r} into {!r}'.format(*witness) if witness else ''), line=getattr(node, 'lineno', None)))
        if ok:
            if fmt_attr not in (None, a[0][2]) or val_attr not in (None, a[1][2]):
                raise AnalysisError('Pack: struct.pack sites disagree about the format / value attributes')
            fmt_attr, val_attr = a[0][2], a[1][2]
    rep.analysed['pack sites'] = len(pack_sites)
    if fmt_attr is None:
        if rep.findings:
            return
        raise AnalysisError('no struct.pack site handling Pack items was understood')
    msize = model.method('Pack', 'size')
    rets = model.returns(msize)
    the_fmt = ('attr', SELF, fmt_attr)
    good = (('call', 'struct.calcsize', (the_fmt,), ()), ('attr', ('call', 'struct.Struct', (the_fmt,), ()), 'size'))
    ok = bool(rets) and all(strip_res(v) in good for _, v, _ in rets)
    if not ok:
        # wrong only when it is the struct size of something else that is understood (another attribute, a changed format)
        for _, v, _ in rets:
            v = strip_res(v)
            other = v[2][0] if v[0] == 'call' and v[1] == 'struct.calcsize' and len(v[2]) == 1 else \
                v[1][2][0] if v[0] == 'attr' and v[2] == 'size' and v[1][0] == 'call' and v[1][1] == 'struct.Struct' and len(v[1][2]) == 1 else None
            if v not in good and not (other is not None and understood_expression(other, SELF)) and not is_const(v):
                raise AnalysisError('Pack.size() returns {}: not understood'.format(show(v)[:80]))
    rep.check(ok, 'R10.3.pack', 'Pack.size() == struct.calcsize of the format that is packed',
              lambda: Finding('R10.3.pack', 'Pack.size', msize, 'Pack.size() is not the size of the format that is packed', line=msize.lineno))
    order = dict((attr, src) for attr, src in facts.full_attr_order('Pack'))
    fmt_param, val_param = order.get(fmt_attr), order.get(val_attr)
    if fmt_param is None or val_param is None:
        raise AnalysisError('Pack.__init__ does not store its format / value parameters in {} / {}'.format(fmt_attr, val_attr))

    cover = set()
    for cls, doc_heading, want in (('Sequence', 'integer sequences', oracle.SEQUENCE_WIDTHS), ('ShorthandPack', 'shorthand', oracle.SHORTHAND_WIDTHS)):
        key_attr, len_attr = key_attribute(model, cls)
        if cls == 'Sequence':
            raw = model.sites(cls, lambda t: is_pack_call(t) or is_to_bytes(t))
            for f, p, x, s, node in raw:
                if len(pack_args(s)[0]) != 2 or pack_args(s)[1]:
                    raise AnalysisError('{}: packing call {} is not (format, one value)'.format(f, show(s)[:100]))
            sites = [(f, p, x, strip_res(pack_args(s)[0][0]), strip_res(pack_args(s)[0][1]), node) for f, p, x, s, node in raw]
        else:
            raw = model.sites(cls, lambda t: t[0] == 'new' and t[1] == 'Pack')
            sites = []
            for f, p, x, s, node in raw:
                fields = ctor_fields(facts, s)
                if fmt_param not in fields or val_param not in fields:
                    raise AnalysisError('{}: Pack(...) built without a format / value'.format(f))
                sites.append((f, p, x, strip_res(fields[fmt_param]), strip_res(fields[val_param]), node))
        if not sites:
            raise AnalysisError('no site was found where a {} item is packed'.format(cls))
        documented = docs.keyword_table(doc_text, 'Keyword', doc_heading)
        sizes = {kw: size_of(model, cls, key_attr, len_attr, kw) for kw in sorted(set(want) | set(documented))}
        # the value that is packed is the user's value, untouched
        live_sites = []
        for f, p, x, fmt, val, node in sites:
            narrowing = own_arithmetic(val)
            inst = '{} [{}]'.format(f, p.cond_text()[-60:])
            if isinstance(node, ast.AST) and enclosing_handlers_fall_through(node):
                raise AnalysisError('{}: a packing error is handled by carrying on (another attempt may follow): the choice of the format is not understood'.format(f))
            if narrowing:
                leaves = set(arith_operands(val))
                # one operand and constants: the arithmetic may be the identity (value + 0), which the samples decide; arithmetic that
                # mixes the value with other program values (value + (1 << bits) ...) is a modification of the user's value
                verdict = identity_on_samples(facts, val, next(iter(leaves)), VALUE_SAMPLES) if len(leaves) == 1 else (False, None, None) if len(leaves) > 1 else None
                if verdict is True:
                    narrowing = False            # arithmetic that gives the value back (value + 0, value * 1 ...)
                    val = next(iter(leaves))
                elif verdict is None:
                    raise AnalysisError('{}: the packed value {} cannot be evaluated'.format(f, show(val)[:100]))
            if narrowing:
                rep.fail(Finding('R10.2.no-narrowing', f, node, 'the value handed to struct.pack is {} - arithmetic between the user\'s value and the packing silently '
                                 'wraps values that do not fit'.format(show(val)[:120]), line=getattr(node, 'lineno', None)), instance=inst)
                continue
            if val[0] not in ATOMIC:
                raise AnalysisError('{}: the packed value {} is not understood'.format(f, show(val)[:100]))
            if cls == 'ShorthandPack' and not (val[0] == 'attr' and val[1] == x):
                raise AnalysisError('{}: the packed value {} is not an attribute of the item'.format(f, show(val)[:100]))
            rep.ok('R10.2.no-narrowing', inst + ': the user\'s value reaches struct.pack unchanged')
            live_sites.append((f, p, x, fmt, val, node))
        keywords = set(want) | set(documented)
        for f, p, x, fmt, val, node in live_sites:
            keysym = ('attr', x, key_attr)
            for kw in sorted(keywords):
                w = want.get(kw)
                base = SymEval(facts, {keysym: kw}, {x: cls})
                try:
                    bps = breakpoints([fmt] + [t for t, _, _ in p.conds], val, base)
                    if fmt[0] == 'tobytes':
                        bps = set(bps) | {0}
                except Undecided as e:
                    raise AnalysisError('{}: {}'.format(f, e))
                samples = sorted({-1, 0, 1} | {c + d for c in bps for d in (-1, 0, 1)})
                for v in samples:
                    ev = SymEval(facts, {keysym: kw, val: v}, {x: cls})
                    if not feasible(ev, p, [val, keysym], f):
                        continue
                    neg = v < 0
                    inst = '{} {} [{}]'.format(f, kw, 'negative' if neg else 'non-negative')
                    try:
                        if fmt[0] == 'tobytes':
                            width, order, signed = ev.ev(fmt[1]), ev.ev(fmt[2]), ev.ev(fmt[3])
                            if not (isinstance(width, int) and order in ('little', 'big') and isinstance(signed, bool)):
                                raise Undecided('to_bytes({!r}, {!r}, signed={!r})'.format(width, order, signed))
                            letter = {1: 'B', 2: 'H', 4: 'I', 8: 'Q'}.get(width)
                            if letter is None:
                                raise Undecided('to_bytes width {}'.format(width))
                            got = ('<' if order == 'little' else '>') + (letter.lower() if signed else letter)
                        else:
                            got = ev.ev(fmt)
                    except LookupFailed as e:
                        rep.fail(Finding('R10.1.width', f, node, '`{}` is documented but has no struct format ({})'.format(kw, e), line=getattr(node, 'lineno', None)), instance=inst)
                        continue
                    except Undecided as e:
                        raise AnalysisError('{}: the struct format for `{}` cannot be evaluated: {}'.format(f, kw, e))
                    cover.add((cls, kw, neg))
                    loc = dict(line=getattr(node, 'lineno', None))
                    if not (isinstance(got, str) and len(got) == 2 and got[1] in INT_LETTERS):
                        rep.fail(Finding('R10.1.width', f, node, '`{}` (value {}) is packed with format {!r}: not a byte order followed by one integer code'.format(kw, v, got), **loc), instance=inst)
                        continue
                    rep.check(got[0] == '<', 'R10.1.byte-order', inst + ': little endian',
                              lambda got=got, kw=kw: Finding('R10.1.byte-order', f, node, '`{}` is packed with format {!r}: not little endian'.format(kw, got), **loc))
                    st = STRUCT_STANDARD[got[1]]
                    rep.check(w is not None and st == w == sizes.get(kw) == documented.get(kw), 'R10.1.width',
                              '{} {}: {} bytes in docs, size(), struct format {!r} and the reference table'.format(f, kw, w, got),
                              lambda kw=kw, w=w, got=got, st=st: Finding('R10.1.width', f, node, '`{}`: documented {} bytes, size() says {}, struct format {!r} packs {} bytes, reference {}'.format(
                                  kw, documented.get(kw), sizes.get(kw), got, st, w), **loc))
                    rep.check(got[1].islower() == neg, 'R10.2.sign', inst + ': format ' + got,
                              lambda kw=kw, got=got, neg=neg, v=v: Finding('R10.2.sign', f, node, '`{}` packs the {} value {} with format {!r}: the {} code of that width is required'.format(
                                  kw, 'negative' if neg else 'non-negative', v, got, 'signed' if neg else 'unsigned'), **loc))
        rep.count('width table rows', len(want))
        if not rep.findings:
            for kw in sorted(want):
                for neg in (True, False):
                    if (cls, kw, neg) not in cover:
                        raise AnalysisError('{} `{}`: no path packs a {} value'.format(cls, kw, 'negative' if neg else 'non-negative'))
    rep.analysed['sign/format cases'] = len(cover)


# -- R10.4 strings -----------------------------------------------------------------------------------------------------------------
def check_strings(rep, model):
    facts = model.facts
    CC.RESOLVE[0] = SymEval(facts, {}, {SELF: 'String'}).ev          # codec names held in module-level / class-level constants
    # what String.size() measures
    msize = model.method('String', 'size')
    size_ops, text_attr = None, None
    for p, v, node in model.returns(msize):
        v = strip_res(v)
        if not (v[0] == 'call' and v[1] == 'len' and len(v[2]) == 1):
            raise AnalysisError('String.size() does not return the length of a value: {}'.format(show(v)[:80]))
        base, ops = CC.split_chain(v[2][0])
        if not (base[0] == 'attr' and base[1] == SELF):
            raise AnalysisError('String.size() measures {} (not an attribute of the item)'.format(show(base)[:80]))
        if size_ops is not None and (ops, base[2]) != (size_ops, text_attr):
            raise AnalysisError('String.size(): paths disagree')
        size_ops, text_attr = ops, base[2]
    if size_ops is None:
        raise AnalysisError('String.size() has no returning path')
    utf8 = lambda s: s.encode('utf-8')
    # emission
    n_emit = 0
    for fname, p, x, s, node in model.sites('String', lambda t: t[0] == 'new' and t[1] == 'Blob'):
        fields = ctor_fields(facts, s)
        data = [v for k, v in fields.items() if contains(v, x) and k != 'line']
        data = [v for v in data if contains(v, ('attr', x, text_attr))]
        if not data:
            continue
        n_emit += 1
        CC.RESOLVE[0] = SymEval(facts, {}, {SELF: 'String', x: 'String'}).ev
        base, ops = CC.split_chain(strip_res(data[0]))
        if base != ('attr', x, text_attr):
            raise AnalysisError('{}: string data {} is not a codec chain over the item\'s text'.format(fname, show(data[0])[:100]))
        if CC.well_typed(ops, 'str') != 'bytes':
            raise AnalysisError('{}: {} does not turn text into bytes'.format(fname, CC.describe(ops)))
        bad = CC.check_chain(ops, CC.DENOTED_CLASSES, utf8)
        rep.check(not bad, 'R10.4.utf8', '{}: string emits the UTF-8 encoding of its text for every character class'.format(fname),
                  lambda bad=bad, ops=ops, node=node, fname=fname: Finding('R10.4.utf8', fname, node, 'string data is emitted as value{}: for {} it is not the UTF-8 encoding of the text ({!r} -> {}, expected {!r})'.format(
                      CC.describe(ops), bad[0][0], bad[0][1], bad[0][3], bad[0][2]), line=getattr(node, 'lineno', None)))
        if CC.well_typed(size_ops, 'str') is None:
            raise AnalysisError('String.size(): {} is not applicable to text'.format(CC.describe(size_ops)))
        mism = size_mismatch(size_ops, ops) if not bad else None
        rep.check(not mism, 'R10.4.utf8', 'String.size() measures the bytes that {} emits'.format(fname),
                  lambda mism=mism, ops=ops: Finding('R10.4.utf8', 'String.size', msize, 'String.size() measures value{} but value{} is emitted: the sizes differ for {}'.format(
                      CC.describe(size_ops), CC.describe(ops), mism), line=msize.lineno))
    rep.analysed['string emission sites'] = n_emit
    mism = size_mismatch(size_ops, [CC.make_op('encode', 'utf-8', 'strict')])
    rep.check(not mism, 'R10.4.utf8', 'String.size() measures the UTF-8 encoding',
              lambda: Finding('R10.4.utf8', 'String.size', msize, 'String.size() measures value{}: not the length of the UTF-8 encoding for {}'.format(CC.describe(size_ops), mism), line=msize.lineno))

    # escape processing in the lexer: the text of a `string` token
    fn = facts.funcs.get('lex_tokens')
    if fn is None:
        raise AnalysisError('anchor vanished: lex_tokens')
    sites = 0
    for p, v, node in model.returns(fn):
        for t in find_all(v, lambda t: t[0] in ('list', 'tuple') and len(t[1]) == 2 and t[1][0] == C('string')):
            sites += 1
            base, ops = CC.split_chain(strip_res(t[1][1]))
            hidden = find_all(base, lambda u: (u[0] == 'mcall' and u[2] in ('encode', 'decode')) or (u[0] == 'call' and u[1] in ('bytes', 'codecs.encode', 'codecs.decode')))
            if hidden or not ops:
                raise AnalysisError('lex_tokens: the text of a string token is {}: not a codec chain applied to the selected source text'.format(show(t[1][1])[:120]))
            if CC.well_typed(ops, 'str') != 'str':
                raise AnalysisError('lex_tokens: {} does not turn text into text'.format(CC.describe(ops)))
            check_selected_text(rep, facts, p, base, node)
            bad = CC.check_chain(ops, CC.CLASSES, lambda s: s[1])
            rep.check(not bad, 'R10.4.escape-codec', 'string text: escape processing text{} denotes the right character for every class of source text'.format(CC.describe(ops)),
                      lambda bad=bad, ops=ops, node=node: Finding(
                          'R10.4.escape-codec', 'lex_tokens', node,
                          'escape processing re-reads the text through `{}`: for {} the source spelling {!r} becomes {} instead of {!r} '
                          '(a decoder for byte escapes reads its input as Latin-1 / raw bytes; the round trip is the identity only when every non-escape character is '
                          'first mapped to the single byte / escape equal to its code point){}'.format(
                              CC.describe(ops), bad[0][0], bad[0][1], bad[0][3], bad[0][2],
                              '; also wrong for: ' + ', '.join(b[0] for b in bad[1:4]) if len(bad) > 1 else ''), line=getattr(node, 'lineno', None)))
    rep.analysed['string escape sites'] = sites


# (line as read, the text of its string directive): optional leading blanks, the keyword, ONE blank, then everything up to the end
# of the line - blanks, tabs, quotes, '#' included
STRING_LINES = [('string abc', 'abc'), ('string  abc  ', ' abc  '), ('  string a\tb\t ', 'a\tb\t '), ('string a # b', 'a # b'), ('\tstring x ', 'x '),
                ('string "q" ', '"q" '), ('string a,b (c)', 'a,b (c)'), ('string ', '')]


def free_leaves(facts, v, out=None):
    """The symbols a value depends on that are not constants of the module: parameters, their attributes, loop items."""
    out = [] if out is None else out
    if not isinstance(v, tuple) or not v:
        return out
    if not isinstance(v[0], str):
        for x in v:
            free_leaves(facts, x, out)
        return out
    if v[0] == 'const':
        return out
    if v[0] in ('havoc', 'item', 'var', 'lv') or (v[0] == 'attr' and v[1][0] in ('name', 'havoc', 'item') and not (v[1][0] == 'name' and v[1][1] in facts.classes)):
        if v[0] == 'attr' and v[1][0] == 'name' and (v[1][1] in facts.assign_nodes or v[1][1] in ('re', 'os', 'codecs', 'struct')):
            return out
        if v not in out:
            out.append(v)
        return out
    if v[0] == 'name':
        if v[1] not in facts.assign_nodes and v[1] not in facts.funcs and v[1] not in facts.classes and v[1] not in ('re', 'os', 'codecs', 'struct', 'str', 'int', 'bytes', 'None', 'True', 'False'):
            if v not in out:
                out.append(v)
        return out
    for x in v[1:]:
        if isinstance(x, tuple):
            free_leaves(facts, x, out)
    return out


def check_selected_text(rep, facts, path, base, node):
    """R10.4.text: the text of a string directive is everything after `string ` on the line as read.  The expression that selects
    it (regular expression, slicing, splitting ...) is evaluated on sample lines with the library's own str / re semantics."""
    b = normalise(facts, base)
    leaves = free_leaves(facts, b)
    if len(leaves) != 1:
        raise AnalysisError('lex_tokens: the text of a string token is selected from {} ({} inputs): not understood'.format(show(b)[:100], len(leaves)))
    leaf = leaves[0]
    conds = [(normalise(facts, t), pol, n) for t, pol, n in path.conds]
    n_ok = 0
    for line, want in STRING_LINES:
        ev = SymEval(facts, {leaf: line})
        try:
            feasible_here = True
            for t, pol, _ in conds:
                if contains(t, leaf) and bool(ev.ev(t)) != pol:
                    feasible_here = False
                    break
            if not feasible_here:
                continue
            got = ev.ev(b)
        except Undecided as e:
            raise AnalysisError('lex_tokens: selecting the text of a string token from the line {!r} cannot be evaluated: {}'.format(line, e))
        n_ok += 1
        if got != want:
            rep.fail(Finding('R10.4.text', 'lex_tokens', node, 'for the line {!r} the text of the string directive is taken to be {!r} instead of {!r}: the text is everything '
                             'after `string ` on the line as read (blanks and tabs at the end are data)'.format(line, got, want), line=getattr(node, 'lineno', None)),
                     instance='text of {!r}'.format(line))
            return
    if not n_ok:
        raise AnalysisError('lex_tokens: no sample line reaches the string token on the path [{}]'.format(path.cond_text()[-80:]))
    rep.ok('R10.4.text', 'string text = everything after `string ` as read [{}] ({} sample lines)'.format(path.cond_text()[-40:], n_ok))


def size_mismatch(size_ops, emit_ops):
    """Name of a character class on which len(size chain) differs from len(emission chain) (or only one of them raises), or None."""
    for name, samples in CC.DENOTED_CLASSES:
        for t in samples:
            a, b = CC.run(size_ops, t), CC.run(emit_ops, t)
            if a[0] != b[0] or (a[0] == 'ok' and len(a[1]) != len(b[1])):
                return name
    return None


# -- R10.5 include_bytes -------------------------------------------------------------------------------------------------------------
def check_same_file(rep, facts):
    """The file whose size is measured for the layout and the file remembered for the content are one and the same path value:
    in the function that calls os.path.getsize, a path stored on the line object is the very value that was measured."""
    from ..pathwalk import loop_paths, main_loop
    n = 0
    for fname, fn in facts.funcs.items():
        if not any(isinstance(x, ast.Call) and dotted(x.func) == 'os.path.getsize' for x in ast.walk(fn)):
            continue
        if main_loop(fn) is None:
            continue
        _, loop, paths = loop_paths(facts, fn)
        for p in paths:
            measured = []
            for ev in p.events:
                v = strip_res(ev[1]) if ev[0] == 'value' else None
                if v is not None and v[0] == 'call' and v[1] == 'os.path.getsize' and v[2]:
                    measured.append(v[2][0])
            if not measured:
                continue
            for ev in p.events:
                if ev[0] != 'setattr':
                    continue
                v = ev[3]
                sv = strip_res(v)
                pathlike = v in measured or (sv[0] == 'call' and sv[1].startswith('os.path.')) or \
                    any(strip_res(m)[0] in ('call', 'callv') and sv[0] == strip_res(m)[0] and sv[1] == strip_res(m)[1] for m in measured)
                if not pathlike:
                    continue
                n += 1
                rep.check(v in measured, 'R10.5.same-file', '{}: the path remembered on the line is the path that was measured'.format(fname),
                          lambda ev=ev, v=v, fname=fname: Finding('R10.5.same-file', fname, ev[4],
                                                                  'the size appended to the include_bytes line is measured on {} but the content will be read from {}: '
                                                                  'when both exist the layout is computed for one file and the bytes come from another'.format(
                                                                      show(measured[0])[:60], show(v)[:60]), line=getattr(ev[4], 'lineno', None)))
    rep.count('remembered include_bytes paths', n)


def check_include_bytes(rep, model):
    check_same_file(rep, model.facts)
    facts = model.facts
    cg = CallGraph(facts)
    pv = Prov(facts, cg)
    if 'assemble' not in cg.funcs:
        raise AnalysisError('anchor vanished: assemble')
    reach = sorted(pv.reach('assemble'))
    # the functions that handle IncludeBytes items and everything they call
    handlers = set()
    for u in model.users('IncludeBytes') + [q for q in cg.funcs if q.split('.')[0] in facts.mro('IncludeBytes')]:
        handlers |= pv.reach(u, dynamic=False)
    n = 0
    unclear = []
    MEMO = {'lru_cache', 'functools.lru_cache', 'cache', 'functools.cache', 'cached_property', 'functools.cached_property'}
    PLAIN = {'staticmethod', 'classmethod'}
    for q, node, name, arg in pv.sinks(reach):
        if q in handlers or name == 'os.path.getsize':
            # R10.5.fresh-read: the bytes are read from the located file when the item is resolved, not taken from a cache that
            # outlives the call (every function between the item and the filesystem call is looked at)
            for h in sorted(handlers):
                if q not in pv.reach(h, dynamic=False):
                    continue
                for d in cg.funcs[h].decorator_list:
                    dn = dotted(d.func) if isinstance(d, ast.Call) else dotted(d)
                    if dn in MEMO and isinstance(d, ast.Call) and any(
                            isinstance(v, ast.Constant) and v.value == 0 and not isinstance(v.value, bool)
                            for v in list(d.args[:1]) + [k.value for k in d.keywords if k.arg == 'maxsize']):
                        continue            # a cache of size 0 stores nothing
                    if dn in MEMO:
                        rep.fail(Finding('R10.5.fresh-read', h, cg.funcs[h], '{}() reaches {}({}) but is memoised with @{}: the content of an include_bytes file is read once per '
                                         'process, a later assemble() of a changed file emits stale bytes (and its size check compares against the old content)'.format(
                                             h, name, unparse(arg), dn), line=cg.funcs[h].lineno), instance=h)
                    elif dn not in PLAIN and not (not isinstance(d, ast.Call) and identity_decorator(facts, dn)):
                        unclear.append('{}: decorator @{} on the way to {}({}) is not understood'.format(h, dn, name, unparse(arg)))
            n += 1
            ks = set(pv.kinds(arg, q)) - {'NoneK'}
            # a violation is text of the source line (or a literal) reaching the filesystem; any other mixture of kinds is an
            # imprecision of the (field-name based, context-insensitive) dataflow: no verdict
            if ks != {'Resolved'} and (not ks & {'RawToken', 'Literal'} or 'Ambiguous' in ks):
                unclear.append('{}: the path given to {}({}) could not be classified ({})'.format(q, name, unparse(arg), sorted(ks)))
                continue
            rep.check(ks == {'Resolved'}, 'R10.5.provenance', '{}: {}({}) uses the path the include search returned'.format(q, name, unparse(arg)),
                      lambda q=q, node=node, name=name, arg=arg, ks=ks: Finding('R10.5.provenance', q, node,
                                                                                'include_bytes: {}({}) is given a {} path; size and content must both come from the file the include search found'.format(
                                                                                    name, unparse(arg), coarse(ks)), line=node.lineno))
    rep.analysed['include_bytes filesystem sites'] = n
    if unclear and not rep.findings:
        raise AnalysisError(unclear[0])
    # the size the labels were computed from
    msize = model.method('IncludeBytes', 'size')
    size_attrs = set()
    for p, v, node in model.returns(msize):
        v = strip_res(v)
        if not (v[0] == 'attr' and v[1] == SELF):
            raise AnalysisError('IncludeBytes.size() returns {}'.format(show(v)[:80]))
        size_attrs.add(v[2])
    if len(size_attrs) != 1:
        raise AnalysisError('IncludeBytes.size(): no single size attribute')
    size_attr = next(iter(size_attrs))
    n_blobs = 0
    for fname, p, x, s, node in model.sites('IncludeBytes', lambda t: t[0] == 'new' and t[1] == 'Blob'):
        fields = ctor_fields(facts, s)
        is_path_obj = lambda r: (r[0] == 'call' and r[1] in ('pathlib.Path', 'Path')) or (r[0] == 'mcall' and r[1] == ('name', 'pathlib') and r[2] == 'Path')
        is_read_bytes = lambda t: t[0] == 'mcall' and t[2] == 'read_bytes' and not t[3] and is_path_obj(strip_res(t[1]))
        datas = [strip_res(v) for k, v in fields.items() if find_all(v, lambda t: (t[0] == 'call' and t[1] in ('open', 'io.open')) or is_read_bytes(t))]
        if not datas:
            continue
        n_blobs += 1
        data = datas[0]
        if is_read_bytes(data):
            o, mode = strip_res(data[1]), C('rb')          # Path(p).read_bytes(): binary by definition
        else:
            opens = find_all(data, lambda t: t[0] == 'call' and t[1] in ('open', 'io.open'))
            handle = strip_res(data[1]) if data[0] == 'mcall' else None
            shape_ok = data[0] == 'mcall' and data[2] == 'read' and not data[3] and handle is not None and (
                (handle[0] == 'ctx' and strip_res(handle[1]) == opens[0]) or handle == opens[0])
            if not shape_ok:
                raise AnalysisError('{}: the embedded data {} is not <open(path, mode)>.read()'.format(fname, show(data)[:100]))
            o = opens[0]
            kw = dict(o[3])
            mode = o[2][1] if len(o[2]) > 1 else kw.get('mode', C('r'))
        onode = next((e[2] for e in p.events if e[0] == 'with' and strip_res(e[1]) == o), node)
        if not is_const(mode):
            try:
                mode = C(SymEval(facts).ev(mode))          # a named module-level constant
            except Undecided as e:
                raise AnalysisError('{}: the mode the include_bytes file is opened with ({}) is not a constant: {}'.format(fname, show(mode)[:40], e))
        rep.check(is_const(mode) and isinstance(mode[1], str) and 'b' in mode[1] and 'r' in mode[1] and '+' not in mode[1], 'R10.5.binary', '{}: include_bytes reads in binary mode'.format(fname),
                  lambda mode=mode, node=onode, fname=fname: Finding('R10.5.binary', fname, node, 'the file is opened with mode {}: content is decoded / newline-translated'.format(show(mode)), line=getattr(node, 'lineno', None)))
        length, size = ('call', 'len', (normalise(facts, data),), ()), ('attr', x, size_attr)
        tests = [(ev[1], True) for ev in p.events if ev[0] == 'assert'] + [(t, pol) for t, pol, _ in p.conds]
        guarded, unclear = False, None
        for t, pol in tests:
            t = normalise(facts, t)
            if not (t[0] == 'cmp' and ((t[1] == '==' and pol) or (t[1] == '!=' and not pol))):
                continue
            sides = [t[2], t[3]]
            for mine, wanted in ((length, size), (size, length)):
                if mine in sides:
                    other = sides[1 - sides.index(mine)]
                    if other == wanted:
                        guarded = True
                    elif find_all(other, lambda u: u[0] in ('mcall', 'callv', 'new') or (u[0] == 'call' and u[1] not in ('len', 'int', 'abs', 'min', 'max'))):
                        unclear = other
        if not guarded and unclear is None:
            for t, pol in tests:
                t = normalise(facts, t)
                if contains(t, length) and contains(t, size):
                    unclear = t         # the two are related by a test of another shape (a difference, an ordering ...)
        if not guarded and unclear is not None:
            raise AnalysisError('{}: the content length is compared with {}, which is not understood'.format(fname, show(unclear)[:80]))
        rep.check(guarded, 'R10.5.size-check', '{}: content length is checked against the size the labels were computed from'.format(fname),
                  lambda fname=fname, node=node: Finding('R10.5.size-check', fname, node, 'the embedded content is not checked against the size used for layout ({}.{})'.format('IncludeBytes', size_attr),
                                                         line=getattr(node, 'lineno', None)))
    rep.analysed['include_bytes content sites'] = n_blobs


def run(repo, tier):
    facts = Facts(repo.asm)
    rep = Report('C10', LEVEL,
                 'For every documented keyword and every integer sample around the comparison constants of the code, the struct format that '
                 'reaches struct.pack (followed through helpers, closures, module-level and derived tables, conditional expressions) is evaluated: '
                 'little endian, an integer code whose standard size equals the documented width == size() == the reference table, signed exactly '
                 'for negative values; the tested value reaches struct.pack unchanged (no arithmetic narrowing); pack passes format and value '
                 'through and is measured by calcsize of the same format; string escape processing and emission are codec chains interpreted '
                 'over character classes (ASCII / Latin-1 / BMP / astral / each escape form) and must denote, resp. emit as UTF-8, the right '
                 'text for every class, with size() measuring the emitted bytes; include_bytes size and content both come from the path the '
                 'include search returned (provenance dataflow), binary mode, length checked against the size attribute.')
    rep.trusted_base = ['CPython ast', 'struct rejects out-of-range values for standard sizes (library contract)', 'CPython codecs (applied to representatives of each character class)',
                        'bbverif.pathwalk / hwalk / symeval / prov']
    rep.not_decided = ['that struct.pack refuses every misfit (library contract)', 'lone surrogates and malformed escapes in string text']
    model = Model(facts)
    doc_text = repo.text['docs/assembly_language.rst']
    # a group of rules that does not understand the code must not mask a violation that another group establishes: its
    # no-verdict is recorded and raised at the end of the run only if there is no finding
    for group in (lambda: check_integer_directives(rep, model, doc_text), lambda: check_strings(rep, model), lambda: check_include_bytes(rep, model)):
        try:
            group()
        except AnalysisError as e:
            rep.undecided(str(e))
    # every data item owns the bytes it emits (a scratch buffer shared between directives gives all of them the last one's bytes).
    # The rule looks at the statements before / inside the item loop only, so it is given the loop itself and not a full
    # PassAnalysis (whose size algebra does not cover every shape of these passes and must not decide this property's verdict).
    from .. import layoutrules as _LR
    import types
    for name_ in ('resolve_strings', 'resolve_sequences', 'transform_shorthand_packs', 'resolve_packs', 'resolve_include_bytes'):
        if name_ in facts.funcs:
            _LR.check_shared_buffers(rep, facts, facts.funcs[name_], 'R10.6.own-payload')
    rep.floor('width table rows', 9)
    rep.floor('sign/format cases', 18)
    rep.floor('pack sites', 1)
    rep.floor('string escape sites', 1)
    rep.floor('string emission sites', 1)
    rep.floor('include_bytes filesystem sites', 2)
    rep.floor('include_bytes content sites', 1)
    return rep
