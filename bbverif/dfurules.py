"""Host-side DFU protocol rules over the paths of dfu.cli_main (C18, C19).

cli_main is walked with every module-level helper and local closure inlined (pathwalk inline='all'), so the protocol events are the
device.ctrl_transfer(...) calls themselves, classified by their folded arguments - however the code is factored into helpers and
whatever its variables are called.  The quantities the rules talk about are *derived from the events*:

  S      chunk size        = hi - lo of the slice sent by the data download
  FW     flashed buffer    = the object that slice is taken from
  N      page count        = argument of range() of the loops that enclose the erase / write requests
  PAGE   page index        = loop variable of that loop
  LEN    raw image length  = len() of the value read from the file (the `res` leaf of FW)
  CAP    flash capacity    = LEN - g for the size guard  g > 0 -> refuse
"""
import ast

from .core import AnalysisError, Finding
from .astutil import unparse, dotted, fold, NotConstant
from .pathwalk import Walker, PathState, show, is_const, C
from .poly import Poly
from . import oracle
from .immsites import contains, find_all

DFU = 'bronzebeard/dfu.py'
PAGE = ('PAGE',)
LEN = ('LEN',)


class Undecided(AnalysisError):
    pass


def strip(v):
    while isinstance(v, tuple) and v and v[0] == 'res':
        v = v[3]
    return v


def fold_sym(v, consts):
    """Integer / bytes / str value of a symbolic expression over module constants, or None."""
    v = strip(v)
    if is_const(v):
        return v[1]
    if v[0] == 'name':
        return consts.get(v[1])
    if v[0] == 'bin':
        a, b = fold_sym(v[2], consts), fold_sym(v[3], consts)
        if isinstance(a, int) and isinstance(b, int):
            try:
                return {'|': a | b, '&': a & b, '+': a + b, '-': a - b, '*': a * b, '<<': a << b, '>>': a >> b, '^': a ^ b}[v[1]]
            except (KeyError, ValueError):
                return None
    if v[0] in ('tuple', 'list'):
        vals = [fold_sym(e, consts) for e in v[1]]
        return None if any(e is None for e in vals) else vals
    return None


PYUSB_PARAMS = ['bmRequestType', 'bRequest', 'wValue', 'wIndex', 'data_or_wLength', 'timeout']
DNLOAD_KINDS = ('ERASE', 'SETADDR', 'DATA')


class Request:
    """One ctrl_transfer call on a path."""

    def __init__(self, idx, node, site, recv, params, raw, consts):
        self.idx, self.node, self.site, self.recv, self.params, self.raw = idx, node, site, recv, params, raw
        self.uid = raw[4] if raw[0] == 'res' and len(raw) > 4 else None
        self.bmRequestType = fold_sym(params['bmRequestType'], consts) if 'bmRequestType' in params else None
        self.request = fold_sym(params['bRequest'], consts) if 'bRequest' in params else None
        self.wValue = fold_sym(params['wValue'], consts) if 'wValue' in params else 0
        self.data = params.get('data_or_wLength')
        self.kind = 'OTHER'
        self.addr = None
        self.payload = None
        self.pack = None
        R = oracle.DFU['requests']
        if self.request == R['REQUEST_DFU_GETSTATUS']:
            self.kind = 'POLL'
        elif self.request == R['REQUEST_DFU_CLRSTATUS']:
            self.kind = 'CLR'
        elif self.request == R['REQUEST_DFU_DNLOAD']:
            d = strip(self.data) if self.data is not None else None
            if d is not None and d[0] == 'call' and d[1] == 'struct.pack' and len(d[2]) >= 2:
                fmt = fold_sym(d[2][0], consts)
                cmd = fold_sym(d[2][1], consts)
                self.pack = (fmt, cmd, d[2][2:])
                self.addr = d[2][2] if len(d[2]) > 2 else None
                if cmd == oracle.DFU['dfuse']['DFUSE_CMD_ERASE_PAGE']:
                    self.kind = 'ERASE'
                elif cmd == oracle.DFU['dfuse']['DFUSE_CMD_SET_ADDRESS']:
                    self.kind = 'SETADDR'
                else:
                    self.kind = 'DNLOAD?'
            else:
                self.kind = 'DATA'
                self.payload = self.data

    @property
    def line(self):
        return getattr(self.site, 'lineno', getattr(self.node, 'lineno', None))


def request_of(ev, idx, path, consts):
    """Request for an event that is a ctrl_transfer call (statement or assigned), else None."""
    if ev[0] == 'mcall' and ev[2] == 'ctrl_transfer':
        recv, args, kwargs, node = ev[1], ev[3], ev[4], ev[5]
        raw = ('mcall', recv, 'ctrl_transfer', args, kwargs)
    elif ev[0] in ('value', 'expr'):
        raw = ev[1]
        v = strip(raw)
        if not (isinstance(v, tuple) and v and v[0] == 'mcall' and v[2] == 'ctrl_transfer'):
            return None
        recv, args, kwargs, node = v[1], v[3], v[4], ev[2]
    else:
        return None
    params = {}
    for n, a in zip(PYUSB_PARAMS, args):
        params[n] = a
    for k, a in kwargs:
        params[k] = a
    return Request(idx, node, path.sites.get(idx, node), recv, params, raw, consts)


def main_paths(facts):
    fn = facts.funcs.get('cli_main')
    if fn is None:
        raise AnalysisError('anchor vanished: dfu.cli_main')
    w = Walker(facts, name_results=True, inline='all')
    w.opaque = {'cli_main'}
    paths = w.run(fn.body, PathState())
    return fn, [p for p in paths if feasible(p, facts.consts)]


def range_trips(it, sym):
    """Trip count of a range(...) value as a polynomial (None when it is not one): stop, or (stop - start) / step when exact."""
    args = it[2]
    if it[3] or not 1 <= len(args) <= 3:
        return None
    try:
        if len(args) == 1:
            return sym.poly(args[0])
        start, stop = sym.poly(args[0]), sym.poly(args[1])
        step = sym.poly(args[2]) if len(args) == 3 else Poly.const(1)
        return divide(stop - start, step)
    except Undecided:
        return None


def feasible(p, consts=None):
    """Two range(...) loops with the same trip count (the structurally identical range value, or the same polynomial
    (stop - start) / step) run the same number of times: a path on which one ran zero times and the other at least once does
    not exist."""
    trips = {}
    sym = Sym(consts or {})
    for ev in p.events:
        if ev[0] in ('loop', 'loop0'):
            it = strip(ev[1])
            if it[0] == 'call' and it[1] == 'range':
                n = range_trips(it, sym)
                key = it if n is None else repr(n)
                got = ev[0] == 'loop'
                if trips.setdefault(key, got) != got:
                    return False
    return True


def protocol_events(path, consts):
    """Ordered protocol-level events of a path: (kind, idx, node, payload)
       REQ payload = Request ; COND payload = (test, pol) ; WHILE/ENDWHILE/ENDWHILE0 payload = test ; LOOP/LOOP0/ENDLOOP payload =
       iterable ; RAISE payload = exception value ; EXIT payload = args ; SLEEP payload = arg.   node is the outermost call site
       in cli_main when the event happened inside an inlined helper."""
    cached = getattr(path, '_proto', None)
    if cached is not None:
        return cached
    out = []
    for i, ev in enumerate(path.events):
        r = request_of(ev, i, path, consts)
        if r is not None:
            out.append(('REQ', i, r.site, r))
            continue
        site = path.sites.get(i)
        if ev[0] == 'cond':
            out.append(('COND', i, site or ev[3], (ev[1], ev[2])))
        elif ev[0] in ('while', 'endwhile', 'endwhile0', 'loop', 'loop0', 'endloop'):
            out.append((ev[0].upper(), i, ev[2], ev[1]))
        elif ev[0] == 'raise':
            out.append(('RAISE', i, site or ev[2], ev[1]))
        elif ev[0] == 'expr':
            v = strip(ev[1])
            if v[0] == 'call' and v[1] in ('sys.exit', 'exit', 'quit', 'os._exit'):
                out.append(('EXIT', i, site or ev[2], v[2]))
            elif v[0] == 'call' and v[1] in ('time.sleep', 'sleep'):
                out.append(('SLEEP', i, site or ev[2], v[2][0] if v[2] else None))
    path._proto = out
    return out


# -- the GETSTATUS reply --------------------------------------------------------------------------------------------------------
def unpack_layout(fmt):
    """[(byte offset, size, code)] per field of a struct format with explicit byte order, or None."""
    if not isinstance(fmt, str) or not fmt or fmt[0] not in '<>=!':
        return None
    out = []
    off = 0
    i = 1
    while i < len(fmt):
        n = ''
        while i < len(fmt) and fmt[i].isdigit():
            n += fmt[i]
            i += 1
        if i >= len(fmt):
            return None
        c = fmt[i]
        i += 1
        cnt = int(n) if n else 1
        if c in 'sp':
            out.append((off, cnt, 's'))
            off += cnt
        elif c == 'x':
            off += cnt
        elif c in oracle.STRUCT_SIZES:
            for _ in range(cnt):
                out.append((off, oracle.STRUCT_SIZES[c], c))
                off += oracle.STRUCT_SIZES[c]
        else:
            return None
    return out


def _is_reply(v):
    s = strip(v)
    return isinstance(s, tuple) and s and s[0] == 'mcall' and s[2] == 'ctrl_transfer'


def reply_bytes(v, consts):
    """How an integer (or bytes) expression is made of the bytes of a GETSTATUS reply:
         {'weights': {offset: weight}, 'reply': reply value}     an integer  sum(reply[offset] * weight)
         {'bytes': (offset, size), 'reply': reply value}         the byte string reply[offset : offset+size]
       None if it is anything else."""
    v = strip(v)
    if not isinstance(v, tuple) or not v:
        return None
    if v[0] == 'unpack':
        src = strip(v[1])
        if src[0] == 'call' and src[1] == 'struct.unpack' and len(src[2]) == 2:
            fmt = fold_sym(src[2][0], consts)
            lay = unpack_layout(fmt)
            try:
                k = int(v[2])
            except ValueError:
                return None
            if lay is None or not (-len(lay) <= k < len(lay)):
                return None
            off, size, code = lay[k]
            inner = reply_bytes(src[2][1], consts)
            base = 0
            reply = src[2][1]
            if inner is not None and 'bytes' in inner:
                base, reply = inner['bytes'][0], inner['reply']
            elif not _is_reply(reply):
                return None
            if code == 's':
                return {'bytes': (base + off, size), 'reply': reply}
            w = {}
            for b in range(size):
                w[base + off + b] = (1 << (8 * b)) if fmt[0] in '<=' else (1 << (8 * (size - 1 - b)))
            return {'weights': w, 'reply': reply}
        if _is_reply(v[1]):
            # tuple-unpacking the reply itself: status, t0, t1, t2, state, istring = reply
            try:
                k = int(v[2])
            except ValueError:
                return None
            if k < 0:
                k += oracle.DFU['getstatus_len']
            return {'weights': {k: 1}, 'reply': v[1]}
        return None
    if v[0] == 'sub' and is_const(v[2]) and isinstance(v[2][1], int) and _is_reply(v[1]):
        k = v[2][1]
        return {'weights': {k if k >= 0 else k + oracle.DFU['getstatus_len']: 1}, 'reply': v[1]}
    if v[0] == 'slice' and _is_reply(v[1]) and v[4] == C(None):
        lo = 0 if v[2] == C(None) else fold_sym(v[2], consts)
        hi = oracle.DFU['getstatus_len'] if v[3] == C(None) else fold_sym(v[3], consts)
        if isinstance(lo, int) and isinstance(hi, int) and 0 <= lo <= hi:
            return {'bytes': (lo, hi - lo), 'reply': v[1]}
        return None
    if v[0] == 'call' and v[1] in ('bytes', 'bytearray', 'memoryview') and len(v[2]) == 1:
        inner = reply_bytes(v[2][0], consts)
        if inner is not None and 'bytes' in inner:
            return inner
        if _is_reply(v[2][0]):
            return {'bytes': (0, oracle.DFU['getstatus_len']), 'reply': v[2][0]}
        return None
    if v[0] == 'mcall' and v[1] == ('name', 'int') and v[2] == 'from_bytes' and v[3]:
        inner = reply_bytes(v[3][0], consts)
        order = v[3][1] if len(v[3]) > 1 else dict(v[4]).get('byteorder')
        order = fold_sym(order, consts) if order is not None else 'big'
        if inner is None or 'bytes' not in inner or order not in ('little', 'big') or dict(v[4]).get('signed', C(False)) != C(False):
            return None
        off, size = inner['bytes']
        w = {}
        for b in range(size):
            w[off + b] = (1 << (8 * b)) if order == 'little' else (1 << (8 * (size - 1 - b)))
        return {'weights': w, 'reply': inner['reply']}
    if v[0] == 'bin' and v[1] in ('|', '+'):
        a, b = reply_bytes(v[2], consts), reply_bytes(v[3], consts)
        if a is None or b is None or 'weights' not in a or 'weights' not in b or set(a['weights']) & set(b['weights']) \
                or a['reply'] != b['reply']:
            return None
        w = dict(a['weights'])
        w.update(b['weights'])
        return {'weights': w, 'reply': a['reply']}
    if v[0] == 'bin' and v[1] in ('<<', '*'):
        for x, y in ((v[2], v[3]), (v[3], v[2])):
            k = fold_sym(y, consts)
            a = reply_bytes(x, consts)
            if isinstance(k, int) and a is not None and 'weights' in a and (v[1] == '*' or x is v[2]):
                k = (1 << k) if v[1] == '<<' else k
                return {'weights': {o: w * k for o, w in a['weights'].items()}, 'reply': a['reply']}
        return None
    return None


def reply_uid(reply):
    return reply[4] if isinstance(reply, tuple) and reply and reply[0] == 'res' and len(reply) > 4 else None


def reply_terms(v, consts, out=None):
    """All maximal sub-terms of v that are integer functions of a GETSTATUS reply: [(term, weights, reply uid)]."""
    out = [] if out is None else out
    if not isinstance(v, tuple) or not v:
        return out
    rb = reply_bytes(v, consts)
    if rb is not None and 'weights' in rb:
        out.append((v, rb['weights'], reply_uid(rb['reply'])))
        return out
    for x in v[1:] if v[0] != 'res' else (v[3],):
        if isinstance(x, tuple):
            if x and isinstance(x[0], str):
                reply_terms(x, consts, out)
            else:
                for y in x:
                    if isinstance(y, tuple):
                        if y and isinstance(y[0], str):
                            reply_terms(y, consts, out)
                        else:
                            for z in y:
                                reply_terms(z, consts, out)
    return out


def eval_sym_test(test, subst, consts):
    """Truth of a symbolic test with the values in `subst` ({term: int}) plugged in; None if it cannot be evaluated."""
    if test in subst:
        return bool(subst[test])
    if is_const(test):
        return bool(test[1])
    k = test[0]
    if k == 'res':
        return eval_sym_test(test[3], subst, consts)
    if k == 'un' and test[1] == 'not':
        r = eval_sym_test(test[2], subst, consts)
        return None if r is None else not r
    if k == 'bool':
        vals = [eval_sym_test(t, subst, consts) for t in test[2]]
        if test[1] == 'and':
            if any(v is False for v in vals):
                return False
            return None if any(v is None for v in vals) else True
        if any(v is True for v in vals):
            return True
        return None if any(v is None for v in vals) else False
    if k == 'ifexp':
        c = eval_sym_test(test[1], subst, consts)
        return None if c is None else eval_sym_test(test[2] if c else test[3], subst, consts)
    if k == 'cmp':
        def val(x):
            if x in subst:
                return subst[x]
            sx = strip(x)
            if sx in subst:
                return subst[sx]
            if sx[0] in ('list', 'tuple', 'set'):
                vs = [val(e) for e in sx[1]]
                return None if any(e is None for e in vs) else vs
            return fold_sym(sx, consts)
        a, b = val(test[2]), val(test[3])
        if a is None or b is None:
            return None
        try:
            return {'==': lambda: a == b, '!=': lambda: a != b, '<': lambda: a < b, '<=': lambda: a <= b, '>': lambda: a > b,
                    '>=': lambda: a >= b, 'in': lambda: a in b, 'not in': lambda: a not in b, 'is': lambda: a == b,
                    'is not': lambda: a != b}[test[1]]()
        except (TypeError, KeyError):
            return None
    return None


def status_test(test, consts):
    """('bad'|'ok', tested value, weights or None, reply uid) if the test compares something with STATUS_OK: by name, or by value
    when the other side is byte 0 of a GETSTATUS reply."""
    if test[0] == 'un' and test[1] == 'not':
        r = status_test(test[2], consts)
        if r:
            return ('ok' if r[0] == 'bad' else 'bad',) + r[1:]
        return None
    if test[0] == 'res':
        return status_test(test[3], consts)
    if test[0] != 'cmp' or test[1] not in ('!=', '==', 'is not', 'is'):
        # bare truthiness of the status byte: `if status:` is `status != 0`
        rb = reply_bytes(test, consts)
        if rb is not None and rb.get('weights') == {0: 1} and consts.get('STATUS_OK') == 0:
            return ('bad', test, rb['weights'], reply_uid(rb['reply']))
        return None
    a, b = test[2], test[3]
    ok_val = consts.get('STATUS_OK')
    for x, y in ((a, b), (b, a)):
        named = y == ('name', 'STATUS_OK')
        rb = reply_bytes(x, consts)
        w = rb.get('weights') if rb else None
        valued = is_const(y) and ok_val is not None and y[1] == ok_val and not isinstance(y[1], bool) and w == {0: 1}
        if named or valued:
            return ('bad' if test[1] in ('!=', 'is not') else 'ok', x, w, reply_uid(rb['reply']) if rb else None)
    return None


# -- polynomials over the derived quantities ----------------------------------------------------------------------------------------
def buffer_leaf(v):
    """The value read from the file that a buffer expression extends (its `res` leaf), or None."""
    if v[0] == 'res':
        return v
    if v[0] == 'accum':
        return buffer_leaf(v[1])
    if v[0] == 'bin' and v[1] == '+':
        return buffer_leaf(v[2]) or buffer_leaf(v[3])
    if v[0] == 'call' and v[1] in ('bytes', 'bytearray') and len(v[2]) == 1 and isinstance(v[2][0], tuple):
        return buffer_leaf(v[2][0])
    if v[0] == 'mcall' and v[2] in ('ljust',) and v[3]:
        return buffer_leaf(v[1])
    return None


def whole_file_read(raw):
    """Is the value the image length is taken from the whole content of the file?  (True, '') for `f.read()` / `f.read(-1)` /
    `f.read(None)` / `path.read_bytes()`; (False, why) for a read that is capped (`f.read(n)`): its length is min(file size, n), so
    a guard on it says nothing about the file; (None, why) for anything else."""
    v = strip(raw)
    if v[0] == 'slice':
        return False, 'the firmware buffer is a slice of what was read ({}): the length that is guarded is not the length of the file'.format(show(v)[:60])
    if v[0] != 'mcall':
        return None, 'the firmware buffer is not the result of a read call: {}'.format(show(v)[:60])
    meth, args, kwargs = v[2], v[3], v[4] if len(v) > 4 else ()
    if meth in ('rstrip', 'strip', 'lstrip', 'removesuffix', 'removeprefix') and strip(v[1])[0] == 'mcall' and strip(v[1])[2] in ('read', 'read_bytes'):
        return False, ('the firmware is {}()-ed after reading and the size guard looks at what is left: a file larger than the flash whose tail is stripped '
                       'is accepted, although it is the file that must fit').format(meth)
    if meth == 'read_bytes' and not args:
        return True, ''
    if meth == 'read':
        if kwargs:
            return None, 'read() with keyword arguments'
        if not args:
            return True, ''
        if len(args) == 1 and is_const(args[0]) and (args[0][1] is None or (isinstance(args[0][1], int) and args[0][1] < 0)):
            return True, ''
        if len(args) == 1:
            return False, 'the firmware is read with {}: at most that many bytes arrive, so a file larger than that is cut short and its real size is never seen'.format(
                show(v)[-60:])
    return None, 'the firmware buffer comes from {}()'.format(meth)


class Sym:
    """Polynomial view of the symbolic values of one path."""

    def __init__(self, consts, page_vars=(), raw=None):
        self.consts = consts
        self.page_vars = set(page_vars)     # havoc symbols standing for the page index
        self.page_values = {}               # havoc symbol of a range() loop variable -> START + PAGE*STEP
        self.raw = raw                      # the `res` value read from the file: len(raw) is LEN

    def length(self, v):
        """len(v) of a bytes expression."""
        if self.raw is not None and v == self.raw:
            return Poly.sym(LEN)
        if v[0] == 'res':
            return Poly.sym(('len', v))
        if is_const(v) and isinstance(v[1], (bytes, str)):
            return Poly.const(len(v[1]))
        if v[0] == 'accum':
            init, it, elem, meth = v[1], strip(v[2]), v[3], v[4]
            if it[0] == 'call' and it[1] == 'range' and len(it[2]) == 1:
                return self.length(init) + self.poly(it[2][0]) * self.length(elem)
            raise Undecided('padding loop does not run over range(n): {}'.format(show(it)[:60]))
        if v[0] == 'bin' and v[1] == '+':
            return self.length(v[2]) + self.length(v[3])
        if v[0] == 'bin' and v[1] == '*':
            for a, b in ((v[2], v[3]), (v[3], v[2])):
                if is_const(a) and isinstance(a[1], (bytes, str)):
                    return self.poly(b) * Poly.const(len(a[1]))
        if v[0] == 'call' and v[1] in ('bytes', 'bytearray') and len(v[2]) == 1:
            a = v[2][0]
            if buffer_leaf(a) is not None or (is_const(a) and isinstance(a[1], bytes)):
                return self.length(a)
            return self.poly(a)               # bytes(n): n zero bytes
        raise Undecided('buffer expression outside the padding fragment: {}'.format(show(v)[:80]))

    def zero_extension(self, v):
        """True if v is its leaf extended only by zero bytes at the end."""
        if v[0] == 'res':
            return True
        if is_const(v) and isinstance(v[1], bytes):
            return set(v[1]) <= {0}
        if v[0] == 'accum':
            return self.zero_extension(v[1]) and self.zeros(v[3])
        if v[0] == 'bin' and v[1] == '+':
            return self.zero_extension(v[2]) and self.zeros(v[3])
        if v[0] == 'call' and v[1] in ('bytes', 'bytearray') and len(v[2]) == 1 and buffer_leaf(v[2][0]) is not None:
            return self.zero_extension(v[2][0])
        return False

    def zeros(self, v):
        if is_const(v) and isinstance(v[1], bytes):
            return set(v[1]) <= {0}
        if v[0] == 'bin' and v[1] == '*':
            return any(is_const(a) and isinstance(a[1], bytes) and set(a[1]) <= {0} for a in (v[2], v[3]))
        if v[0] == 'bin' and v[1] == '+':
            return self.zeros(v[2]) and self.zeros(v[3])
        if v[0] == 'call' and v[1] in ('bytes', 'bytearray') and len(v[2]) == 1:
            a = v[2][0]
            return not (buffer_leaf(a) is not None) and (not is_const(a) or isinstance(a[1], int))
        if v[0] == 'accum':
            return self.zeros(v[1]) and self.zeros(v[3])
        return False

    def poly(self, v):
        if v in self.page_values:
            return self.page_values[v]
        if v in self.page_vars:
            return Poly.sym(PAGE)
        if is_const(v):
            if isinstance(v[1], int) and not isinstance(v[1], bool):
                return Poly.const(v[1])
            return Poly.sym(v)
        if v[0] == 'res':
            inner = strip(v)
            if is_const(inner) or inner[0] in ('bin', 'name') or (inner[0] == 'call' and inner[1] == 'len'):
                return self.poly(inner)
            return Poly.sym(v)
        if v[0] == 'name':
            c = self.consts.get(v[1])
            if isinstance(c, int) and not isinstance(c, bool):
                return Poly.const(c)
            return Poly.sym(v)
        if v[0] == 'bin' and v[1] in ('+', '-', '*'):
            a, b = self.poly(v[2]), self.poly(v[3])
            return a + b if v[1] == '+' else (a - b if v[1] == '-' else a * b)
        if v[0] == 'bin' and v[1] == '<<':
            k = fold_sym(v[3], self.consts)
            if isinstance(k, int) and 0 <= k < 64:
                return self.poly(v[2]) * Poly.const(1 << k)
        if v[0] == 'un' and v[1] == '-':
            return -self.poly(v[2])
        if v[0] == 'call' and v[1] == 'len' and len(v[2]) == 1:
            try:
                return self.length(v[2][0])
            except Undecided:
                return Poly.sym(v)
        if v[0] == 'call' and v[1] == 'int' and len(v[2]) == 1 and not v[3]:
            return self.poly(v[2][0])
        return Poly.sym(v)

    def gt(self, test):
        """A comparison between integer expressions as P > 0; Poly or None."""
        if test[0] == 'res':
            return self.gt(test[3])
        if test[0] == 'un' and test[1] == 'not':
            inner = strip(test[2])
            if inner[0] == 'cmp' and inner[1] in ('<', '<=', '>', '>='):
                neg = {'<': '>=', '<=': '>', '>': '<=', '>=': '<'}[inner[1]]
                return self.gt(('cmp', neg, inner[2], inner[3]))
            return None
        if test[0] != 'cmp' or test[1] not in ('<', '<=', '>', '>='):
            return None
        a, b = self.poly(test[2]), self.poly(test[3])
        return {'>': a - b, '>=': a - b + Poly.const(1), '<': b - a, '<=': b - a + Poly.const(1)}[test[1]]


def split_by(poly, sym):
    """poly = A + sym*B (+ higher): returns (A, B, has_higher)."""
    a, b, high = {}, {}, False
    for k, c in poly.terms.items():
        n = sum(1 for s in k if s == sym)
        if n == 0:
            a[k] = c
        elif n == 1:
            kk = list(k)
            kk.remove(sym)
            b[tuple(kk)] = c
        else:
            high = True
    return Poly(a), Poly(b), high


def mentions(poly, sym):
    return any(sym in k for k in poly.terms)


def divide(r, s):
    """q with q*s == r for a polynomial r and a constant or single-monomial s; None if s does not divide r that way."""
    if len(s.terms) != 1:
        return None
    (mono, c), = s.terms.items()
    out = {}
    for k, v in r.terms.items():
        kk = list(k)
        for sym in mono:
            if sym not in kk:
                return None
            kk.remove(sym)
        if v % c:
            return None
        out[tuple(kk)] = v // c
    return Poly(out)


class PathModel:
    """Everything the rules need to know about one path of cli_main."""

    def __init__(self, path, consts):
        self.p = path
        self.consts = consts
        self.evs = protocol_events(path, consts)
        self.reqs = [e[3] for e in self.evs if e[0] == 'REQ']
        # enclosing for-loops of every request
        self.loops_of = {}
        self.loop_end = {}
        stack = []
        for kind, idx, node, payload in self.evs:
            if kind == 'LOOP':
                stack.append((idx, node, payload))
            elif kind == 'ENDLOOP':
                for j in range(len(stack) - 1, -1, -1):
                    if stack[j][1] is node:
                        self.loop_end[stack[j][0]] = idx
                        del stack[j:]
                        break
            elif kind == 'REQ':
                self.loops_of[payload.idx] = list(stack)
        self.sends = [r for r in self.reqs if r.kind in DNLOAD_KINDS or r.kind in ('CLR', 'DNLOAD?')]

    def page_loop(self, req):
        """(LOOP event idx, For node, iterable, loop-variable havoc symbol) of the innermost enclosing `for V in range(...)` loop."""
        for idx, node, it in reversed(self.loops_of.get(req.idx, [])):
            its = strip(it)
            if its[0] == 'call' and its[1] == 'range' and isinstance(node.target, ast.Name) and 1 <= len(its[2]) <= 3 and not its[3]:
                return idx, node, its, ('havoc', node.target.id, 'loop@{}'.format(node.lineno))
        return None

    def sym_for(self, req, raw=None):
        """Polynomial view for a request: the variable of the enclosing range() loop stands for START + PAGE*STEP."""
        pl = self.page_loop(req)
        sym = Sym(self.consts, [], raw)
        if pl:
            args = pl[2][2]
            start = sym.poly(args[0]) if len(args) >= 2 else Poly.const(0)
            step = sym.poly(args[2]) if len(args) == 3 else Poly.const(1)
            sym.page_values[pl[3]] = start + Poly.sym(PAGE) * step
        return sym

    def trip_count(self, rng, sym):
        """Number of iterations N of range(...) as a polynomial: stop for range(stop), (stop - start) / step when that division is
        exact as polynomials (start + N*step == stop); None otherwise."""
        return range_trips(rng, sym)

    # the data download fixes S, FW and the raw image
    def data_shape(self, req):
        """(FW, lo poly, hi poly, S poly, raw) for a DATA request, or a string saying why the payload is not a slice."""
        code = strip(req.payload)
        while code[0] == 'call' and code[1] in ('bytes', 'bytearray', 'memoryview') and len(code[2]) == 1:
            code = strip(code[2][0])
        if code[0] != 'slice':
            if code[0] == 'havoc' or code[0] in ('unpack', 'callv', 'call', 'mcall', 'sub'):
                # a chunk that comes out of a loop over something else (a generator of pages, a pre-split list): not followed
                raise Undecided('the chunk sent by the data download ({}) is not followed back to the firmware buffer'.format(show(code)[:60]))
            return 'the payload {} is not a slice of the firmware buffer'.format(show(code)[:60])
        if code[4] != C(None):
            return 'the slice has a step'
        fw = code[1]
        raw = buffer_leaf(fw if fw[0] != 'res' else fw)
        sym = self.sym_for(req, raw)
        lo = sym.poly(code[2]) if code[2] != C(None) else Poly.const(0)
        if code[3] == C(None):
            return 'the slice has no upper bound'
        hi = sym.poly(code[3])
        return fw, lo, hi, hi - lo, raw

    def capacity(self, sym, before_idx):
        """[(COND idx, node, pol, CAP poly)] for the size guards (comparisons involving LEN) before event index `before_idx`."""
        out = []
        for kind, idx, node, payload in self.evs:
            if kind == 'COND' and idx < before_idx:
                g = sym.gt(payload[0])
                if g is not None and mentions(g, LEN):
                    out.append((idx, node, payload[1], g))
        return out

    def gd32_letter(self):
        """Serial-number letter this path is specialised to by an `sn[2] == 'X'` test, or None."""
        for t, pol, node in self.p.conds:
            t = strip(t)
            if pol and t[0] == 'cmp' and t[1] == '==':
                for x, y in ((t[2], t[3]), (t[3], t[2])):
                    sx = strip(x)
                    if is_const(y) and isinstance(y[1], str) and len(y[1]) == 1 and sx[0] == 'sub' and sx[2] == C(2):
                        return y[1], node
        return None


def table_lookup(v, consts):
    """(dict name, dict, key value) if v is NAME.get(key) / NAME[key] on a module-level constant dict."""
    s = strip(v)
    if s[0] == 'mcall' and s[2] == 'get' and s[1][0] == 'name' and isinstance(consts.get(s[1][1]), dict) and s[3]:
        return s[1][1], consts[s[1][1]], s[3][0]
    if s[0] == 'sub' and s[1][0] == 'name' and isinstance(consts.get(s[1][1]), dict):
        return s[1][1], consts[s[1][1]], s[2]
    return None
