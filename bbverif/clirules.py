"""Command-line events of asm.cli_main (C17).

cli_main is walked with every module-level helper and local closure inlined (pathwalk inline='all'), so the rules see the
side effects themselves - parser.add_argument / parse_args, assemble(...), open(..., 'w'), handle.write(...), bin2hex(...),
raise SystemExit(...) - however the code is factored into helpers and whatever its variables are called.  The values the
rules talk about are derived from the events:

  ARGS      the namespace returned by <ArgumentParser>.parse_args()
  dest(f)   attribute of ARGS that option flag f ('-o', '--hex-offset', ...) is stored under (from the add_argument events)
  BINARY    the value returned by the assemble(...) call
  LABELS    the object passed as labels= to that call
"""
import ast
import re
import string

from .core import AnalysisError
from .astutil import dotted, walk_no_nested
from .pathwalk import Walker, PathState, show, is_const, C

EXIT_CALLS = {'sys.exit', 'exit', 'quit', 'os._exit'}
# calls whose result is never None
NEVER_NONE = {'int', 'len', 'str', 'float', 'bytes', 'bytearray', 'abs', 'list', 'dict', 'tuple', 'set', 'bool', 'repr', 'hex',
              'os.path.abspath', 'os.path.join', 'os.path.dirname', 'os.path.basename', 'os.path.realpath', 'sorted', 'open'}
IDENTITY_BYTES = {'bytes', 'bytearray', 'memoryview'}


def strip(v):
    while isinstance(v, tuple) and v and v[0] == 'res':
        v = v[3]
    return v


def never_none(v):
    v = strip(v)
    if not isinstance(v, tuple) or not v:
        return False
    if is_const(v):
        return v[1] is not None
    if v[0] in ('new', 'fstr', 'dict', 'list', 'tuple', 'set', 'comp', 'dictcomp', 'bin', 'cmp'):
        return True
    return v[0] == 'call' and v[1] in NEVER_NONE


class CliWalker(Walker):
    """Walker for command-line mains: f-strings keep their parts, sys.exit(...) / parser.error(...) end the path like
    `raise SystemExit(...)`, results of int() / len() / constructors are known not to be None, and a handler that completes
    without raising leaves a ('swallowed', handler type, Try node) event."""

    def __init__(self, facts, **kw):
        kw.setdefault('name_results', True)
        kw.setdefault('inline', 'all')
        super().__init__(facts, **kw)

    def sym(self, node, st):
        if isinstance(node, ast.JoinedStr):
            parts = []
            for v in node.values:
                if isinstance(v, ast.Constant):
                    parts.append(C(v.value))
                elif isinstance(v, ast.FormattedValue):
                    spec = self.sym(v.format_spec, st) if v.format_spec is not None else C('')
                    parts.append(('fmtval', self.sym(v.value, st), v.conversion, spec))
                else:
                    parts.append(('opaque', ast.dump(v)))
            return ('fstr', tuple(parts))
        return super().sym(node, st)

    def inline_target(self, call, st):
        # a generator function is not a function that returns None: its call stays an opaque value (the body runs when and as
        # far as the consumer iterates)
        fn = super().inline_target(call, st)
        if fn is not None and any(isinstance(n, (ast.Yield, ast.YieldFrom)) for n in walk_no_nested(fn)):
            return None
        return fn

    def decide(self, test, st):
        d = super().decide(test, st)
        if d is None and test[0] == 'cmp' and test[1] in ('is', 'is not', '==', '!='):
            a, b = test[2], test[3]
            if is_const(a) and not is_const(b):
                a, b = b, a
            if is_const(b) and b[1] is None and never_none(a):
                return test[1] in ('is not', '!=')
        return d

    def _exit_args(self, call, st):
        """Arguments of the SystemExit an expression-statement call amounts to, or None."""
        if not isinstance(call, ast.Call):
            return None
        d = dotted(call.func)
        if d in EXIT_CALLS and d.split('.')[0] not in st.env:
            return list(call.args)
        if isinstance(call.func, ast.Attribute) and call.func.attr in ('error', 'exit'):
            recv = strip(self.sym(call.func.value, st))
            if recv[0] == 'call' and recv[1].split('.')[-1] == 'ArgumentParser':
                if call.func.attr == 'error':
                    return [ast.Constant(value=2)]
                return list(call.args[:1]) or [ast.Constant(value=0)]
        return None

    def stmt(self, node, st, done):
        if isinstance(node, ast.Expr):
            args = self._exit_args(node.value, st)
            if args is not None:
                r = ast.Raise(exc=ast.Call(func=ast.Name(id='SystemExit', ctx=ast.Load()), args=args, keywords=[]), cause=None)
                ast.copy_location(r, node)
                ast.fix_missing_locations(r)
                return super().stmt(r, st, done)
        return super().stmt(node, st, done)

    def try_stmt(self, node, st, done):
        out = super().try_stmt(node, st, done)
        for s in out:
            for e in reversed(s.events):
                if e[0] == 'except' and e[2] is node:
                    s.events.append(('swallowed', e[1], node))
                    break
        return out


# -- string templates ---------------------------------------------------------------------------------------------------------
_PCT = re.compile(r'%(?:\((\w+)\))?[#0\- +]*(\*|\d+)?(?:\.(\*|\d+))?[hlL]?([diouxXeEfFgGcrsa%])')


def _merge(ps):
    out = []
    # a module-level string constant used as a piece (NEWLINE, a suffix) is literal text
    ps = [('lit', MODULE_CONSTS[p[1][1]]) if p[0] == 'val' and isinstance(p[1], tuple) and p[1][:1] == ('name',) and isinstance(MODULE_CONSTS.get(p[1][1]), str) else p
          for p in ps]
    for p in ps:
        if p[0] == 'lit' and out and out[-1][0] == 'lit':
            out[-1] = ('lit', out[-1][1] + p[1])
        elif p[0] == 'lit' and p[1] == '':
            continue
        else:
            out.append(p)
    return out


MODULE_CONSTS = {}          # module-level constants of the analysed file (set by CliModel): NEWLINE = '\\n', HEX_SUFFIX = '.hex'

PATH_IDENTITIES = {'os.path.abspath', 'os.path.realpath', 'os.path.normpath', 'os.fspath', 'str', 'os.path.normcase'}


def same_file(v):
    """The path expression with wrappers removed that still name the same file (the process never changes its working
    directory): abspath / realpath / normpath / fspath / str."""
    v = strip(v)
    while isinstance(v, tuple) and v and v[0] == 'call' and v[1] in PATH_IDENTITIES and len(v[2]) == 1 and not v[3]:
        v = strip(v[2][0])
    return v


def pieces(v):
    """A string-valued expression as a sequence of ('lit', text) / ('val', symbolic value) pieces (str.format, %-formatting,
    f-strings, concatenation, str()/hex()/format()), or None when its shape is not understood."""
    v = strip(v)
    if not isinstance(v, tuple) or not v:
        return None
    if v[0] == 'name' and isinstance(MODULE_CONSTS.get(v[1]), str):
        return [('lit', MODULE_CONSTS[v[1]])]
    if is_const(v):
        return [('lit', v[1])] if isinstance(v[1], str) else [('val', v)]
    k = v[0]
    if k == 'fstr':
        out = []
        for p in v[1]:
            if is_const(p):
                out.append(('lit', p[1]))
            elif p[0] == 'fmtval':
                out.append(('val', p[1]))
            else:
                return None
        return _merge(out)
    if k == 'mcall' and v[2] == 'format':
        t = strip(v[1])
        if not (is_const(t) and isinstance(t[1], str)):
            return None
        args, kwargs = v[3], dict(v[4])
        if any(a[0] == 'star' for a in args):
            return None
        out = []
        auto = 0
        try:
            parsed = list(string.Formatter().parse(t[1]))
        except ValueError:
            return None
        for lit, field, spec, conv in parsed:
            if lit:
                out.append(('lit', lit))
            if field is None:
                continue
            base = re.split(r'[.\[]', field, 1)[0]
            if base == '':
                idx = auto
                auto += 1
            elif base.isdigit():
                idx = int(base)
            else:
                idx = None
            if idx is not None:
                if idx >= len(args):
                    return None
                out.append(('val', args[idx]))
            else:
                if base not in kwargs:
                    return None
                out.append(('val', kwargs[base]))
        return _merge(out)
    if k == 'bin' and v[1] == '%':
        t = strip(v[2])
        if not (is_const(t) and isinstance(t[1], str)):
            return None
        rhs = strip(v[3])
        vals = list(rhs[1]) if rhs[0] == 'tuple' else [v[3]]
        mapping = dict((strip(a)[1], b) for a, b in rhs[1]) if rhs[0] == 'dict' and all(is_const(strip(a)) for a, _ in rhs[1]) else None
        out = []
        pos = 0
        n = 0
        for m in _PCT.finditer(t[1]):
            if m.start() > pos:
                out.append(('lit', t[1][pos:m.start()]))
            pos = m.end()
            if m.group(4) == '%':
                out.append(('lit', '%'))
                continue
            if m.group(2) == '*' or m.group(3) == '*':
                return None
            if m.group(1) is not None:
                if mapping is None or m.group(1) not in mapping:
                    return None
                out.append(('val', mapping[m.group(1)]))
            else:
                if n >= len(vals):
                    return None
                out.append(('val', vals[n]))
                n += 1
        if pos < len(t[1]):
            out.append(('lit', t[1][pos:]))
        return _merge(out)
    if k == 'bin' and v[1] == '+':
        a, b = pieces(v[2]), pieces(v[3])
        if a is None or b is None:
            return None
        return _merge(a + b)
    if k == 'call' and (v[1] in ('str', 'hex', 'repr', 'format', 'oct', 'bin', 'ascii') or v[1] in PATH_IDENTITIES):
        return [('val', v)]
    if k in ('var', 'havoc', 'name', 'attr', 'sub', 'unpack'):
        return [('val', v)]
    return None


def contains(v, needle):
    if v == needle:
        return True
    if isinstance(v, tuple):
        return any(contains(x, needle) for x in v)
    return False


def shallow_terms(v, pred, out=None, top=True):
    """Sub-terms of v satisfying pred, not descending into nested named results (they had their own events)."""
    out = [] if out is None else out
    if isinstance(v, tuple):
        if v and v[0] == 'res' and not top:
            return out
        if v and isinstance(v[0], str) and pred(v):
            out.append(v)
        for x in (v[3:4] if v and v[0] == 'res' else v):
            shallow_terms(x, pred, out, False)
    return out


# -- events -------------------------------------------------------------------------------------------------------------------
def open_mode(v):
    """(path value, mode text or None) of an open(...) call value.  os.fdopen(os.open(path, flags), mode) is the open of `path`;
    what happens to an existing file is decided by the flags: without O_TRUNC nothing is cut off, so a 'w' mode behaves like 'r+'
    (write from the start, keep what lies behind)."""
    fd = _fd_open(v)
    if fd is not None:
        mode = strip(v[2][1] if len(v[2]) > 1 else dict(v[3]).get('mode', C('r')))
        text = mode[1] if is_const(mode) and isinstance(mode[1], str) else None
        flags = fd[2][1]
        flag = lambda name: contains(flags, ('attr', ('name', 'os'), name))
        if text is not None and 'w' in text and not flag('O_TRUNC'):
            text = text.replace('w', 'r+')
        if text is not None and flag('O_APPEND') and 'a' not in text:
            text = text.replace('w', 'a').replace('r+', 'a')
        return fd[2][0], text
    mode = v[2][1] if len(v[2]) > 1 else dict(v[3]).get('mode', C('r'))
    path = v[2][0] if v[2] else dict(v[3]).get('file')
    mode = strip(mode)
    return path, (mode[1] if is_const(mode) and isinstance(mode[1], str) else None)


def _fd_open(v):
    """the os.open(path, flags[, mode]) call behind os.fdopen(<fd>, ...), else None"""
    if isinstance(v, tuple) and v and v[0] == 'call' and v[1] == 'os.fdopen' and v[2]:
        fd = strip(v[2][0])
        if isinstance(fd, tuple) and fd and fd[0] == 'call' and fd[1] == 'os.open' and len(fd[2]) >= 2:
            return fd
    return None


def is_open(v):
    return isinstance(v, tuple) and v and v[0] == 'call' and (v[1] in ('open', 'io.open', 'builtins.open') or _fd_open(v) is not None)


def writes(mode):
    return mode is None or any(c in mode for c in 'wax+')


class CliEvent:
    def __init__(self, kind, idx, node, **data):
        self.kind, self.idx, self.node = kind, idx, node
        self.__dict__.update(data)

    def __repr__(self):
        return '<{} @{} line {}>'.format(self.kind, self.idx, getattr(self.node, 'lineno', '?'))


def catches(handler_type, names):
    """Does `except <handler_type>` catch one of the exception names (by name, Exception, BaseException, bare, tuple)?"""
    if handler_type == '*':
        return True
    parts = [t.strip() for t in handler_type.strip('()').split(',')]
    return any(t in ('Exception', 'BaseException') or t in names for t in parts)


class PathEvents:
    """Typed command-line events of one path."""

    def __init__(self, path, args_value=None):
        self.p = path
        self.evs = []
        self.args = args_value
        handles = {}            # handle value -> OPEN event
        withs = {}              # id(With node) -> [OPEN events]
        loops = []              # stack of (LOOP event idx, For node, iterable)
        tries = []              # stack of Try nodes
        hex_names = {'bin2hex'}
        for i, ev in enumerate(path.events):
            k = ev[0]
            raw = ev[1] if k in ('value', 'expr', 'with') and isinstance(ev[1], tuple) else None
            v = strip(raw) if raw is not None else None
            ctx = dict(loops=list(loops), tries=list(tries))
            if k == 'loop':
                loops.append((i, ev[2], ev[1]))
            elif k == 'endloop':
                for j in range(len(loops) - 1, -1, -1):
                    if loops[j][1] is ev[2]:
                        del loops[j:]
                        break
            elif k == 'try':
                tries.append(ev[2])
            elif k in ('endtry', 'except'):
                if ev[2] in tries:
                    del tries[tries.index(ev[2]):]
                if k == 'except':
                    self.add('EXCEPT', i, ev[2], handler=ev[1], **ctx)
            elif k == 'swallowed':
                self.add('SWALLOWED', i, ev[2], handler=ev[1], **ctx)
            elif k == 'import' and re.search(r'\bbin2hex\s+as\s+(\w+)', ev[1]):
                hex_names.add(re.search(r'\bbin2hex\s+as\s+(\w+)', ev[1]).group(1))       # from intelhex import bin2hex as <alias>
                self.add('IMPORT', i, ev[2], text=ev[1], **ctx)
            elif k == 'import':
                self.add('IMPORT', i, ev[2], text=ev[1], **ctx)
            elif k == 'raise':
                self.add('FAIL', i, ev[2], exc=ev[1], **ctx)
            elif k == 'with' and is_open(v):
                path_v, mode = open_mode(v)
                if writes(mode):
                    e = self.add('OPEN', i, ev[2], path=path_v, mode=mode, handle=('ctx', raw), closed=None, **ctx)
                    handles[('ctx', raw)] = e
                    withs.setdefault(id(ev[2]), []).append(e)
            elif k == 'endwith':
                for e in withs.pop(id(ev[2]), []):
                    e.closed = i
                    self.add('CLOSE', i, ev[2], open=e, **ctx)
            elif k in ('value', 'expr') and is_open(v):
                path_v, mode = open_mode(v)
                if writes(mode):
                    e = self.add('OPEN', i, ev[2], path=path_v, mode=mode, handle=raw, closed=None, **ctx)
                    handles[raw] = e
            elif k in ('value', 'expr') and v[0] == 'call' and v[1] == 'assemble':
                self.add('ASM', i, ev[2], value=raw, pos=v[2], kw=dict(v[3]), **ctx)
            elif k in ('value', 'expr') and v[0] == 'call' and v[1].split('.')[-1] in hex_names:
                self.add('HEX', i, ev[2], pos=v[2], kw=dict(v[3]), **ctx)
            elif k in ('value', 'expr') and v[0] == 'call' and v[1] == 'print' and 'file' in dict(v[3]):
                h = dict(v[3])['file']
                if h in handles:
                    self.add('WRITE', i, ev[2], open=handles[h], method='print', args=v[2], kw=dict(v[3]), **ctx)
            elif k == 'mcall' or (k in ('value', 'expr') and v[0] == 'mcall'):
                recv, meth, args, kw, node = (ev[1], ev[2], ev[3], ev[4], ev[5]) if k == 'mcall' else (v[1], v[2], v[3], v[4], ev[2])
                if recv not in handles and isinstance(recv, tuple) and is_open(strip(recv)) and writes(open_mode(strip(recv))[1]):
                    # open(path, 'wb').write(data) / .close(): opened (so created or truncated), used and dropped in one expression
                    path_v, mode = open_mode(strip(recv))
                    e = self.add('OPEN', i, node, path=path_v, mode=mode, handle=recv, closed=i, **ctx)
                    if meth in ('write', 'writelines'):
                        self.add('WRITE', i, node, open=e, method=meth, args=args, kw=dict(kw), **ctx)
                    self.add('CLOSE', i, node, open=e, **ctx)
                elif meth in ('write', 'writelines'):
                    if recv in handles:
                        self.add('WRITE', i, node, open=handles[recv], method=meth, args=args, kw=dict(kw), **ctx)
                    else:
                        self.add('WRITE?', i, node, recv=recv, method=meth, args=args, **ctx)
                elif meth == 'close' and recv in handles:
                    handles[recv].closed = i
                    self.add('CLOSE', i, node, open=handles[recv], **ctx)
                elif meth in ('write_bytes', 'write_text'):
                    self.add('WRITE?', i, node, recv=recv, method=meth, args=args, **ctx)
            # conversions of user-supplied text that can fail: int(<something read from ARGS>)
            if k in ('value', 'expr', 'mcall', 'cond', 'return') and args_value is not None:
                terms = []
                for x in ev[1:-1]:
                    shallow_terms(x, lambda t: t[0] == 'call' and t[1] in ('int', 'float') and t[2] and contains(t[2][0], args_value), terms)
                for t in terms:
                    self.add('CONV', i, ev[-1], call=t, **ctx)

    def add(self, kind, idx, node, **data):
        e = CliEvent(kind, idx, node, **data)
        self.evs.append(e)
        return e

    def of(self, *kinds):
        return [e for e in self.evs if e.kind in kinds]


class CliModel:
    """Paths of cli_main with the option table and the typed events."""

    FLAGS = {'output': ('-o', '--output'), 'labels': ('-l', '--labels'), 'hex': ('--hex-offset',), 'compress': ('-c', '--compress'),
             'include': ('-i', '--include')}

    def __init__(self, facts, fn_name='cli_main'):
        fn = facts.funcs.get(fn_name)
        if fn is None:
            raise AnalysisError('anchor vanished: asm.{}'.format(fn_name))
        self.fn = fn
        MODULE_CONSTS.clear()
        MODULE_CONSTS.update({k: v for k, v in facts.consts.items() if isinstance(v, str)})
        self.walker = CliWalker(facts)
        self.paths = self.walker.run(fn.body, PathState())
        self.models = []
        for p in self.paths:
            args_value = None
            dest = {}
            for ev in p.events:
                if ev[0] == 'value' and strip(ev[1])[0] == 'mcall' and strip(ev[1])[2] == 'parse_args' and self.is_parser(strip(ev[1])[1]):
                    args_value = ev[1]
                if ev[0] == 'mcall' and ev[2] == 'add_argument' and self.is_parser(ev[1]):
                    flags = [a[1] for a in ev[3] if is_const(a) and isinstance(a[1], str)]
                    kw = dict(ev[4])
                    d = kw.get('dest')
                    if d is not None and is_const(d):
                        d = d[1]
                    else:
                        longs = [f for f in flags if f.startswith('--')]
                        shorts = [f for f in flags if f.startswith('-') and not f.startswith('--')]
                        d = (longs[0][2:] if longs else (shorts[0][1:] if shorts else (flags[0] if flags else None)))
                        d = d.replace('-', '_') if d else None
                    for f in flags:
                        dest[f] = d
            pe = PathEvents(p, args_value)
            pe.dest = dest
            self.models.append(pe)

    @staticmethod
    def is_parser(v):
        v = strip(v)
        return v[0] == 'call' and v[1].split('.')[-1] == 'ArgumentParser'

    def option(self, pe, role):
        """Symbolic value ARGS.<dest> of a documented option, or None when the path has no parsed arguments."""
        if pe.args is None:
            return None
        for f in self.FLAGS[role]:
            if f in pe.dest and pe.dest[f]:
                return ('attr', pe.args, pe.dest[f])
        raise AnalysisError('cli_main: option {} is not declared by an add_argument call the analysis understands'.format('/'.join(self.FLAGS[role])))


def given(path, opt):
    """True / False / None: was the option given (truthy) on this path?"""
    f = path.facts.get(opt)
    if not f:
        return None
    if f.get('truthy') is not None:
        return f['truthy']
    if f.get('eq') is not None and is_const(f['eq']):
        return bool(f['eq'][1])
    return None


def same_bytes(v, binary):
    """True: v is the assembled program itself; False: understood to be something else; None: not understood."""
    if v == binary:
        return True
    s = strip(v)
    if not isinstance(s, tuple) or not s:
        return None
    if s == strip(binary) and s is not v:
        # the same call value re-evaluated is a second assembly, not this one
        return None
    if s[0] == 'call' and s[1] in IDENTITY_BYTES and len(s[2]) == 1 and not s[3]:
        return same_bytes(s[2][0], binary)
    if s[0] == 'slice' and s[2] == C(None) and s[3] == C(None) and s[4] == C(None):
        return same_bytes(s[1], binary)
    if s[0] == 'ifexp':
        a, b = same_bytes(s[2], binary), same_bytes(s[3], binary)
        if a is True and b is True:
            return True
        if a is False and b is False:
            return False
        return None
    if is_const(s) or s[0] in ('call', 'bin', 'slice', 'mcall', 'list', 'tuple', 'fstr', 'new', 'dict', 'un'):
        return False
    return None
