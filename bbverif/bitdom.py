"""Bit-provenance abstract interpreter for bit plumbing (encoders, lookup_register, constraint closures, and every helper,
table and module-level constant they are written with).  Forward, flow-sensitive, join-at-merge, interprocedural by
inlining.  No solver, nothing of the analysed module is imported or executed.

Abstract values (bitcells.py)
  int / bool / None / str / list / dict        folded constants (tuples are lists)
  Param(p)                                      an encoder parameter nobody has looked at yet
  View(src, ch, add, shift, trunc)              ((orig(src) + delta_ch + add) >> shift) [mod 2**trunc]: a pure function of the operand
  Bits([b0, b1, ...])                           non-negative integer, bit i is 0, 1 or (src, j) = bit j of orig(src)
  CU32 / ModVal / XorVal                        c_uint32(v), x % k, bits ^ c waiting for their consumer
  Maybe(view, default)                          TABLE.get(spelling): the table value, or default when the spelling is no key
  FuncValue, Opaque, TableVal                   module / nested functions, values never looked into, "some entry of TABLE"

The accepted set of an operand is a partition of its original values into cells (lo, hi, m, r); each cell maps adjustment
channels to deltas (alias windows, sign extensions and `x - k` on one arm of a branch are piecewise-constant adjustments).
Values never change under rebinding or aliasing: assignments only bind names.

Modules: bitcells (values, cells, predicates), bitstate (state, module model, join), bitexpr (expressions), bitcall (calls,
tables, inlining), bitstmt (statements, tests).  This module assembles the interpreter and builds the Summary.
"""
import ast

from .core import AnalysisError
from .astutil import unparse
from .facts import Closure, Partial
from .bitcells import (Unsupported, Param, View, Bits, CU32, ModVal, Maybe, TableVal, Opaque, FuncValue, TOP, PCell, Cell, Obj, PartialValue,
                       merge_cells, INF)
from .bitstate import State, Joiner, model_of, UNIVERSE
from .bitexpr import ExprMixin
from .bitcall import CallMixin
from .bitstmt import StmtMixin
from .bitobj import ObjMixin
from .bitlin import LinMixin, Lin


class Interp(ExprMixin, CallMixin, StmtMixin, ObjMixin, LinMixin, Joiner):
    """One interpreter per binding; collects mask events, refusal sites and problems."""

    def __init__(self, facts):
        self.facts = facts
        self.model = model_of(facts)
        self.masks = []       # {'src','node','mask','shift','ch','cells','fn'}
        self.raises = []      # {'node','fn'}   fn = inlining chain
        self.overlaps = []
        self.problems = []
        self.extract = {}     # src -> [channel] through which bits of the operand were taken
        self.fn_stack = []
        self.def_stack = []
        self.rets = []
        self.nch = 0
        self.nfork = 0
        self.reg_tables = set()
        self.src_table = {}
        self.notes = set()
        self.letter_forms = {}          # parameter -> {'map': {letter: value}, 'distinct', 'how'} for letter-set spellings
        self.coerced = set()            # parameters that went through int(x, base=0)
        self.lookup_normalised = {}     # register parameter -> was it converted before its first table lookup


# ---------------------------------------------------------------------------------------------------------------
class Summary:
    """Closed form of one mnemonic binding: operand list, accepted sets, bit layout."""

    def __init__(self, name, encoder, params, state, result, interp):
        self.name = name
        self.encoder = encoder
        self.params = params              # positional parameters still open, in order
        self.operands = {}                # param -> [{'kind', 'src', 'cells', 'shift'}]
        self.always_refused = state is None
        self.result = result
        if isinstance(result, bool):
            result = int(result)
        self.bits = result.bits if isinstance(result, Bits) else (Bits.of_int(result).bits if isinstance(result, int) and result >= 0 else None)
        self.masks = interp.masks
        self.raises = interp.raises
        self.overlaps = interp.overlaps
        self.problems = list(interp.problems)
        self.notes = sorted(interp.notes)
        self.letter_forms = dict(interp.letter_forms)
        self.lookup_normalised = dict(interp.lookup_normalised)
        self.reg_tables = set(interp.reg_tables)       # tables the register operands of this binding are looked up in
        self.imprecise = (state.imprecise or state.forks != UNIVERSE) if state is not None else False
        top = {}
        for b in (self.bits or ()):
            if isinstance(b, tuple) and b[0] != 'overlap':
                top[b[0]] = max(top.get(b[0], -1), b[1])
        if state is not None:
            for src, pcells in state.cells.items():
                kind, p = src
                if state.lookup.get(src, 'hit') != 'hit' and kind == 'reg':
                    self.problems.append('operand {}: a spelling that is not a key of the register table is not refused'.format(p))
                # the bits in the word are bits of the ORIGINAL operand (bit_source guarantees it), so the adjustment that
                # describes the encoded value is a function of the original value and the encoded window alone, whatever
                # arithmetic the code used to get there
                cells = merge_cells([Cell(c.lo, c.hi, 0, c.m, c.r) for c in pcells])
                if src in top:
                    cells, lossy = canonical_window(cells, top[src] + 1)
                    if lossy:
                        self.imprecise = True
                shifts = [ev['shift'] for ev in self.masks if ev['src'] == src]
                self.operands.setdefault(p, []).append({'kind': kind, 'src': src, 'cells': cells,
                                                        'shift': min(shifts) if shifts else 0})
        for ev in self.masks:
            ev['top'] = top.get(ev['src'])
            ev['cells'] = []
            if state is not None:
                ev['cells'] = merge_cells([Cell(c.lo, c.hi, c.d[ev['ch']], c.m, c.r)
                                           for c in state.cells.get(ev['src'], []) if ev['ch'] in c.d])

    def const_mask_match(self, width):
        mask = match = 0
        for i in range(width):
            b = self.bits[i] if i < len(self.bits) else 0
            if b in (0, 1):
                mask |= 1 << i
                match |= b << i
        return mask, match

    def field_map(self):
        """{src: {operand bit j: [output positions]}}"""
        out = {}
        for i, b in enumerate(self.bits):
            if isinstance(b, tuple) and b[0] != 'overlap':
                out.setdefault(b[0], {}).setdefault(b[1], []).append(i)
        return out

    def accepted(self, param):
        infos = self.operands.get(param, [])
        return infos

    def describe(self):
        d = {'mnemonic': self.name, 'encoder': self.encoder, 'params': self.params, 'operands': {}}
        for p, infos in self.operands.items():
            d['operands'][p] = [{'kind': i['kind'], 'accepted': [repr(c) for c in i['cells']], 'shift': i['shift']} for i in infos]
        fm = self.field_map()
        d['layout'] = {'{}:{}'.format(*src): {str(j): pos for j, pos in sorted(m.items())} for src, m in fm.items()}
        if self.notes:
            d['notes'] = self.notes
        return d


def canonical_window(cells, K):
    """Canonical description of an accepted set whose operand bits 0..K-1 reach the word: encoded value = orig + delta with
    delta the multiple of 2**K that brings orig into the signed K-bit window when negative originals are accepted (a
    two's-complement field: [2**(K-1), 2**K - 1] then are alias spellings of negative values), into the unsigned window
    otherwise (x8..x15 -> 0..7).  No encoded bit can see a multiple of 2**K, and the description does not depend on how the
    code got there: a guard admitting [-2**(K-1), 2**K - 1] followed by a K-bit mask, an alias window `x -= 2**K` followed
    by the signed guard, and `x + 2**K if x < 0 else x` are the same function and get the same cells."""
    if not cells or any(c.lo <= -INF or c.hi >= INF for c in cells):
        return cells, False
    P = 1 << K
    half = (P >> 1) if min(c.lo for c in cells) < 0 else 0
    out = []
    lossy = False
    for c in cells:
        n_lo, n_hi = (c.lo + half) // P, (c.hi + half) // P
        if n_hi - n_lo > 256:
            out.append(c)
            lossy = True
            continue
        for n in range(n_lo, n_hi + 1):
            nc = Cell(max(c.lo, n * P - half), min(c.hi, n * P + P - half - 1), -n * P, c.m, c.r)
            if nc.lo <= nc.hi:
                out.append(nc)
    return merge_cells(out), lossy


def closure_value(interp, clo):
    """facts.Closure (NAME = factory(args) at module level, or factory(args) written inline in cs=[...]) -> FuncValue"""
    if clo.name != '<inline>' and interp.model.bind_count.get(clo.name):
        v = interp.module_value(clo.name)
    else:
        fac = interp.facts.funcs.get(clo.factory)
        if fac is None:
            raise Unsupported('unknown closure factory {}'.format(clo.factory))
        st = State()
        v = interp.run_function(FuncValue(fac), [x for x in clo.args], {}, st)
        if st.dead or st.cells:
            raise Unsupported('closure factory {} does not simply return a function'.format(clo.factory))
    if isinstance(v, Obj) and interp.find_member(v.cls.name, '__call__') is not None:
        if v.frozen is None:
            raise Unsupported('constraint object {} is not a module-level constant'.format(clo))
        return v
    if not isinstance(v, FuncValue):
        raise Unsupported('constraint {} is not a function'.format(clo))
    return v


def summarise_binding(facts, mnemonic, binding_name=None):
    """Abstractly interpret the encoder bound to `mnemonic` under its partial constants."""
    part = facts.partials[binding_name] if binding_name else facts.binding(mnemonic)
    interp = Interp(facts)
    st = State()
    # partial(partial(f, a=1), b=2): the innermost function with the keywords of the whole chain (outer ones win)
    chain = [part]
    while chain[-1].func in facts.partials and chain[-1].func not in facts.funcs:
        if len(chain) > 8:
            raise AnalysisError('partial bindings of {} form a cycle'.format(mnemonic))
        chain.append(facts.partials[chain[-1].func])
    bound = {}
    for p in reversed(chain):
        bound.update(p.kwargs)
    func_name = chain[-1].func
    try:
        fv = interp.module_value(func_name)
    except Unsupported as e:
        raise AnalysisError('encoder {} of {} not found: {}'.format(func_name, mnemonic, e))
    if not isinstance(fv, FuncValue) or isinstance(fv.fdef, ast.Lambda):
        raise AnalysisError('encoder {} of {} is not a function of the module'.format(func_name, mnemonic))
    fdef = fv.fdef
    pos = [a.arg for a in fdef.args.args]
    open_params = [p for p in pos if p not in bound]
    try:
        kwargs = {}
        for k, v in bound.items():
            if isinstance(v, list) and v and all(isinstance(x, Closure) for x in v):
                kwargs[k] = [closure_value(interp, x) for x in v]
            elif isinstance(v, tuple):
                kwargs[k] = list(v)
            else:
                kwargs[k] = v
        for p in open_params:
            kwargs[p] = Param(p)
        # optional keyword-only parameters (aq, rl) stay open operands as well - when the ISA form of the mnemonic has an operand
        # of that name; any other option with a default (a flag nobody passes: resolve_instructions hands over args() and aq= / rl=
        # only, see packrule) keeps its default
        from . import oracle as _oracle
        spec_ = _oracle.RV32.get(mnemonic) or _oracle.RVC.get(mnemonic)
        roles_ = {op['role'] for op in spec_['operands']} if spec_ else None
        for a, d in zip(fdef.args.kwonlyargs, fdef.args.kw_defaults):
            if a.arg not in kwargs and d is not None and a.arg != 'cs':
                if roles_ is not None and a.arg not in roles_ and len(open_params) >= len(spec_['operands']):
                    continue
                kwargs[a.arg] = Param(a.arg)
                open_params.append(a.arg)
        result = interp.run_function(fv, [], kwargs, st)
        dead = st.dead
        if not dead:
            if isinstance(result, (Param, View, ModVal, Maybe, Lin)):
                result = interp.to_bits(result, st, fdef)
            if not isinstance(result, (Bits, int)) or isinstance(result, bool):
                raise Unsupported('{} returns {} instead of an instruction word'.format(func_name, type(result).__name__))
        return Summary(mnemonic, func_name, open_params, None if dead else st, result if not dead else 0, interp)
    except Unsupported as e:
        raise AnalysisError('{} ({} via {}): construct outside the abstract domain: {}'.format(
            mnemonic, part.name, func_name, e))
    except RecursionError:
        raise AnalysisError('{} ({} via {}): construct outside the abstract domain: recursion too deep'.format(
            mnemonic, part.name, func_name))


def resolve_built_tables(facts):
    """Module-level dict tables produced by a call of a pure module function (REGISTERS = build_registers()) are evaluated by
    the interpreter and entered into the program model like dict literals, so that every engine reading facts.tables /
    facts.consts sees them.  Anything the interpreter does not understand is left alone."""
    if getattr(facts, '_bitdom_tables_done', False):
        return
    facts._bitdom_tables_done = True
    if not hasattr(facts, 'assign_nodes') or not hasattr(facts, 'tables'):
        return
    interp = None
    for name, node in list(facts.assign_nodes.items()):
        if name in facts.consts or name in facts.tables or name in facts.partials:
            continue
        if not (isinstance(node, ast.Assign) and isinstance(node.value, ast.Call) and isinstance(node.value.func, ast.Name)
                and node.value.func.id in facts.funcs):
            continue
        if interp is None:
            interp = Interp(facts)
        if not interp.model.stable(name):
            continue
        try:
            v = interp.module_value(name)
        except (AnalysisError, RecursionError):
            continue
        if isinstance(v, PartialValue) and v.func.cenv is None and facts.funcs.get(getattr(v.func.fdef, 'name', None)) is v.func.fdef \
                and all(isinstance(x, (int, str, type(None))) for x in v.kwargs.values()):
            # NAME = helper(...) where the helper returns partial(encoder, k=const, ...): a binding like any other
            facts.partials[name] = Partial(name, v.func.fdef.name, dict(v.kwargs), node)
            facts.closures.pop(name, None)
            continue
        if isinstance(v, dict) and v and all(isinstance(k, (int, str)) and not isinstance(k, bool) for k in v) \
                and all(isinstance(x, (int, str, type(None))) for x in v.values()):
            facts.tables[name] = dict(v)
            facts.consts[name] = dict(v)
            facts.table_nodes[name] = node
            facts.closures.pop(name, None)
            interp.model.values.pop(name, None)
