"""C16 - assembly is a pure, deterministic function of its inputs."""
import ast
import os

from ..core import Report, Finding, AnalysisError, VERIF_ROOT
from ..facts import Facts
from ..astutil import unparse, dotted, walk_no_nested
from ..callgraph import CallGraph
from .. import purity

LEVEL = 'other'
RULES = ['R16.1.module-state', 'R16.2.mutable-default', 'R16.2.function-state', 'R16.4.hash-order', 'R16.5.ambient', 'R16.5.cwd', 'R16.6.eval-sandbox']


def reachable(cg, entry):
    seen = set()
    todo = [entry]
    while todo:
        q = todo.pop()
        if q in seen or q not in cg.funcs:
            continue
        seen.add(q)
        for n in walk_no_nested(cg.funcs[q]):
            if isinstance(n, ast.Call):
                todo.extend(cg.callees(q, n))
        # nested closures are created inside and called through tables
        for cand, par in cg.parent.items():
            if par == q:
                todo.append(cand)
    return seen


def propagate_param_sets(cg, funcs, sets):
    """Parameters that receive a set-kinded argument at some call site are set-kinded in the callee (two rounds)."""
    purity.PARAM_SETS.clear()
    if cg is None:
        return
    for _ in range(2):
        for callee, sites in cg.call_sites().items():
            cfn = cg.funcs.get(callee)
            if cfn is None:
                continue
            params = [a.arg for a in cfn.args.args]
            for caller_fn, call in sites:
                offset = 1 if ('.' in callee and callee.split('.')[0] in cg.facts.classes and params and params[0] in ('self', 'cls')) else 0
                for i, a in enumerate(call.args):
                    if i + offset < len(params) and purity.set_kinded(a, caller_fn, sets):
                        purity.PARAM_SETS.setdefault(id(cfn), set()).add(params[i + offset])
                for kw in call.keywords:
                    if kw.arg in params and purity.set_kinded(kw.value, caller_fn, sets):
                        purity.PARAM_SETS.setdefault(id(cfn), set()).add(kw.arg)


def run_rules(tree, funcs, emit_for, cg=None):
    mut = purity.module_level_mutables(tree)
    sets = {k for k, v in mut.items() if v == 'set'}
    propagate_param_sets(cg, funcs, sets)
    for q, fn in funcs.items():
        purity.check_function(q, fn, mut, sets, lambda rule, node, msg, q=q: emit_for(q, rule, node, msg))


def getcwd_allowed(fn, node):
    """os.getcwd() only on the branch where the input is a source *string* (not an existing path)."""
    p = getattr(node, '_parent', None)
    child = node
    while p is not None and p is not fn:
        if isinstance(p, ast.If) and any(child is s or child in ast.walk(s) for s in p.orelse):
            t = unparse(p.test)
            if 'is_path' in t or 'os.path.exists' in t:
                return True
        child = p
        p = getattr(p, '_parent', None)
    return False


def run(repo, tier):
    facts = Facts(repo.asm)
    rep = Report('C16', LEVEL,
                 'Effect analysis over everything reachable from assemble() in the call graph: no write to module-level state at call '
                 'time (stores, deletes, mutating methods, aliases, ChainMap first-map position), no mutable default arguments, memo '
                 'decorators or function attributes, no iteration / materialisation of set-kinded values (hash-seed dependent order), no '
                 'ambient inputs (time, random, id, hash, environment, unsorted directory listings; cwd only on the source-string branch), '
                 'eval() with pinned builtins and per-call namespaces.  Each zero-instance rule is kept alive by a positive fixture that '
                 'must fire on every run.')
    rep.trusted_base = ['CPython ast', 'bbverif.callgraph resolution', 'determinism of CPython and struct']
    cg = CallGraph(facts)
    reach = reachable(cg, 'assemble')
    rep.analysed['functions reachable from assemble'] = len(reach)
    funcs = {q: cg.funcs[q] for q in sorted(reach)}
    hits = {}

    def emit(q, rule, node, msg):
        if rule == 'R16.5.cwd':
            if getcwd_allowed(cg.funcs[q], node):
                rep.ok('R16.5.cwd', '{}: os.getcwd() only when the input is a source string'.format(q))
                return
            msg = 'the working directory is consulted outside the source-string branch: results depend on where the process runs'
        hits.setdefault(rule, 0)
        hits[rule] += 1
        stmt = node
        while stmt is not None and not isinstance(stmt, ast.stmt) and getattr(stmt, '_parent', None) is not None:
            stmt = stmt._parent
        rep.fail(Finding(rule, q, stmt if isinstance(stmt, ast.AST) else node, msg, line=getattr(node, 'lineno', None)), instance='{} {}'.format(q, unparse(node)[:50]))
    run_rules(repo.asm, funcs, emit, cg)
    for rule in RULES:
        if rule not in hits:
            rep.ok(rule, 'no instance in the {} functions reachable from assemble()'.format(len(funcs)))
    # assemble: fresh dicts under `is not None` tests
    fn = facts.funcs['assemble']
    for name in ('constants', 'labels'):
        binds = [n for n in ast.walk(fn) if isinstance(n, ast.Assign) and any(isinstance(t, ast.Name) and t.id == name for t in n.targets)]
        ok = len(binds) == 1 and isinstance(binds[0].value, ast.IfExp) and isinstance(binds[0].value.orelse, ast.Dict) and not binds[0].value.orelse.keys \
            and unparse(binds[0].value.body) == name
        params = {a.arg: d for a, d in zip(fn.args.kwonlyargs, fn.args.kw_defaults)}
        dflt = params.get(name)
        ok = ok and isinstance(dflt, ast.Constant) and dflt.value is None
        rep.check(ok, 'R16.2.fresh', 'assemble: `{}` defaults to None and falls back to a fresh dict'.format(name),
                  lambda name=name: Finding('R16.2.fresh', 'assemble', binds[0] if binds else fn, 'the fallback for `{}` is not a fresh per-call dict'.format(name), line=fn.lineno))
    # module import does not depend on ambient inputs either
    mod_fn = ast.FunctionDef(name='<module>', args=ast.arguments(posonlyargs=[], args=[], kwonlyargs=[], kw_defaults=[], defaults=[]),
                             body=[s for s in repo.asm.body if not isinstance(s, (ast.FunctionDef, ast.ClassDef))], decorator_list=[])
    purity.check_function('<module>', mod_fn, {}, set(), lambda rule, node, msg: emit('<module>', rule, node, msg) if rule in ('R16.5.ambient', 'R16.4.hash-order') else None)
    # positive fixture: every rule must still be able to fire
    fx = os.path.join(VERIF_ROOT, 'fixtures', 'c16_impure.py')
    try:
        with open(fx) as f:
            ftree = ast.parse(f.read())
    except OSError as e:
        raise AnalysisError('positive fixture missing: {}'.format(e))
    for node in ast.walk(ftree):
        for ch in ast.iter_child_nodes(node):
            ch._parent = node
    fired = set()
    ffuncs = {st.name: st for st in ftree.body if isinstance(st, ast.FunctionDef)}
    run_rules(ftree, ffuncs, lambda q, rule, node, msg: fired.add(rule))
    missing = [r for r in RULES if r not in fired]
    if missing:
        raise AnalysisError('purity rules no longer fire on the positive fixture: {}'.format(missing))
    rep.analysed['rules alive on the positive fixture'] = len(fired)
    rep.sample({'reachable': sorted(reach)[:20], 'fixture_rules_fired': sorted(fired)})
    rep.floor('functions reachable from assemble', 120)
    rep.floor('rules alive on the positive fixture', len(RULES))
    return rep
