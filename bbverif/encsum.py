"""Encoder summaries for all mnemonic bindings + comparison against the oracle tables (shared by C01 C02 C06 C04 C12 C20)."""
from .core import AnalysisError, Finding
from .bitdom import summarise_binding, Cell, merge_cells, INF
from .bitcells import cells_overlap
from .bitdom import resolve_built_tables
from . import facts as _facts_module


def _hook_facts():
    """facts.py folds literal tables only; tables built by a pure helper are resolved right after the program model is
    constructed (should become a call at the end of Facts._collect)."""
    cls = _facts_module.Facts
    if getattr(cls, '_bitdom_hooked', False):
        return
    orig = cls.__init__

    def init(self, *args, **kwargs):
        orig(self, *args, **kwargs)
        resolve_built_tables(self)
    cls.__init__ = init
    cls._bitdom_hooked = True


_hook_facts()
from . import oracle

_cache = {}


class LazySummaries(dict):
    """mnemonic -> Summary, computed on first use (a mnemonic outside the oracle that nobody asks about is never interpreted)."""

    def __init__(self, facts):
        super().__init__()
        self.facts = facts

    def __missing__(self, m):
        if m not in self.facts.instructions():
            raise KeyError(m)
        self[m] = summarise_binding(self.facts, m)
        return self[m]

    def __contains__(self, m):
        return m in self.facts.instructions()

    def get(self, m, default=None):
        try:
            return self[m]
        except KeyError:
            return default

    def items(self):
        for m in self.facts.instructions():
            if oracle_spec(m) is not None:
                yield m, self[m]


def summary_of(report, sums, m):
    """Summary of one mnemonic, or None when its encoder left the abstract domain: the no-verdict is deferred (Report.undecided) so
    that a violation established for another mnemonic / by another rule of the same run is still reported."""
    try:
        return sums[m]
    except AnalysisError as e:
        report.undecided(str(e))
        return None


def all_summaries(facts):
    key = id(facts)
    if key not in _cache:
        _cache.clear()
        _cache[key] = LazySummaries(facts)
    return _cache[key]


def is_compressed_binding(facts, mnemonic):
    """A mnemonic is a 16-bit one when its table is consumed by a parse branch building a CompressedInstruction
    subclass; at encoder level we use the name prefix only as a cross-check (see wiring)."""
    return mnemonic.startswith('c.')


def oracle_spec(mnemonic):
    if mnemonic in oracle.RV32:
        return oracle.RV32[mnemonic]
    if mnemonic in oracle.RVC:
        return oracle.RVC[mnemonic]
    return None


def oracle_cells(op):
    """Accepted set of an oracle operand as canonical cells (orig interval, delta, congruence)."""
    delta = -8 if op['kind'] == 'regc' else 0
    cells = []
    lo = op['lo']
    for x in sorted(op['excl']):
        if lo <= x - 1:
            cells.append(Cell(lo, x - 1, delta, op['mult'], 0))
        lo = max(lo, x + 1)
    if lo <= op['hi']:
        cells.append(Cell(lo, op['hi'], delta, op['mult'], 0))
    for (alo, ahi, adelta) in op['alias']:
        # alias spellings map onto canonical values; exclusions apply to the canonical value
        a = alo
        for x in sorted(op['excl']):
            xo = x - adelta
            if alo <= xo <= ahi:
                if a <= xo - 1:
                    cells.append(Cell(a, xo - 1, adelta, op['mult'], 0))
                a = xo + 1
        if a <= ahi:
            cells.append(Cell(a, ahi, adelta, op['mult'], 0))
    return canon(cells)


def canon(cells):
    return [c.tup() for c in merge_cells(cells)]


def same_accepted_set(a, b, limit=1 << 16):
    """Do two families of canonical cells describe the same set of (operand value, adjustment) pairs?  The cell form is not unique
    (31 singletons with a congruence each are the interval [1, 31]); finite families are compared as sets."""
    if a == b:
        return True

    def members(cells):
        out = set()
        for (lo, hi, delta, m, r) in cells:
            if lo <= -INF or hi >= INF or (hi - lo) // max(m, 1) > limit:
                return None
            first = lo + ((r - lo) % m) if m > 1 else lo
            out.update((v, delta) for v in range(first, hi + 1, m))
            if len(out) > limit:
                return None
        return out
    ma, mb = members(a), members(b)
    return ma is not None and mb is not None and ma == mb


def show_cells(tups):
    return ' U '.join(repr(Cell(*t)) for t in tups) or '(empty)'


def derived_operand(summary, param):
    infos = summary.operands.get(param)
    if not infos:
        return None
    if len(infos) != 1:
        raise AnalysisError('{}: parameter {} interpreted both as register and as integer'.format(summary.name, param))
    return infos[0]


def current_values_range(cells):
    lo = min(c[0] + c[2] for c in cells)
    hi = max(c[1] + c[2] for c in cells)
    return lo, hi


def injectivity(summary):
    """List of (param, reason) for operands whose accepted values are not distinguished by the emitted bits.
    Decided on the derived closed form only (no oracle)."""
    problems = []
    fm = summary.field_map()
    for p in summary.params:
        info = derived_operand(summary, p)
        if info is None:
            problems.append((p, 'operand is never interpreted by the encoder'))
            continue
        cells = canon(info['cells'])
        if not cells:
            continue
        lo, hi = current_values_range(cells)
        if lo <= -INF or hi >= INF:
            problems.append((p, 'accepted set is unbounded ({}) but only finitely many bits are encoded'.format(show_cells(cells))))
            continue
        n_values = sum(((c[1] - c[0]) // c[3]) + 1 for c in cells)
        bitmap = fm.get(info['src'], {})
        if not bitmap:
            if n_values > 1:
                problems.append((p, 'operand accepts {} values but no bit of it reaches the word'.format(n_values)))
            continue
        js = sorted(bitmap)
        jmin, jmax = js[0], js[-1]
        if js != list(range(jmin, jmax + 1)):
            problems.append((p, 'encoded operand bits {} are not contiguous'.format(js)))
            continue
        # bits below jmin must be the same for all accepted current values
        low = 1 << jmin
        residues = set()
        for (clo, chi, delta, m, r) in cells:
            if m % low != 0:
                if clo == chi:
                    residues.add((clo + delta) % low)
                else:
                    residues.add(None)
            else:
                residues.add((r + delta) % low)
        if len(residues) != 1 or None in residues:
            problems.append((p, 'operand bits below bit {} are dropped although accepted values differ there'.format(jmin)))
            continue
        if hi - lo >= (1 << (jmax + 1)):
            problems.append((p, 'accepted values span [{}, {}] but only bits {}..{} are encoded: distinct operands share a word'.format(lo, hi, jmin, jmax)))
            continue
        # two accepted spellings with the same encoded value (cells whose images orig + delta overlap) share a word; that is
        # legitimate only for the alias windows the ISA tables declare (lui / auipc / c.lui unsigned spellings)
        declared = alias_windows(summary, p)
        images = [Cell(c[0] + c[2], c[1] + c[2], 0, c[3], (c[4] + c[2]) % c[3]) for c in cells]
        for i, a in enumerate(cells):
            if a[2] == 0:
                continue
            if any(w[0] <= a[0] and a[1] <= w[1] and w[2] == a[2] for w in declared):
                continue
            for k, b in enumerate(cells):
                if k != i and cells_overlap(images[i], images[k]):
                    problems.append((p, 'operands in {} and in {} are encoded alike: distinct operands share a word'.format(
                        show_cells([a]), show_cells([b]))))
                    break
    return problems


def alias_windows(summary, param):
    spec = oracle_spec(summary.name)
    if spec is None or len(spec['operands']) != len(summary.params):
        return []
    op = spec['operands'][summary.params.index(param)]
    return list(op.get('alias', []))


def compare_with_oracle(summary, spec):
    """Yield (aspect, message) mismatches between a derived summary and the oracle spec, encoder level."""
    width = spec['width']
    out = []
    if summary.bits is None:
        return [('result', 'encoder result is not a bit vector')]
    if len(summary.bits) > width:
        out.append(('width', 'encoding has bits above bit {}'.format(width - 1)))
    if summary.overlaps:
        i, x, y, node = summary.overlaps[0]
        out.append(('overlap', 'two fields are OR-ed onto instruction bit {} ({} and {})'.format(i, x, y)))
    for msg in getattr(summary, 'problems', ()):
        out.append(('operand', msg))
    out.extend(letter_form_mismatches(summary, spec))
    ops = spec['operands']
    if len(ops) != len(summary.params):
        out.append(('arity', 'encoder takes operands {} but the ISA form has {}'.format(summary.params, [o['role'] for o in ops])))
        return out
    expected = {}
    omask, omatch = oracle.fixed_mask_match(spec)
    for i in range(width):
        if (omask >> i) & 1:
            expected[i] = (omatch >> i) & 1
    srcs = {}
    for p, op in zip(summary.params, ops):
        info = derived_operand(summary, p)
        if info is None:
            out.append(('operand', 'operand {} ({}) is never interpreted by the encoder'.format(p, op['role'])))
            continue
        want_kind = 'reg' if op['kind'] in ('reg', 'regc') else 'imm'
        if info['kind'] != want_kind and not (op['kind'] == 'num5' and info['kind'] in ('reg', 'imm')):
            out.append(('kind', 'operand {} is interpreted as {} but the ISA role {} is {}'.format(p, info['kind'], op['role'], op['kind'])))
        srcs[p] = info['src']
        for j, pos in op['bits'].items():
            if pos in expected:
                raise AnalysisError('oracle table inconsistent for {}'.format(summary.name))
            expected[pos] = (info['src'], j)
        want = oracle_cells(op)
        got = canon(info['cells'])
        if not same_accepted_set(want, got):
            out.append(('accepted:' + p, 'operand {} ({}): accepted set is {} but the legal set is {}'.format(
                p, op['role'], show_cells(got), show_cells(want))))
    if len(expected) != width:
        raise AnalysisError('oracle table for {} does not cover all {} bits'.format(summary.name, width))
    cells_of = {}
    for p in summary.params:
        info = derived_operand(summary, p)
        if info is not None:
            cells_of[info['src']] = canon(info['cells'])
    for i in range(width):
        got = summary.bits[i] if i < len(summary.bits) else 0
        want = expected[i]
        # a symbolic operand bit that the accepted set forces to a constant *is* that constant
        if isinstance(got, tuple) and got[0] in cells_of and want in (0, 1) and forced_bit(cells_of[got[0]], got[1]) == want:
            continue
        if isinstance(want, tuple) and want[0] in cells_of and got in (0, 1) and forced_bit(cells_of[want[0]], want[1]) == got:
            continue
        if got != want:
            out.append(('bit', 'instruction bit {} is {} but the ISA puts {} there'.format(i, show_bit(got), show_bit(want))))
    return out


def forced_bit(cells, j):
    """0 / 1 when every accepted original value has that bit j (two's complement), else None."""
    vals = set()
    for (lo, hi, delta, m, r) in cells:
        if lo <= -INF or hi >= INF:
            return None
        if (lo >> j) != (hi >> j):
            return None
        vals.add((lo >> j) & 1)
    return vals.pop() if len(vals) == 1 else None


def show_bit(b):
    if b in (0, 1):
        return 'constant {}'.format(b)
    if isinstance(b, tuple) and b[0] == 'overlap':
        return 'an OR of {} and {}'.format(*b[1])
    (kind, p), j = b
    return '{}[{}]'.format(p, j)


def mask_after_guard(summary):
    """Structural rule: every mask that truncates an operand-derived value is covered by a range guard whose accepted
    interval fits the bits kept.  Stated over values, not statement order: the interval is the accepted set of the finished
    encoder (a guard refuses before the word is returned wherever it is written), and a mask that keeps bits up to
    position h (after the preceding shift) truncates nothing when the operand's higher bits reach the word through another
    extraction (a slice of a scattered immediate).  The top slice must see values within [-2**h, 2**(h+1) - 1]: inside the
    signed window the mask is the two's-complement encoding, the part above it is an alias window whose legality the
    accepted-set comparison decides.  Returns list of (mask event, message)."""
    out = []
    for ev in summary.masks:
        cells = canon(ev['cells'])
        if not cells:
            continue
        lo, hi = current_values_range(cells)
        k = ev['mask'].bit_length()
        if k == 0:
            continue
        h = ev['shift'] + k - 1
        if lo <= -INF or hi >= INF:
            out.append((ev, 'operand {} is masked to {} bits with no dominating range check (accepted set {})'.format(
                ev['src'][1], k, show_cells(cells))))
            continue
        top = ev.get('top')
        if top is not None and h < top:
            continue
        if (lo >> (h + 1)) == (hi >> (h + 1)):
            # the bits dropped above h are the same for every accepted value (x8..x15 & 7): nothing is merged; whether such
            # values are legal at all is the accepted-set comparison's business
            continue
        if not (lo >= -(1 << h) and hi <= (1 << (h + 1)) - 1):
            out.append((ev, 'operand {} with accepted range [{}, {}] (after >> {}) is masked to {} bits: values are wrapped'.format(
                ev['src'][1], lo, hi, ev['shift'], k)))
    return out


def enumerate_image(summary, width, limit=1 << 20):
    """All words the derived closed form can produce (used for the reverse direction of C02).  Unbounded operands are
    enumerated modulo the bits that reach the word."""
    fm = summary.field_map()
    const = 0
    for i, b in enumerate(summary.bits):
        if b == 1:
            const |= 1 << i
    per_operand = []
    for p in summary.params:
        info = derived_operand(summary, p)
        if info is None:
            continue
        bitmap = fm.get(info['src'], {})
        cells = canon(info['cells'])
        vals = set()
        jmax = max(bitmap) if bitmap else 0
        period = 1 << (jmax + 1)
        for (lo, hi, delta, m, r) in cells:
            if lo <= -INF or hi >= INF or (hi - lo) // m > 4 * period:
                # enumerate one full period of residues compatible with the congruence
                base = 0 if lo <= -INF else lo
                lo2 = base + ((r - base) % m)
                hi2 = lo2 + period * m
                if hi < INF:
                    hi2 = min(hi2, hi)
                rng = range(lo2, hi2 + 1, m)
            else:
                rng = range(lo, hi + 1, m)
            for v in rng:
                w = 0
                for j, poss in bitmap.items():
                    if (v >> j) & 1:
                        for pos in poss:
                            w |= 1 << pos
                vals.add(w)
        per_operand.append(sorted(vals))
    words = {const}
    for vals in per_operand:
        words = {w | v for w in words for v in vals}
        if len(words) > limit:
            raise AnalysisError('image of {} too large to enumerate'.format(summary.name))
    return words


def register_spellings_normalised(facts, mnemonics=None):
    """Is every register operand converted with int(., base=0) (hex / octal / binary spellings of the number) before it is
    looked up in the register table?  Decided on the interpreted encoders, wherever the conversion and the lookup are
    written (lookup_register, a helper, a method).  -> (True | False | None when no register operand was seen, [offenders])"""
    sums = all_summaries(facts)
    seen, bad = 0, []
    for m in (mnemonics if mnemonics is not None else [m for m in facts.instructions() if oracle_spec(m) is not None]):
        s = sums[m]
        for p, ok in getattr(s, 'lookup_normalised', {}).items():
            seen += 1
            if not ok:
                bad.append((m, p))
    if not seen:
        return None, []
    return not bad, bad


# FENCE access sets written with letters: RISC-V unprivileged ISA, ch. 2.7 "Memory Ordering Instructions": the predecessor /
# successor fields are PI PO PR PW (bits 27..24) and SI SO SR SW (bits 23..20), i.e. within each 4-bit set
# i (device input) = bit 3, o (device output) = bit 2, r (memory reads) = bit 1, w (memory writes) = bit 0.
FENCE_SET_LETTERS = {'i': 8, 'o': 4, 'r': 2, 'w': 1}


def letter_form_mismatches(summary, spec):
    """An operand that may also be spelled as a set of letters (fence iorw): the value each letter contributes must be the
    ISA's bit for it, letters must be counted once."""
    out = []
    forms = getattr(summary, 'letter_forms', {}) or {}
    if not forms:
        return out
    ops = spec['operands']
    roles = {p: op['role'] for p, op in zip(summary.params, ops)} if len(ops) == len(summary.params) else {}
    for p, form in forms.items():
        role = roles.get(p)
        if role not in ('succ', 'pred'):
            raise AnalysisError('{}: operand {} accepts letter spellings but the reference has no letter form for role {}'.format(
                summary.name, p, role))
        wrong = {l: v for l, v in form['map'].items() if FENCE_SET_LETTERS.get(l) != v}
        if wrong:
            out.append(('letters', 'operand {} ({}): written as letters, {} but the ISA access-set bits are {}: a letter set is '
                        'emitted as a different set than the same set written as a number'.format(
                            p, role, ', '.join('{!r} contributes {:#06b}'.format(l, v) for l, v in sorted(wrong.items())),
                            ', '.join('{}={:#06b}'.format(l, v) for l, v in FENCE_SET_LETTERS.items()))))
        elif form['how'] == 'sum' and not form['distinct']:
            out.append(('letters', 'operand {} ({}): written as letters, a repeated letter is added twice and spills into the '
                        'next bit'.format(p, role)))
    return out
