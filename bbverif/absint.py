"""A small abstract interpreter for bronzebeard/asm.py (nothing is executed: the syntax tree is interpreted over abstract values).

It is the engine behind C15: one interprocedural, flow-sensitive, context-sensitive (call summaries keyed by abstract arguments)
evaluation of `assemble()` over a domain that keeps exactly what the property talks about:

  * which *classes* of objects a value may be (class flow through the passes, isinstance / type refinement);
  * which *callables* a value may be (closures with their defining frame, functools.partial, bound methods, classes, entries of
    dispatch tables and of lists of (table, function) pairs, functions handed to higher-order helpers);
  * which exceptions may leave every statement, with the handlers they cross (try/except, and `with cm(...)` where cm is a
    @contextmanager generator whose body is try: yield / except ...);
  * a provenance *tag* on every object that carries a Line (the tag names the element of the item list being processed, the
    Line created at a site, the error caught by a handler ...), so that "the line attached is the right one" is a dataflow fact;
  * user text vs program text, user-sized integers vs masked / bounded ones (struct.pack, int());
  * a few path facts: constant refinement of names (`head == 'x'`, `name in TABLE`), token-list shape (head keyword, length),
    `f(x.F)` already returned normally on this path (so evaluating it again cannot raise).

States are bounded disjunctions of stores (split only on names that hold different string constants / None), loops over known
finite sequences are unrolled, all other loops are solved by iteration to a fixed point.  Everything the interpreter does not
understand and that matters for a verdict raises AnalysisError (exit 2): calls through unknown values, generators other than
context managers, mutation of item lists through aliases, ...
"""
import ast

from .core import AnalysisError
from .astutil import dotted, unparse

# ------------------------------------------------------------------------------------------------------------------------
# atoms
BOT = frozenset()
NONE = ('none',)
TOP = ('top',)
DATA = ('data',)          # some value that is not callable and has no repository class (result of eval() on user text ...)
EXT = ('ext',)            # value living in a trusted external library (logging, argparse ...): calls on it are not followed
BOOL = ('bool',)
BYTES = ('bytes',)
FLOAT = ('float',)
INT_S = ('int', 's')      # integer of program-controlled magnitude (constants, masked values, table entries)
INT_U = ('int', 'u')      # integer whose magnitude the user controls
STR_S = ('str', 's', None)
STR_U = ('str', 'u', None)

MAX_DISJUNCTS = 48
MAX_UNROLL = 72
MAX_CONST_STR = 40
MAX_CONST_INT = 12
MAX_STR_LEN = 96

BUILTIN_EXC_BASES = {
    'KeyError': 'LookupError', 'IndexError': 'LookupError', 'LookupError': 'Exception', 'ValueError': 'Exception',
    'UnicodeDecodeError': 'UnicodeError', 'UnicodeEncodeError': 'UnicodeError', 'UnicodeError': 'ValueError', 'TypeError': 'Exception',
    'AttributeError': 'Exception', 'struct.error': 'Exception', 'ZeroDivisionError': 'ArithmeticError', 'ArithmeticError': 'Exception',
    'OSError': 'Exception', 'IOError': 'Exception', 'FileNotFoundError': 'OSError', 'PermissionError': 'OSError', 'IsADirectoryError': 'OSError',
    'AssertionError': 'Exception', 'SyntaxError': 'Exception', 'NameError': 'Exception', 'Exception': 'BaseException',
    'SystemExit': 'BaseException', 'KeyboardInterrupt': 'BaseException', 'GeneratorExit': 'BaseException', 'RuntimeError': 'Exception',
    'NotImplementedError': 'RuntimeError', 'RecursionError': 'RuntimeError', 'OverflowError': 'ArithmeticError', 'StopIteration': 'Exception',
    'MemoryError': 'Exception', 'EOFError': 'Exception', 'ImportError': 'Exception', 'BaseException': None,
}
BUILTIN_TYPES = {'str', 'int', 'bytes', 'bytearray', 'bool', 'list', 'tuple', 'dict', 'set', 'frozenset', 'float', 'object', 'type'}
BUILTIN_FUNCS = {'len', 'isinstance', 'issubclass', 'getattr', 'hasattr', 'setattr', 'vars', 'enumerate', 'zip', 'range', 'sorted',
                 'reversed', 'min', 'max', 'sum', 'abs', 'any', 'all', 'ord', 'chr', 'repr', 'print', 'open', 'eval', 'divmod', 'map',
                 'filter', 'super', 'iter', 'next', 'id', 'format', 'hex', 'bin', 'oct', 'round', 'callable', 'hash', 'pow', 'exec',
                 'input', 'property', 'staticmethod', 'classmethod', 'NotImplemented', 'Ellipsis', '__import__'}
TRUSTED_MODULES = {'abc', 'argparse', 'copy', 'collections', 'ctypes', 'functools', 'logging', 'os', 're', 'struct', 'sys', 'contextlib',
                   'typing', 'itertools', 'enum', 'dataclasses', 'time', 'math', 'io', 'pathlib', 'string', 'operator', 'textwrap',
                   'types', 'warnings', 'codecs', 'binascii', 'shutil', 'glob', 'json'}


def const(v):
    if v is None:
        return NONE
    return ('c', type(v).__name__, v)


def is_const(a):
    return a[0] == 'c'


def is_key(a):
    """a value that can be an exact dict key for the analysis: a constant or a class (tables keyed by exception type)"""
    return a[0] == 'c' or a[0] == 'cls'


def av(*atoms):
    return frozenset(atoms)


def is_str_atom(a):
    return a[0] in ('str', 'tok') or (a[0] == 'c' and a[1] == 'str')


def is_int_atom(a):
    return a[0] in ('int', 'idx') or (a[0] == 'c' and a[1] in ('int', 'bool')) or a == BOOL


def str_taint(a):
    if a[0] == 'c':
        return 's'
    if a[0] == 'tok':
        return 'u'
    if a[0] == 'str':
        return a[1]
    return 'u'


def _merge_toks(a, b):
    heads = a[1] if a[1] == b[1] else None
    n = a[2] if a[2] == b[2] else None
    return ('toks', heads, n, a[3] | b[3])


def depth(val, limit=6):
    """nesting depth of container atoms (cut off at limit)"""
    best = 0
    for a in val:
        if a[0] in ('list', 'set'):
            d = 1 + (depth(a[1], limit - 1) if limit > 0 else 0)
        elif a[0] == 'dict':
            d = 1 + (depth(a[2], limit - 1) if limit > 0 else 0)
        elif a[0] == 'seq':
            d = 1 + max([depth(e, limit - 1) for e in a[2]] or [0]) if limit > 0 else 1
        elif a[0] == 'kdict':
            d = 1 + max([depth(e, limit - 1) for _, e in a[1]] or [0]) if limit > 0 else 1
        else:
            d = 0
        if d > best:
            best = d
    return best


def leaves(val, acc, _depth=0):
    for a in val:
        k = a[0]
        if k in ('list', 'set') and _depth < 8:
            leaves(a[1], acc, _depth + 1)
        elif k == 'seq' and _depth < 8:
            for e in a[2]:
                leaves(e, acc, _depth + 1)
        elif k == 'dict' and _depth < 8:
            leaves(a[2], acc, _depth + 1)
        elif k == 'kdict' and _depth < 8:
            for _, e in a[1]:
                leaves(e, acc, _depth + 1)
        else:
            acc.add(a)
    return acc


def flatten_deep(val):
    """containers nested deeper than the analysis follows become one list of everything found inside them"""
    out = set()
    for a in val:
        if a[0] in ('list', 'set', 'seq', 'dict', 'kdict') and depth(frozenset([a])) > 2:
            out.add(('list', normalise(frozenset(leaves(frozenset([a]), set())))))
        else:
            out.add(a)
    return normalise(frozenset(out))


def normalise(val):
    """Keep abstract values small: one summary list / dict / token list per value, bounded sets of constants."""
    if len(val) <= 1:
        return val
    if STR_S in val and any(a[0] == 'c' and a[1] == 'str' for a in val):
        val = frozenset(a for a in val if not (a[0] == 'c' and a[1] == 'str'))
    if INT_U in val:
        if INT_S in val or any(a[0] == 'c' and a[1] == 'int' for a in val):
            val = frozenset(a for a in val if not (a == INT_S or (a[0] == 'c' and a[1] == 'int')))
    elif INT_S in val and any(a[0] == 'c' and a[1] == 'int' for a in val):
        val = frozenset(a for a in val if not (a[0] == 'c' and a[1] == 'int'))
    lists = [a for a in val if a[0] == 'list']
    if lists:
        # a summary list absorbs the known sequences whose elements it already covers (keeps joins idempotent)
        cover = lists[0][1] if len(lists) == 1 else None
        if cover is not None:
            drop = [a for a in val if a[0] == 'seq' and len(a) == 3 and a[1] in ('list', 'tuple') and all(e <= cover for e in a[2])]
            if drop:
                val = frozenset(a for a in val if a not in drop)
                if len(val) <= 1:
                    return val
    dicts = [a for a in val if a[0] == 'dict']
    sets = [a for a in val if a[0] == 'set']
    toks = [a for a in val if a[0] == 'toks']
    seqs = [a for a in val if a[0] == 'seq' and len(a) == 3]
    kds = [a for a in val if a[0] == 'kdict']
    cstr = [a for a in val if a[0] == 'c' and a[1] == 'str']
    cint = [a for a in val if a[0] == 'c' and a[1] == 'int']
    if len(lists) <= 1 and len(dicts) <= 1 and len(sets) <= 1 and len(toks) <= 1 and len(seqs) <= 8 and len(kds) <= 1 \
            and len(cstr) <= MAX_CONST_STR and len(cint) <= MAX_CONST_INT:
        return val
    out = set(val)
    if len(kds) > 1:
        groups = {}
        for a in kds:
            groups.setdefault((tuple(k for k, _ in a[1]), a[2]), []).append(a)
        if len(groups) < len(kds):
            kds = []
            for (keys, marker), lst in groups.items():
                if len(lst) == 1:
                    kds.append(lst[0])
                    continue
                for a in lst:
                    out.discard(a)
                items = []
                for i, k in enumerate(keys):
                    v = BOT
                    for a in lst:
                        v = join(v, a[1][i][1])
                    items.append((k, v))
                m = ('kdict', tuple(items), marker)
                out.add(m)
                kds.append(m)
    if len(seqs) > 8:
        for a in seqs:
            out.discard(a)
        elem = BOT
        for a in seqs:
            for e in a[2]:
                elem = elem | e
        lists = lists + [('list', elem)]
    if len(lists) > 1 or (lists and lists[0] not in out):
        elem = BOT
        for a in lists:
            out.discard(a)
            elem = elem | a[1]
        out.add(('list', normalise(elem)))
    if len(kds) > 48:
        for a in kds:
            out.discard(a)
        keys, vals = set(), BOT
        for a in kds:
            for k, v in a[1]:
                keys.add(k)
                vals = vals | v
        dicts = dicts + [('dict', frozenset(keys), normalise(vals), BOT)]
    if len(dicts) > 1 or (dicts and dicts[0] not in out):
        keys, vals, kv = frozenset(), BOT, BOT
        for a in dicts:
            out.discard(a)
            keys = None if (keys is None or a[1] is None) else keys | a[1]
            vals = vals | a[2]
            kv = kv | a[3]
        out.add(('dict', keys, normalise(vals), normalise(kv)))
    if len(sets) > 1:
        elem = BOT
        for a in sets:
            out.discard(a)
            elem = elem | a[1]
        out.add(('set', normalise(elem)))
    if len(toks) > 1:
        m = toks[0]
        for a in toks:
            out.discard(a)
        for a in toks[1:]:
            m = _merge_toks(m, a)
        out.add(m)
    if len(cstr) > MAX_CONST_STR:
        for a in cstr:
            out.discard(a)
        out.add(STR_S)
    if len(cint) > MAX_CONST_INT:
        for a in cint:
            out.discard(a)
        out.add(INT_S)
    return frozenset(out)


def join(a, b):
    if a is b or not b:
        return a
    if not a:
        return b
    if b <= a:
        return a
    return normalise(a | b)


def map_tags(val, f, _depth=0):
    """apply f to the provenance tag of every Line-carrying object atom (recursively through containers)"""
    if _depth > 5:
        return val
    changed = False
    out = []
    for a in val:
        k = a[0]
        if k == 'obj':
            if a[2] is not None:
                t = f(a[2])
                if t != a[2]:
                    a = ('obj', a[1], t)
                    changed = True
        elif k in ('list', 'set'):
            e = map_tags(a[1], f, _depth + 1)
            if e is not a[1]:
                a = (k, e)
                changed = True
        elif k == 'seq':
            es = tuple(map_tags(e, f, _depth + 1) for e in a[2])
            if any(x is not y for x, y in zip(es, a[2])):
                a = ('seq', a[1], es)
                changed = True
        elif k == 'dict':
            e = map_tags(a[2], f, _depth + 1)
            if e is not a[2]:
                a = ('dict', a[1], e, a[3])
                changed = True
        elif k == 'kdict':
            es = tuple((kk, map_tags(e, f, _depth + 1)) for kk, e in a[1])
            if any(x[1] is not y[1] for x, y in zip(es, a[1])):
                a = ('kdict', es) + a[2:]
                changed = True
        out.append(a)
    return frozenset(out) if changed else val


def erase_tags(val):
    """objects stored into a summary container / a heap field lose the identity of the element they came from, tokens
    lose their position in the token list"""
    v = map_tags(val, lambda t: '*')
    if any(a[0] == 'tok' for a in v):
        # a token that may be the size the reader appended stays recognisable as such (its position is forgotten)
        v = frozenset((('str', 'u', 'maybe-size') if (a[4] and a[3] is not False and (a[1] is None or '?' in a[4] or (a[1] & a[4]))) else STR_U)
                      if a[0] == 'tok' else a for a in v)
    return v


def tags_of(val, _depth=0, acc=None):
    acc = set() if acc is None else acc
    if _depth > 5:
        return acc
    for a in val:
        k = a[0]
        if k == 'obj':
            if a[2] is not None:
                acc.add(a[2])
        elif k in ('list', 'set'):
            tags_of(a[1], _depth + 1, acc)
        elif k == 'seq':
            for e in a[2]:
                tags_of(e, _depth + 1, acc)
        elif k == 'dict':
            tags_of(a[2], _depth + 1, acc)
        elif k == 'kdict':
            for _, e in a[1]:
                tags_of(e, _depth + 1, acc)
    return acc


def tag_depth(t):
    d = 0
    while isinstance(t, tuple) and t and t[0] == 'ret':
        d += 1
        t = t[2]
    return d


# ------------------------------------------------------------------------------------------------------------------------
class Unreachable(Exception):
    """evaluation of an expression cannot complete normally (the callee never returns, the value is bottom)"""


class Store:
    __slots__ = ('vars', 'syms', 'facts', 'guards')

    def __init__(self, vars=None, facts=frozenset(), guards=frozenset(), syms=None):
        self.vars = vars if vars is not None else {}
        self.syms = syms if syms is not None else {}     # name -> symbolic identity of the value (field of a tagged object ...)
        self.facts = facts
        self.guards = guards

    def copy(self):
        return Store(dict(self.vars), self.facts, self.guards, dict(self.syms))

    def key(self):
        """discriminator: names holding exactly one string constant or None"""
        out = []
        for k, v in self.vars.items():
            if len(v) == 1:
                a = next(iter(v))
                if a == NONE or (a[0] == 'c' and a[1] == 'str'):
                    out.append((k, a))
                elif a[0] == 'kdict' and a[2] is not None:
                    out.append((k, a[2]))
                elif (a[0] == 'obj' and '@' in a[1]) or a[0] in ('fn', 'clo', 'partial', 'lam'):
                    out.append((k, a))
        return frozenset(out)

    def same(self, other):
        return self.vars == other.vars and self.facts == other.facts and self.guards == other.guards and self.syms == other.syms


def join_stores(stores):
    if len(stores) == 1:
        return stores[0]
    first = stores[0]
    vars_ = dict(first.vars)
    facts = first.facts
    guards = first.guards
    syms = dict(first.syms)
    for s in stores[1:]:
        for k in list(syms):
            if s.syms.get(k) != syms[k]:
                del syms[k]
        for k, v in s.vars.items():
            if k in vars_:
                if vars_[k] is not v:
                    vars_[k] = join(vars_[k], v)
            else:
                vars_[k] = v
        facts = facts & s.facts
        guards = guards & s.guards
    return Store(vars_, facts, guards, syms)


def merge_stores(stores):
    """bounded disjunction: stores are kept apart only when some name holds different string constants / None in them"""
    if len(stores) <= 1:
        return stores
    groups = {}
    order = []
    for s in stores:
        k = s.key()
        if k not in groups:
            groups[k] = []
            order.append(k)
        groups[k].append(s)
    if len(order) > MAX_DISJUNCTS:
        return [join_stores(stores)]
    # keys that are merely sub-descriptions of each other still denote different constants only if some name differs
    out = []
    merged = []
    for k in order:
        placed = False
        for i, (k2, lst) in enumerate(merged):
            d1, d2 = dict(k), dict(k2)
            if all(d1[n] == d2[n] for n in d1 if n in d2):
                # no name tells them apart
                merged[i] = (frozenset((n, d1[n]) for n in d1 if n in d2), lst + groups[k])
                placed = True
                break
        if not placed:
            merged.append((k, list(groups[k])))
    for _, lst in merged:
        out.append(join_stores(lst))
    return out


class Out:
    """outcomes of executing statements: stores per way of leaving"""
    __slots__ = ('next', 'brk', 'cont', 'ret', 'exc')

    def __init__(self):
        self.next, self.brk, self.cont, self.ret, self.exc = [], [], [], [], []

    def absorb(self, o, with_next=False):
        if with_next:
            self.next.extend(o.next)
        self.brk.extend(o.brk)
        self.cont.extend(o.cont)
        self.ret.extend(o.ret)
        self.exc.extend(o.exc)


class ExcRec:
    """an exception in flight: the abstract exception object, where it originated, the call chain from the current function"""
    __slots__ = ('atom', 'origin', 'chain', 'converted_from', 'implicit', 'uncertain', 'pfacts')

    def __init__(self, atom, origin, chain, converted_from=None, implicit=False, uncertain=False):
        self.atom, self.origin, self.chain, self.converted_from = atom, origin, chain, converted_from
        self.implicit = implicit      # stands for whatever the try body raises implicitly for this handler: never leaves it
        self.uncertain = uncertain    # raised only because a value is unknown to the analysis (not positively user controlled)
        self.pfacts = None            # path facts at the point of raising (what the failing call itself would have established does not hold)

    @property
    def cls(self):
        return self.atom[1]

    def key(self):
        return (self.atom, id(self.origin))

    def via(self, qual, node):
        return ExcRec(self.atom, self.origin, ((qual, node),) + self.chain, self.converted_from, self.implicit, self.uncertain)

    def retag(self, f):
        a = self.atom
        if a[2] is not None:
            t = f(a[2])
            if t != a[2]:
                return ExcRec(('obj', a[1], t), self.origin, self.chain, self.converted_from, self.implicit, self.uncertain)
        return self


class Summary:
    __slots__ = ('ret', 'excs', 'facts', 'pure', 'alts', 'hv', 'narrow')

    def __init__(self):
        self.narrow = {}       # parameter -> length its token list is known to have whenever the function returns normally
        self.hv = {}           # fields of identified objects on normal return (flow sensitive part of the heap)
        self.ret = BOT
        self.excs = {}
        self.facts = None      # must-facts gained on normal return (None = no normal return seen yet)
        self.pure = True
        self.alts = ()         # ((returned value, facts gained), ...) when the function returns different constants / objects
                               # with different facts: the caller continues with one disjunct per alternative

    def snapshot(self):
        return (self.ret, frozenset(self.excs), self.facts, self.pure, self.alts, frozenset(self.hv.items()), frozenset(self.narrow.items()))


class Scope:
    """static scoping facts of one function / lambda / module / class body"""

    def __init__(self, node):
        self.node = node
        self.params = []
        self.locals = set()
        self.nonlocals = set()
        self.globals = set()
        self.has_yield = False
        self.mutates_free = False
        self.reads = set()
        if isinstance(node, (ast.FunctionDef, ast.AsyncFunctionDef, ast.Lambda)):
            a = node.args
            for p in a.posonlyargs + a.args + a.kwonlyargs:
                self.params.append(p.arg)
            if a.vararg:
                self.params.append(a.vararg.arg)
            if a.kwarg:
                self.params.append(a.kwarg.arg)
            self.locals |= set(self.params)
            body = node.body if isinstance(node.body, list) else [node.body]
        else:
            body = node.body
        mutated = set()
        for st in body:
            self._scan(st, mutated)
        self.locals -= self.nonlocals | self.globals
        free_mut = {n for n in mutated if n not in self.locals}
        self.mutates_free = bool(self.nonlocals) or bool(free_mut)

    def _target(self, t):
        if isinstance(t, ast.Name):
            self.locals.add(t.id)
        elif isinstance(t, (ast.Tuple, ast.List)):
            for e in t.elts:
                self._target(e)
        elif isinstance(t, ast.Starred):
            self._target(t.value)

    def _scan(self, n, mutated):
        if isinstance(n, (ast.FunctionDef, ast.AsyncFunctionDef, ast.ClassDef)):
            self.locals.add(n.name)
            for d in n.decorator_list:
                self._scan(d, mutated)
            return
        if isinstance(n, ast.Lambda):
            return
        if isinstance(n, (ast.Yield, ast.YieldFrom)):
            self.has_yield = True
        if isinstance(n, ast.Nonlocal):
            self.nonlocals |= set(n.names)
        if isinstance(n, ast.Global):
            self.globals |= set(n.names)
        if isinstance(n, (ast.Assign,)):
            for t in n.targets:
                self._target(t)
                if isinstance(t, ast.Subscript) and isinstance(t.value, ast.Name):
                    mutated.add(t.value.id)
        if isinstance(n, ast.AugAssign):
            self._target(n.target)
            if isinstance(n.target, ast.Subscript) and isinstance(n.target.value, ast.Name):
                mutated.add(n.target.value.id)
        if isinstance(n, ast.NamedExpr):
            self._target(n.target)
        if isinstance(n, (ast.For, ast.AsyncFor)):
            self._target(n.target)
        if isinstance(n, ast.comprehension):
            self._target(n.target)
        if isinstance(n, (ast.With, ast.AsyncWith)):
            for it in n.items:
                if it.optional_vars is not None:
                    self._target(it.optional_vars)
        if isinstance(n, ast.ExceptHandler) and n.name:
            self.locals.add(n.name)
        if isinstance(n, (ast.MatchAs, ast.MatchStar)) and n.name:
            self.locals.add(n.name)
        if isinstance(n, ast.MatchMapping) and n.rest:
            self.locals.add(n.rest)
        if isinstance(n, ast.Import):
            for al in n.names:
                self.locals.add((al.asname or al.name).split('.')[0])
        if isinstance(n, ast.ImportFrom):
            for al in n.names:
                self.locals.add(al.asname or al.name)
        if isinstance(n, ast.Call) and isinstance(n.func, ast.Attribute) and isinstance(n.func.value, ast.Name) \
                and n.func.attr in ('append', 'extend', 'insert', 'update', 'add', 'remove', 'pop', 'clear', 'setdefault', 'discard', 'sort'):
            mutated.add(n.func.value.id)
        if isinstance(n, ast.Name) and isinstance(n.ctx, ast.Load):
            self.reads.add(n.id)
        for c in ast.iter_child_nodes(n):
            self._scan(c, mutated)


class Frame:
    def __init__(self, interp, qual, node, parent, fid, defcls=None):
        self.interp = interp
        self.qual = qual
        self.node = node
        self.parent = parent          # defining frame (closures) or None
        self.fid = fid
        self.defcls = defcls
        self.scope = interp.scope_of(node) if node is not None else None
        self.store = Store()
        self.tin = set()
        self.local_tags = set()
        self.pending = []             # exceptions raised while evaluating the current statement's expressions
        self.lazy_exc = {}            # name -> exceptions of a generator expression bound to it: they surface where the name is read
        self.handling = []            # stack of lists of ExcRec being handled (for bare `raise`)
        self.self_atoms = None
        self.yield_cb = None
        self.summary = None
        self.loop_depth = 0       # loops / comprehensions of this activation being executed
        self.call_alts = {}       # id(call node) -> alternatives of the most recent call there
        self.lookup_alts = {}     # id(lookup node) -> alternatives of a table lookup keyed by the head of a token list
        self.depth = 0

    def valid_tags(self):
        return self.tin | self.local_tags


class ClassInfo:
    def __init__(self, name, node, bases):
        self.name, self.node, self.bases = name, node, bases
        self.methods = {}
        self.attrs = {}
        self.decorators = {}
        self.record = None      # 'dataclass' / 'namedtuple'
        self.fields = None


class ClassTable(dict):
    """class name -> ClassInfo; an identified object's class `C@n` (object n created while the module was initialised) is C"""

    def __missing__(self, key):
        if isinstance(key, str) and '@' in key:
            return dict.__getitem__(self, key.split('@')[0])
        raise KeyError(key)

    def __contains__(self, key):
        if isinstance(key, str) and '@' in key:
            key = key.split('@')[0]
        return dict.__contains__(self, key)

    def get(self, key, default=None):
        if isinstance(key, str) and '@' in key:
            key = key.split('@')[0]
        return dict.get(self, key, default)


def base_class(name):
    return name.split('@')[0] if '@' in name else name


def is_flow_object(atom):
    """an object created once per activation of a function (not while the module is initialised): its attributes are tracked
    flow-sensitively in the stores, under keys ('$hv', object, attribute)"""
    return atom[0] == 'obj' and '@s' in atom[1]


def object_ids(val, acc, _depth=0):
    if _depth > 4:
        return acc
    for a in val:
        k = a[0]
        if k == 'obj':
            if '@s' in a[1]:
                acc.add(a[1])
        elif k in ('list', 'set'):
            object_ids(a[1], acc, _depth + 1)
        elif k == 'seq':
            for e in a[2]:
                object_ids(e, acc, _depth + 1)
        elif k == 'dict':
            object_ids(a[2], acc, _depth + 1)
        elif k == 'kdict':
            for _, e in a[1]:
                object_ids(e, acc, _depth + 1)
        elif k == 'bound' and isinstance(a[1], tuple) and a[1][0] == 'obj' and '@s' in a[1][1]:
            acc.add(a[1][1])
        elif k == 'partial':
            for e in a[2]:
                object_ids(e, acc, _depth + 1)
            for _, e in a[3]:
                object_ids(e, acc, _depth + 1)
    return acc


class Args:
    __slots__ = ('pos', 'star', 'kw', 'kwstar', 'marker', 'syms', 'names', 'kwstar_keys')

    def __init__(self, pos=None, star=None, kw=None, kwstar=None, marker=None, syms=None):
        self.names = {}           # position / keyword -> local name the argument was read from
        self.kwstar_keys = frozenset()   # keywords a **arg may supply (None: unknown)
        self.pos = pos or []
        self.star = star          # AVal of the elements of a *arg of unknown length
        self.kw = kw or {}
        self.kwstar = kwstar      # AVal of the values of a **arg with unknown keys
        self.marker = marker
        self.syms = syms or {}    # position / keyword -> sym


MUTATORS = {'append', 'extend', 'insert', 'update', 'add', 'remove', 'pop', 'clear', 'setdefault', 'discard', 'sort', 'reverse', 'popitem', 'appendleft', 'popleft', 'extendleft'}


def pos_of(node):
    if isinstance(node, ast.comprehension):
        node = node.target
    return (getattr(node, 'lineno', 0), getattr(node, 'col_offset', 0))


class Interp:
    def __init__(self, tree, relpath='bronzebeard/asm.py', line_class='Line', source_text=None):
        import sys
        self.source_text = source_text
        self._raw_classes = None
        if sys.getrecursionlimit() < 20000:
            sys.setrecursionlimit(20000)
        self.tree = tree
        self.relpath = relpath
        self.line_class = line_class
        self.scopes = {}
        self.classes = ClassTable()
        self.funcs = {}
        self.qual = {}
        self.defcls = {}
        self.decor = {}
        self.heap = {}
        self.attr_order = {}
        self.mutated_fields = set()
        self.mutating_classes = set()
        self.restart = False
        self.summaries = {}
        self.active = {}
        self.done = set()
        self.changed = False
        self.fid_table = {}
        self.frames = {}
        self.ctor_counter = 0
        self.ctor_info = {}
        self.round = 0
        self.why = []
        self.rec_hits = set()
        self.ctor_memo = {}
        self.gen_memo = {}
        self.call_depth = 0
        self.ev_store = {}
        self.caught_tbl = {}
        self.ev_handler = {}
        self.ev_line = {}
        self.ev_relabel = {}
        self.ev_origin = {}
        self.ev_discharge = {}
        self.ev_construct = {}
        self.ev_dead_branch = {}
        self.reached = set()
        self.reached_nodes = set()
        self.binding_atoms = set()
        self.unrefined_type_tests = set()
        self.decided_quantifiers = set()
        self.summary_depth = 0
        self.unroll_depth = 0
        self.unroll_index = []    # position in every enclosing unrolled loop / comprehension
        self.fn_attrs = {}
        self._rebinds = {}
        self.cached_results = {}
        self.dc_meta = {}         # (class, field) -> metadata of a dataclass field
        self.last_comp_facts = []
        self.approx_sites = set()  # constructions whose arguments came from a * / ** expansion of unknown shape
        self.arity_mismatch = {}  # call sites where some callee could not take the arguments
        self.call_edges = {}      # (caller, id(call site node)) -> functions the site was seen to call
        self.ident_counter = 0
        self.partition_unknown = False
        self._mro_cache, self._fm_cache, self._sub_cache = {}, {}, {}
        self._ex = {}
        self.in_module_init = True
        self._index(tree, '', None)
        self.module = Frame(self, '<module>', tree, None, 0)
        self.frames[0] = self.module
        self.module.store.vars['__name__'] = av(const('bronzebeard.asm'))
        self.module.store.vars['__file__'] = av(STR_S)
        self.in_module_init = True
        cur = [self.module.store]
        for st_ in tree.body:
            o_ = self.exec_block(self.module, [st_], cur)
            if not o_.next:
                if isinstance(st_, ast.If) and unparse(st_.test).replace('"', "'") == "__name__ == '__main__'":
                    continue
                raise self.err(st_, 'a module-level statement does not complete in the interpretation (`{}`)'.format(unparse(st_).split('\n')[0][:60]))
            cur = [join_stores(o_.next)]
        self.module.store = cur[0]
        self.in_module_init = False
        self._snapshot = (dict(self.heap), {k: list(v) for k, v in self.attr_order.items()}, dict(self.fn_attrs))
        # mnemonic bindings: module-level partial(...) objects (by name or inside a module-level table).  That the integer
        # such a binding returns fits its instruction width is the theorem of C01 / C02 (layout rules), taken as given here.
        self.binding_atoms = set()
        for v in self.module.store.vars.values():
            for a in v:
                if a[0] == 'partial':
                    self.binding_atoms.add(a)
                elif a[0] == 'kdict':
                    vals = [b for _, vv in a[1] for b in vv]
                    table = len(a[1]) >= 16 and all(b[0] in ('partial', 'fn', 'clo', 'lam') or (b[0] == 'obj' and '@' in b[1] and self.find_method(b[1], '__call__')[1])
                                                    for b in vals)
                    for b in vals:
                        if b[0] == 'partial' or table:
                            self.binding_atoms.add(b)

    # -- static structure ---------------------------------------------------------------------------------------------------
    def _index(self, node, prefix, cls):
        for ch in ast.iter_child_nodes(node):
            if isinstance(ch, (ast.FunctionDef, ast.AsyncFunctionDef)):
                q = prefix + ch.name
                self.funcs[q] = ch
                self.qual[id(ch)] = q
                self.defcls[id(ch)] = cls if isinstance(node, ast.ClassDef) else None
                self.decor[q] = {dotted(d) or (dotted(d.func) if isinstance(d, ast.Call) else None) for d in ch.decorator_list}
                self._index(ch, q + '.', None)
            elif isinstance(ch, ast.ClassDef):
                self._index(ch, prefix + ch.name + '.', ch.name)
            elif isinstance(ch, ast.Lambda):
                q = '{}<lambda:{}:{}>'.format(prefix, ch.lineno, ch.col_offset)
                self.funcs[q] = ch
                self.qual[id(ch)] = q
                self.defcls[id(ch)] = None
                self._index(ch, q + '.', None)
            else:
                self._index(ch, prefix, cls if isinstance(node, ast.ClassDef) else None)

    def scope_of(self, node):
        s = self.scopes.get(id(node))
        if s is None:
            s = self.scopes[id(node)] = Scope(node)
        return s

    def mro(self, cname):
        cname = base_class(cname)
        if not self.in_module_init:
            m = self._mro_cache.get(cname)
            if m is None:
                m = self._mro_cache[cname] = self._mro(cname)
            return m
        return self._mro(cname)

    def _mro(self, cname):
        out, seen = [], set()

        def go(c):
            if c in seen:
                return
            seen.add(c)
            out.append(c)
            ci = self.classes.get(c)
            if ci is not None:
                for b in ci.bases:
                    go(b)
        go(cname)
        return out

    def is_subclass(self, cname, base):
        cname = base_class(cname)
        if cname == base:
            return True
        if not self.in_module_init:
            k = (cname, base)
            r = self._sub_cache.get(k)
            if r is None:
                r = self._sub_cache[k] = self._is_subclass(cname, base)
            return r
        return self._is_subclass(cname, base)

    def _is_subclass(self, cname, base):
        for c in self.mro(cname):
            if c == base:
                return True
            if c not in self.classes:
                cur = c
                seen = set()
                while cur is not None and cur not in seen:
                    if cur == base:
                        return True
                    seen.add(cur)
                    cur = BUILTIN_EXC_BASES.get(cur)
        return base == 'object'

    def is_exception_class(self, cname):
        return self.is_subclass(cname, 'BaseException')

    def find_method(self, cname, name, after=None):
        cname = base_class(cname)
        if not self.in_module_init:
            k = (cname, name, after)
            r = self._fm_cache.get(k)
            if r is None:
                r = self._fm_cache[k] = self._find_method(cname, name, after)
            return r
        return self._find_method(cname, name, after)

    def _find_method(self, cname, name, after=None):
        m = self.mro(cname)
        if after is not None:
            if after in m:
                m = m[m.index(after) + 1:]
        for c in m:
            ci = self.classes.get(c)
            if ci is not None and name in ci.methods:
                return c, ci.methods[name]
        return None, None

    def find_class_attr(self, cname, name):
        for c in self.mro(base_class(cname)):
            ci = self.classes.get(c)
            if ci is not None and name in ci.attrs:
                return ci.attrs[name]
        return None

    def fid_for(self, key):
        f = self.fid_table.get(key)
        if f is None:
            f = self.fid_table[key] = len(self.fid_table) + 1
        return f

    def err(self, node, msg):
        return AnalysisError('{} ({}:{})'.format(msg, self.relpath, getattr(node, 'lineno', '?')))

    # -- names --------------------------------------------------------------------------------------------------------------
    def owner_frame(self, fr, name):
        """frame whose store holds a name visible from fr (None = module / builtins)"""
        f = fr
        first = True
        if isinstance(fr.node, ast.ClassDef) and name in fr.store.vars:
            return fr           # a class body sees the names it has bound so far
        while f is not None and f is not self.module:
            sc = f.scope
            if first and (name in sc.nonlocals or name in sc.globals):
                if name in sc.globals:
                    return self.module
            elif name in sc.locals and not isinstance(f.node, ast.ClassDef):
                return f
            first = False
            f = f.parent
        return self.module

    def lookup(self, fr, name, node=None):
        f = self.owner_frame(fr, name)
        if f is not self.module:
            v = f.store.vars.get(name)
            if v is None:
                raise self.err(node, 'name {!r} read before any binding the analysis has seen in {}'.format(name, f.qual))
            return v
        v = self.module.store.vars.get(name)
        if v is not None:
            return v
        if name in BUILTIN_EXC_BASES:
            return av(('cls', name))
        if name in BUILTIN_TYPES:
            return av(('cls', name))
        if name in BUILTIN_FUNCS:
            return av(('builtin', name))
        return av(TOP)      # a name the analysis cannot see (star import, injected global): using it as a callee is an error, as data it is unknown

    def sym_of_name(self, fr, name):
        f = self.owner_frame(fr, name)
        return f.store.syms.get(name)

    def bind(self, fr, name, val, sym=None):
        f = fr
        sc = fr.scope
        if sc is not None and name in sc.nonlocals:
            f = self.owner_frame(fr, name)
        elif sc is not None and name in sc.globals:
            f = self.module
        f.store.vars[name] = val
        if sym is not None:
            f.store.syms[name] = sym
        else:
            f.store.syms.pop(name, None)

    # -- statements ---------------------------------------------------------------------------------------------------------
    def exec_block(self, fr, stmts, stores):
        res = Out()
        cur = stores
        for st in stmts:
            if not cur:
                break
            nxt = []
            for s in cur:
                o = self.exec_stmt(fr, st, s)
                nxt.extend(o.next)
                res.absorb(o)
            cur = merge_stores(nxt)
        res.next = cur
        return res

    def flush(self, fr, out, store):
        """exceptions raised while evaluating the expressions of the current statement become outcomes"""
        if fr.pending:
            for rec in fr.pending:
                s_ = store.copy()
                if rec.pfacts is not None:
                    s_.facts = rec.pfacts & s_.facts
                    rec.pfacts = None
                out.exc.append((s_, rec))
            fr.pending = []

    def exec_stmt(self, fr, st, store):
        fr.store = store
        out = Out()
        self.reached_nodes.add(id(st))
        try:
            m = getattr(self, 'st_' + type(st).__name__, None)
            if m is None:
                raise self.err(st, 'statement {} is not modelled'.format(type(st).__name__))
            m(fr, st, store, out)
        except Unreachable:
            pass
        self.flush(fr, out, store)
        return out

    def st_Expr(self, fr, st, store, out):
        if isinstance(st.value, (ast.Yield, ast.YieldFrom)):
            return self.do_yield(fr, st, store, out)
        self.eval(fr, st.value)
        out.next.append(fr.store)

    def st_Pass(self, fr, st, store, out):
        out.next.append(store)

    def st_Global(self, fr, st, store, out):
        out.next.append(store)

    st_Nonlocal = st_Global

    def st_Delete(self, fr, st, store, out):
        if any(isinstance(t, ast.Subscript) for t in st.targets):
            store.facts = frozenset(f for f in store.facts if f[0] != 'in')
        out.next.append(store)

    def st_TypeAlias(self, fr, st, store, out):
        out.next.append(store)

    def st_Break(self, fr, st, store, out):
        out.brk.append(store)

    def st_Continue(self, fr, st, store, out):
        out.cont.append(store)

    def st_Import(self, fr, st, store, out):
        for al in st.names:
            top = al.name.split('.')[0]
            if al.asname:
                self.bind(fr, al.asname, av(('mod', al.name)))
            else:
                self.bind(fr, top, av(('mod', top)))
        out.next.append(store)

    def st_ImportFrom(self, fr, st, store, out):
        mod = st.module or ''
        for al in st.names:
            self.bind(fr, al.asname or al.name, self.module_attr(mod, al.name))
        out.next.append(store)

    def st_Assert(self, fr, st, store, out):
        ct, s_t, cf, s_f = self.cond(fr, st.test, store)
        if ct:
            out.next.append(s_t)

    def st_Return(self, fr, st, store, out):
        if st.value is not None:
            fr.call_alts.pop(id(st.value), None)
        if isinstance(st.value, ast.Call) and isinstance(st.value.func, ast.Name) and st.value.func.id == 'all' and len(st.value.args) == 1 \
                and not st.value.keywords and self.is_builtin_name(fr, 'all'):
            # `return all(...)`: what the elements established holds when the result is True
            facts0 = fr.store.facts
            v, gained = self.eval_all(fr, st.value)
            fr.store.facts = facts0
            t = {self.truth(a) for a in v}
            if gained and t & {'t', '?'} and t & {'f', '?'}:
                s_t = fr.store.copy()
                s_t.facts = facts0 | gained
                out.ret.append((s_t, av(const(True))))
                out.ret.append((fr.store, av(const(False))))
                return
            out.ret.append((fr.store, v))
            return
        if isinstance(st.value, ast.BoolOp) and self.boolean_typed(st.value):
            # `return a == b and all(...)`: True with what the conjuncts established, False without
            base = fr.store.facts
            ct, s_t, cf, s_f = self.cond(fr, st.value, fr.store.copy())
            if ct and cf and s_t.facts != s_f.facts:
                out.ret.append((s_t, av(const(True))))
                out.ret.append((s_f, av(const(False))))
                return
            if ct or cf:
                s_ = s_t if ct else s_f
                out.ret.append((s_, av(BOOL) if (ct and cf) else av(const(bool(ct)))))
            return
        v = av(NONE) if st.value is None else self.eval(fr, st.value)
        alts = fr.call_alts.pop(id(st.value), None) if isinstance(st.value, ast.Call) else None
        if alts:
            for (val, facts) in alts:
                s2 = fr.store.copy()
                s2.facts = fr.store.facts | facts
                out.ret.append((s2, val))
            return
        out.ret.append((fr.store, v))

    KNOWN_DECORATORS = ('abstractmethod', 'contextmanager', 'staticmethod', 'classmethod', 'property', 'lru_cache', 'cache', 'setter', 'getter',
                        'deleter', 'overload', 'final', 'override')

    def decorate(self, fr, st, atom):
        """value bound to a decorated function's name: decorators the analysis has a rule for leave the function in place
        (the rule is applied where it is called), every other decorator is called with the function, as Python does"""
        val = av(atom)
        for d in reversed(st.decorator_list):
            dn = dotted(d) or (dotted(d.func) if isinstance(d, ast.Call) else None) or ''
            if dn.split('.')[-1] in self.KNOWN_DECORATORS:
                continue
            dv = self.eval(fr, d)
            val = self.call_value(fr, dv, Args([val]), d)
            if not val:
                raise self.err(st, 'decorator {} never returns'.format(dn))
        return val

    def st_FunctionDef(self, fr, st, store, out):
        q = self.qual[id(st)]
        if fr is self.module or isinstance(fr.node, ast.ClassDef):
            atom = ('fn', q)
        else:
            atom = ('clo', q, fr.fid)
        val = self.decorate(fr, st, atom) if st.decorator_list else av(atom)
        self.bind(fr, st.name, val)
        out.next.append(fr.store)

    st_AsyncFunctionDef = st_FunctionDef

    def st_ClassDef(self, fr, st, store, out):
        bases = []
        for b in st.bases:
            d = dotted(b)
            if d is None:
                raise self.err(st, 'computed base class')
            bases.append(d.split('.')[-1] if d.split('.')[0] in ('abc', 'enum', 'typing') else d)
        ci = ClassInfo(st.name, st, bases)
        record = None
        if st.decorator_list:
            names = set()
            for d in st.decorator_list:
                n_ = (dotted(d) or (dotted(d.func) if isinstance(d, ast.Call) else None) or '?').split('.')[-1]
                if n_ not in ('dataclass', 'total_ordering', 'final'):
                    # an alias such as `record = dataclass(eq=False)`: what does the decorator expression evaluate to?
                    try:
                        dv = self.eval(fr, d)
                    except Unreachable:
                        dv = BOT
                    fr.pending = []
                    kinds = {a[1] for a in dv if a[0] == 'lib'}
                    if dv and len(kinds) == len(dv) and kinds <= {'dataclasses.dataclass', '<dataclass>'}:
                        n_ = 'dataclass'
                    elif dv and len(kinds) == len(dv) and kinds <= {'functools.total_ordering', 'typing.final'}:
                        n_ = 'final'
                names.add(n_)
            if names <= {'dataclass', 'total_ordering', 'final'}:
                record = 'dataclass' if 'dataclass' in names else None
            else:
                ci.decorators = names
        if 'NamedTuple' in bases:
            record = 'namedtuple'
            ci.bases = [b for b in bases if b != 'NamedTuple']
        self.classes[st.name] = ci
        cframe = Frame(self, st.name, st, fr, self.fid_for(('class', st.name)))
        cframe.store = Store()
        for b in st.body:
            if isinstance(b, (ast.FunctionDef, ast.AsyncFunctionDef)):
                ci.methods[b.name] = self.qual[id(b)]
                if any(((dotted(d) or (dotted(d.func) if isinstance(d, ast.Call) else None) or '').split('.')[-1]) not in self.KNOWN_DECORATORS
                       for d in b.decorator_list):
                    # a user-defined decorator: the class attribute is whatever it returns
                    v = self.decorate(cframe, b, ('fn', self.qual[id(b)]))
                    cframe.pending = []
                    del ci.methods[b.name]
                    ci.attrs[b.name] = v
                cframe.store.vars[b.name] = av(('fn', self.qual[id(b)]))
            elif isinstance(b, ast.Assign):
                try:
                    v = self.eval(cframe, b.value)
                except Unreachable:
                    v = BOT
                cframe.pending = []
                for t in b.targets:
                    if isinstance(t, ast.Name):
                        ci.attrs[t.id] = v
                        cframe.store.vars[t.id] = v
                        if len(v) == 1 and next(iter(v))[0] == 'fn' and next(iter(v))[1] in ci.methods.values():
                            ci.methods[t.id] = next(iter(v))[1]       # __str__ = describe
            elif isinstance(b, (ast.Expr, ast.Pass)):
                pass
            else:
                raise self.err(b, 'statement in a class body is not modelled')
        if record is not None:
            self.make_record_class(ci, record, st)
        self.bind(fr, st.name, av(('cls', st.name)))
        out.next.append(store)

    def boolean_typed(self, e):
        """syntactically a boolean: comparisons, not, all / any / isinstance calls, and / or of such"""
        if isinstance(e, ast.BoolOp):
            return all(self.boolean_typed(v) for v in e.values)
        if isinstance(e, ast.Compare):
            return True
        if isinstance(e, ast.UnaryOp) and isinstance(e.op, ast.Not):
            return True
        if isinstance(e, ast.Call) and isinstance(e.func, ast.Name) and e.func.id in ('all', 'any', 'isinstance', 'issubclass', 'hasattr', 'callable', 'bool'):
            return True
        if isinstance(e, ast.Constant) and isinstance(e.value, bool):
            return True
        return False

    def raw_class(self, name, lineno):
        """the class definition as written (annotations intact): the shared loader normalises `x: T` away"""
        if self._raw_classes is None:
            self._raw_classes = {}
            if self.source_text is not None:
                try:
                    raw = ast.parse(self.source_text)
                except SyntaxError:
                    raw = None
                if raw is not None:
                    for n in ast.walk(raw):
                        if isinstance(n, ast.ClassDef):
                            self._raw_classes.setdefault((n.name, n.lineno), n)
                            self._raw_classes.setdefault(n.name, n)
        return self._raw_classes.get((name, lineno)) or self._raw_classes.get(name)

    def record_fields(self, ci):
        """[(field, default source or None, is a constructor parameter)] of a dataclass / NamedTuple, inherited fields first"""
        if getattr(ci, 'fields', None) is not None:
            return ci.fields
        out = []
        for b in ci.bases:
            bi = self.classes.get(b)
            if bi is not None and getattr(bi, 'record', None):
                for f in self.record_fields(bi):
                    out = [x for x in out if x[0] != f[0]] + [f]
        raw = self.raw_class(ci.name, ci.node.lineno)
        if raw is None:
            raise self.err(ci.node, 'the fields of record class {} cannot be read (source text not available)'.format(ci.name))
        for b in raw.body:
            if isinstance(b, ast.AnnAssign) and isinstance(b.target, ast.Name):
                ann = unparse(b.annotation)
                if 'ClassVar' in ann:
                    continue
                default, init = None, True
                fname = b.target.id
                if b.value is not None:
                    val = ci.attrs.get(fname)
                    desc = [a for a in (val or ()) if a[0] == 'libobj' and a[1] == 'dcfield']
                    hidden = '__dc_{}_{}'.format(ci.name, fname)
                    if desc and len(desc) == len(val):
                        d0 = desc[0]
                        init = d0[4]
                        self.dc_meta[(ci.name, fname)] = d0[5]
                        if d0[2] is not None:
                            self.module.store.vars[hidden] = d0[2]
                            default = hidden
                            ci.attrs[fname] = d0[2]
                        elif d0[3] is not None:
                            self.module.store.vars[hidden] = d0[3]
                            default = hidden + '()'
                            del ci.attrs[fname]
                        else:
                            del ci.attrs[fname]
                    elif val is not None:
                        self.module.store.vars[hidden] = val
                        default = hidden
                    else:
                        default = unparse(b.value)
                out = [x for x in out if x[0] != fname] + [(fname, default, init)]
        ci.fields = out
        return out

    def make_record_class(self, ci, kind, st):
        ci.record = kind
        fields = self.record_fields(ci)
        if '__init__' in ci.methods:
            return
        params = ['self']
        body = []
        for name, default, init in fields:
            if init:
                params.append(name if default is None else '{}={}'.format(name, default))
                body.append('    self.{0} = {0}'.format(name))
            elif default is not None:
                body.append('    self.{} = {}'.format(name, default))
        if self.find_method(ci.name, '__post_init__')[1] is not None or '__post_init__' in ci.methods:
            body.append('    self.__post_init__()')
        src = 'def __init__({}):\n{}\n'.format(', '.join(params), '\n'.join(body) or '    pass')
        try:
            fn = ast.parse(src).body[0]
        except SyntaxError:
            raise self.err(st, 'cannot synthesise the constructor of record class {}'.format(ci.name))
        for n in ast.walk(fn):
            if hasattr(n, 'lineno'):
                n.lineno = n.end_lineno = st.lineno
        fn._parent = st
        q = ci.name + '.__init__'
        self.funcs[q] = fn
        self.qual[id(fn)] = q
        self.defcls[id(fn)] = ci.name
        self.decor[q] = set()
        ci.methods['__init__'] = q
        self._fm_cache.clear()

    def st_Assign(self, fr, st, store, out):
        fr.call_alts.pop(id(st.value), None)
        for t in st.targets:
            if isinstance(t, ast.Name):
                fr.lazy_exc.pop(t.id, None)
        if isinstance(st.value, ast.GeneratorExp) and len(st.targets) == 1 and isinstance(st.targets[0], ast.Name):
            # a generator expression is lazy: what its element / condition expressions raise is raised where the generator is
            # consumed (next(g), for .. in g, list(g) ...), not where it is created - a try around the creation catches nothing
            before = len(fr.pending)
            v = self.eval(fr, st.value)
            raised = fr.pending[before:]
            del fr.pending[before:]
            if raised:
                fr.lazy_exc[st.targets[0].id] = raised
        else:
            v = self.eval(fr, st.value)
        alts = fr.call_alts.pop(id(st.value), None) if isinstance(st.value, ast.Call) else None
        if alts and len(st.targets) == 1 and isinstance(st.targets[0], ast.Name):
            # the callee returns different constants / objects on paths with different facts: one disjunct per alternative
            base = fr.store
            for (val, facts) in alts:
                s2 = base.copy()
                s2.facts = base.facts | facts
                fr.store = s2
                self.assign(fr, st.targets[0], val, st)
                out.next.append(s2)
            return
        lalts = fr.lookup_alts.pop(id(st.value), None)
        if lalts and len(st.targets) == 1 and isinstance(st.targets[0], ast.Name):
            base = fr.store
            for (val, heads, vname) in lalts:
                s2 = base.copy()
                fr.store = s2
                self.assign(fr, st.targets[0], val, st)
                self.apply_head_alt(s2, vname, heads)
                out.next.append(s2)
            return
        sym = self.sym_of(fr, st.value)
        for t in st.targets:
            self.assign(fr, t, v, st, sym=sym, value_expr=st.value)
        if len(st.targets) == 1 and isinstance(st.targets[0], ast.Name) and 1 < len(v) <= MAX_DISJUNCTS \
                and all(a[0] == 'kdict' and a[2] is not None and a[2][0] == 'vars' for a in v) and self.owner_frame(fr, st.targets[0].id) is fr:
            # the attribute dict of an object of one of several classes: one disjunct per class (the class of every name
            # holding that same object is narrowed with it)
            name = st.targets[0].id
            for a in v:
                s2 = fr.store.copy()
                s2.vars[name] = av(a)
                _, cls, tag = a[2]
                if tag not in (None, '*', '?'):
                    for k2, v2 in list(s2.vars.items()):
                        if any(b[0] == 'obj' and b[2] == tag for b in v2):
                            s2.vars[k2] = frozenset(b for b in v2 if not (b[0] == 'obj' and b[2] == tag and b[1] != cls))
                out.next.append(s2)
            return
        out.next.append(fr.store)

    def st_AugAssign(self, fr, st, store, out):
        t = st.target
        if isinstance(t, ast.Name):
            load = ast.copy_location(ast.Name(id=t.id, ctx=ast.Load()), t)
        elif isinstance(t, ast.Attribute):
            load = ast.copy_location(ast.Attribute(value=t.value, attr=t.attr, ctx=ast.Load()), t)
        elif isinstance(t, ast.Subscript):
            load = ast.copy_location(ast.Subscript(value=t.value, slice=t.slice, ctx=ast.Load()), t)
        else:
            raise self.err(st, 'augmented assignment target')
        left = self.eval(fr, load)
        right = self.eval(fr, st.value)
        v = self.binop(fr, st.op, left, right, st)
        sym = None
        if isinstance(t, ast.Name) and isinstance(st.op, (ast.Add, ast.Sub)) and isinstance(st.value, ast.Constant) and type(st.value.value) is int:
            cur = self.sym_of_name(fr, t.id)
            if isinstance(cur, tuple) and cur and cur[0] == 'ctr':
                sym = ('ctr', cur[1], cur[2] + (st.value.value if isinstance(st.op, ast.Add) else -st.value.value))
        self.assign(fr, t, v, st, sym=sym)
        out.next.append(fr.store)

    def st_Raise(self, fr, st, store, out):
        if st.exc is None:
            if not fr.handling:
                raise self.err(st, 'bare raise outside a handler')
            recs = fr.handling[-1]
            h_ = store.vars.get('$handling')
            if h_:
                # narrowed by isinstance tests on the way here: only the exceptions that can still be the one being handled
                recs = [r for a in h_ if a[0] == 'caught' for r in self.recs_of(a)]
            for rec in recs:
                if not rec.implicit:
                    out.exc.append((store.copy(), rec))
            return
        v = self.eval(fr, st.exc)
        if st.cause is not None:
            self.eval(fr, st.cause)
        self.flush(fr, out, store)
        for a in v:
            if a[0] == 'cls':
                inst = self.construct(fr, a[1], Args(), st)
                self.flush(fr, out, store)
                for b in inst:
                    self.raise_atom(fr, b, st, store, out)
            elif a[0] == 'obj':
                self.raise_atom(fr, a, st, store, out)
            elif a[0] == 'caught':
                for rec in self.recs_of(a):
                    if not rec.implicit:
                        out.exc.append((store.copy(), rec))
            elif a == TOP:
                raise self.err(st, 'raise of an unknown value')

    def raise_atom(self, fr, atom, st, store, out):
        if not self.is_exception_class(atom[1]):
            return
        rec = ExcRec(atom, st, ((fr.qual, st),))
        if fr.handling:
            rec.converted_from = tuple(fr.handling[-1])
        self.ev_origin[id(st)] = (fr.qual, st, atom[1])
        out.exc.append((store.copy(), rec))

    def st_If(self, fr, st, store, out):
        ct, s_t, cf, s_f = self.cond(fr, st.test, store)
        self.flush(fr, out, store)
        if ct:
            o = self.exec_block(fr, st.body, [s_t])
            out.absorb(o, True)
        else:
            self.ev_dead_branch[id(st)] = (fr.qual, st, 'then')
        if cf:
            if st.orelse:
                o = self.exec_block(fr, st.orelse, [s_f])
                out.absorb(o, True)
            else:
                out.next.append(s_f)

    def st_While(self, fr, st, store, out):
        head = store
        exits = []
        for it in range(12):
            ct, s_t, cf, s_f = self.cond(fr, st.test, head.copy())
            self.flush(fr, out, head)
            if cf:
                exits.append(s_f)
            if not ct:
                break
            self.summary_depth += 1
            fr.loop_depth += 1
            try:
                o = self.exec_block(fr, st.body, [s_t])
            finally:
                self.summary_depth -= 1
                fr.loop_depth -= 1
            out.ret.extend(o.ret)
            out.exc.extend(o.exc)
            exits.extend(o.brk)
            back = o.next + o.cont
            if not back:
                break
            new = join_stores([head] + back)
            if new.same(head):
                break
            head = new
        else:
            raise self.err(st, 'while loop did not stabilise')
        if st.orelse:
            raise self.err(st, 'while/else is not modelled')
        out.next.extend(merge_stores(exits))

    def for_over_generator(self, fr, st, gen, out):
        """`for x in gen(...)`: the loop body runs at every yield of the generator's body, in the generator's own control
        flow (order and optionality of the yields are kept); the state of the loop travels inside the generator's state"""
        _, fnatom, bound, parent_fid = gen
        q = fnatom[1]
        fnnode = self.funcs[q]
        if gen in self.active:
            raise self.err(st, 'recursive generator {}'.format(q))
        parent = self.frames.get(parent_fid) if parent_fid else None
        g = Frame(self, q, fnnode, parent, self.fid_for(('gen', q, parent_fid, bound)), self.defcls.get(id(fnnode)))
        self.frames[g.fid] = g
        g.store = Store({k: self.brand(q, k, v) for k, v in bound})
        g.store.vars.update(self.reachable_hv(fr.store, [v for _, v in bound]))
        g.tin = set()
        for _, v in bound:
            tags_of(v, acc=g.tin)
        if parent is not None:
            g.tin |= parent.valid_tags()
        g.summary = Summary()
        g.depth = fr.depth + 1
        if g.defcls is not None and fnnode.args.args:
            g.self_atoms = dict(bound).get(fnnode.args.args[0].arg)
        self.reached.add(q)
        table, by_id = {}, {}

        def intern(s_):
            k_ = (frozenset(s_.vars.items()), s_.facts, s_.guards, frozenset(s_.syms.items()))
            i = table.get(k_)
            if i is None:
                i = table[k_] = len(table) + 1
                by_id[i] = s_
            return i
        g.store.vars['$consumer'] = av(('wstore', intern(fr.store.copy())))
        breaks = []

        def consumers(gs):
            lst = [by_id[a[1]].copy() for a in gs.vars.get('$consumer', ()) if a[0] == 'wstore']
            if not lst:
                return None
            c = join_stores(lst) if len(lst) > 1 else lst[0]
            for k_, v_ in gs.vars.items():
                if isinstance(k_, tuple):
                    c.vars[k_] = v_
            return c

        def at_yield(gfr, yst, gstore, gout, value):
            cin = consumers(gstore)
            if cin is None:
                return
            fr.store = cin
            self.assign(fr, st.target, self.fresh_elem(fr, value, st), st)
            fr.loop_depth += 1
            try:
                o = self.exec_block(fr, st.body, [cin])
            finally:
                fr.loop_depth -= 1
            out.ret.extend(o.ret)
            out.exc.extend(o.exc)
            breaks.extend(o.brk)
            back = o.next + o.cont
            if not back:
                return
            cout = join_stores(back)
            for k_ in [k_ for k_ in gstore.vars if isinstance(k_, tuple)]:
                del gstore.vars[k_]
            for k_, v_ in cout.vars.items():
                if isinstance(k_, tuple):
                    gstore.vars[k_] = v_
            gstore.vars['$consumer'] = av(('wstore', intern(cout)))
            gout.next.append(gstore)
        g.yield_cb = at_yield
        self.active[gen] = 1
        try:
            go = self.exec_block(g, fnnode.body, [g.store])
        finally:
            del self.active[gen]
        finals = []
        for s_ in go.next + [x[0] for x in go.ret]:
            c = consumers(s_)
            if c is not None:
                finals.append(c)
        valid = g.tin
        for (s_, rec) in go.exc:
            c = consumers(s_) or fr.store.copy()
            out.exc.append((c, rec.retag(lambda t: t if t in valid else self.ret_tag(st, t)).via(fr.qual, st)))
        finals = merge_stores(finals)
        if st.orelse and finals:
            o = self.exec_block(fr, st.orelse, finals)
            out.absorb(o)
            finals = o.next
        out.next.extend(merge_stores(finals + breaks))

    def st_For(self, fr, st, store, out):
        itv = self.eval(fr, st.iter)
        self.flush(fr, out, store)
        if len(itv) == 1 and next(iter(itv))[0] == 'gen':
            return self.for_over_generator(fr, st, next(iter(itv)), out)
        mode, elems = self.iteration(fr, itv, st.iter)
        if mode == 'exact' and len(elems) <= MAX_UNROLL:
            cur = [fr.store]
            breaks = []
            for ei_, e in enumerate(elems):
                if not cur:
                    break
                nxt = []
                for s in cur:
                    fr.store = s
                    self.assign(fr, st.target, self.fresh_elem(fr, e, st), st)
                    self.unroll_depth += 1
                    fr.loop_depth += 1
                    self.unroll_index.append(ei_)
                    try:
                        o = self.exec_block(fr, st.body, [s])
                    finally:
                        self.unroll_depth -= 1
                        fr.loop_depth -= 1
                        self.unroll_index.pop()
                    out.ret.extend(o.ret)
                    out.exc.extend(o.exc)
                    breaks.extend(o.brk)
                    nxt.extend(o.next + o.cont)
                cur = merge_stores(nxt)
            if st.orelse and cur:
                o = self.exec_block(fr, st.orelse, cur)
                out.absorb(o)
                cur = o.next
            out.next.extend(merge_stores(cur + breaks))
            return
        if mode == 'exact':
            e = BOT
            for x in elems:
                e = join(e, x)
            elems = e
        head = fr.store
        breaks = []
        if not elems:
            # nothing to iterate over
            if st.orelse:
                o = self.exec_block(fr, st.orelse, [head])
                out.absorb(o, True)
            else:
                out.next.append(head)
            return
        for it in range(16):
            s = head.copy()
            fr.store = s
            self.assign(fr, st.target, self.fresh_elem(fr, elems, st), st)
            self.summary_depth += 1
            fr.loop_depth += 1
            try:
                o = self.exec_block(fr, st.body, [s])
            finally:
                self.summary_depth -= 1
                fr.loop_depth -= 1
            out.ret.extend(o.ret)
            out.exc.extend(o.exc)
            breaks.extend(o.brk)
            back = o.next + o.cont
            if not back:
                break
            new = join_stores([head] + back)
            if new.same(head):
                break
            prev, head = head, new
        else:
            head = prev
            diff = [k for k in new.vars if head.vars.get(k) != new.vars[k]] if back else []
            raise self.err(st, 'for loop did not stabilise (names still changing: {})'.format(diff[:4]))
        if st.orelse:
            o = self.exec_block(fr, st.orelse, [head])
            out.absorb(o)
            out.next.extend(merge_stores(o.next + breaks))
        else:
            out.next.extend(merge_stores([head] + breaks))

    def fresh_elem(self, fr, val, node):
        """the element bound by an iteration: Line-carrying objects get the tag of this iteration"""
        tag = ('it',) + pos_of(node)
        used = []

        def f(t):
            used.append(t)
            return tag
        v = map_tags(val, f)
        if used:
            fr.local_tags.add(tag)
        return v

    def st_Try(self, fr, st, store, out):
        o = self.exec_block(fr, st.body, [store])
        res = Out()
        res.brk, res.cont, res.ret = o.brk, o.cont, o.ret
        normal = o.next
        if st.orelse and normal:
            o2 = self.exec_block(fr, st.orelse, normal)
            res.absorb(o2)
            normal = o2.next
        res.next = list(normal)
        inputs = [[] for _ in st.handlers]
        for (s, rec) in o.exc:
            caught = False
            for i, h in enumerate(st.handlers):
                fr.store = s
                how = self.handler_catches(fr, h, rec)
                if how:
                    inputs[i].append((s, rec))
                    self.ev_handler.setdefault((id(h), rec.key()), (fr.qual, h, rec, how))
                    if how == 'yes':
                        caught = True
                        break
            if not caught:
                res.exc.append((s, rec))
        for h, inp in zip(st.handlers, inputs):
            # the handler was written because the body can raise its type(s) in ways the analysis does not model (KeyError of
            # a table lookup, ValueError of an unpacking ...): its body is analysed for such an exception too; the stand-in
            # itself is caught right here and never propagates
            fr.store = store
            names = self.handler_type_names(fr, h)
            if names:
                base = join_stores([store] + list(o.next)) if o.next else store
                inp = inp + [(base.copy(), ExcRec(('obj', names[0], None), h, ((fr.qual, h),), implicit=True))]
            if not inp:
                continue
            s = join_stores([x[0] for x in inp])
            recs = []
            seen = set()
            for _, r in inp:
                if r.key() not in seen:
                    seen.add(r.key())
                    recs.append(r)
            fr.store = s
            self.caught_tbl[id(h)] = recs
            s.vars['$handling'] = av(('caught', id(h)))
            if h.name:
                self.bind(fr, h.name, av(('caught', id(h))))
            fr.handling.append(recs)
            try:
                oh = self.exec_block(fr, h.body, [s])
            finally:
                fr.handling.pop()
            self.check_relabel(fr, h, recs, oh)
            res.absorb(oh, True)
        if st.finalbody:
            fin = Out()
            for kind in ('next', 'brk', 'cont'):
                lst = getattr(res, kind)
                if lst:
                    of = self.exec_block(fr, st.finalbody, merge_stores(lst))
                    getattr(fin, kind).extend(of.next)
                    fin.absorb(of)
            for (s, v) in res.ret:
                of = self.exec_block(fr, st.finalbody, [s])
                fin.ret.extend((s2, v) for s2 in of.next)
                fin.absorb(of)
            for (s, rec) in res.exc:
                of = self.exec_block(fr, st.finalbody, [s])
                fin.exc.extend((s2, rec) for s2 in of.next)
                fin.absorb(of)
            res = fin
        out.absorb(res, True)

    def recs_of(self, a):
        """the exceptions a handler variable may hold (all the handler caught, or the part an isinstance test left)"""
        recs = self.caught_tbl.get(a[1], [])
        if len(a) > 2:
            recs = [r for r in recs if r.key() in a[2]]
        return recs

    def handler_type_names(self, fr, h):
        if h.type is None:
            return ['Exception']
        try:
            tv = self.eval(fr, h.type)
        except Unreachable:
            return []
        names = []
        for a in tv:
            if a[0] == 'cls':
                names.append(a[1])
            elif a[0] == 'seq':
                for e in a[2]:
                    for b in e:
                        if b[0] == 'cls':
                            names.append(b[1])
        return sorted(names)

    def handler_catches(self, fr, h, rec):
        if h.type is None:
            return 'yes'
        tv = self.eval(fr, h.type)
        names = []
        for a in tv:
            if a[0] == 'cls':
                names.append(a[1])
            elif a[0] == 'seq':
                for e in a[2]:
                    for b in e:
                        if b[0] == 'cls':
                            names.append(b[1])
                        elif b == TOP:
                            raise self.err(h, 'handler type is not understood')
            elif a == TOP:
                raise self.err(h, 'handler type is not understood')
        res = None
        for n in names:
            if self.is_subclass(rec.cls, n):
                return 'yes'
            if self.is_subclass(n, rec.cls):
                res = 'maybe'
        return res

    def check_relabel(self, fr, h, recs, oh):
        """a handler that catches an error which already names its line and raises a *new* one naming another line"""
        carried = [r for r in recs if r.atom[2] is not None]
        if not carried:
            return
        for (s, new) in oh.exc:
            if any(new is r or (new.origin is r.origin and new.atom == r.atom) for r in recs):
                continue
            if new.atom[2] is None:
                continue
            for r in carried:
                if new.atom[2] == ('caught', id(h)):
                    continue
                if new.atom[2] != r.atom[2] or r.atom[2] in ('*', '?'):
                    k_ = (id(h), id(new.origin))
                    cur = self.ev_relabel.get(k_)
                    # keep the instance whose two lines are both known, if there is one
                    if cur is None or ((cur[2].atom[2] in ('*', '?') or cur[3].atom[2] in ('*', '?')) and new.atom[2] not in ('*', '?') and r.atom[2] not in ('*', '?')):
                        self.ev_relabel[k_] = (fr.qual, h, new, r)

    # -- structural pattern matching --------------------------------------------------------------------------------------------
    def st_Match(self, fr, st, store, out):
        subj = self.eval(fr, st.subject)
        self.flush(fr, out, store)
        sname = st.subject.id if isinstance(st.subject, ast.Name) and self.owner_frame(fr, st.subject.id) is fr else None
        remaining = [fr.store]
        for case in st.cases:
            nxt = []
            for s in remaining:
                fr.store = s
                sv = s.vars.get(sname, subj) if sname else subj
                yes, no, binds = self.match_pattern(fr, case.pattern, sv)
                if yes:
                    s_m = s.copy() if no else s
                    if sname:
                        s_m.vars[sname] = yes
                    for k, v in binds.items():
                        fr.store = s_m
                        self.bind(fr, k, v)
                    if case.guard is not None:
                        ct, s_t, cf, s_f = self.cond(fr, case.guard, s_m)
                        self.flush(fr, out, s_m)
                        if ct:
                            o = self.exec_block(fr, case.body, [s_t])
                            out.absorb(o, True)
                        if cf:
                            if sname:
                                s_f.vars[sname] = sv
                            nxt.append(s_f)
                    else:
                        o = self.exec_block(fr, case.body, [s_m])
                        out.absorb(o, True)
                if no:
                    if sname:
                        s.vars[sname] = no
                    nxt.append(s)
            remaining = merge_stores(nxt)
            if not remaining:
                break
        out.next.extend(remaining)

    def match_pattern(self, fr, pat, val):
        """(part of the value that may match, part that may not, {name: value bound when it matches})"""
        if isinstance(pat, ast.MatchAs):
            if pat.pattern is None:
                return val, BOT, ({pat.name: val} if pat.name else {})
            yes, no, binds = self.match_pattern(fr, pat.pattern, val)
            if pat.name and yes:
                binds = dict(binds)
                binds[pat.name] = yes
            return yes, no, binds
        if isinstance(pat, ast.MatchOr):
            yes, binds = BOT, {}
            no = val
            for p in pat.patterns:
                y, n, b = self.match_pattern(fr, p, no if no else val)
                yes = join(yes, y)
                no = n if no else BOT
                for k, v in b.items():
                    binds[k] = join(binds.get(k, BOT), v)
            return yes, no, binds
        if isinstance(pat, (ast.MatchValue, ast.MatchSingleton)):
            if isinstance(pat, ast.MatchSingleton):
                c = NONE if pat.value is None else const(pat.value)
            else:
                cv = self.eval(fr, pat.value)
                if len(cv) != 1 or not (is_const(next(iter(cv))) or next(iter(cv)) == NONE):
                    return val, val, {}
                c = next(iter(cv))
            yes, no = set(), set()
            for a in val:
                r = self.eq_atom(a, c, isinstance(pat, ast.MatchSingleton))
                if r in ('t', '?'):
                    yes.add(c if r == '?' and (is_str_atom(a) or is_int_atom(a) or a in (TOP, DATA)) else a)
                if r in ('f', '?'):
                    no.add(a)
            return frozenset(yes), frozenset(no), {}
        if isinstance(pat, ast.MatchSequence):
            return self.match_sequence(fr, pat, val)
        if isinstance(pat, ast.MatchClass):
            names = self.class_names(fr, self.eval(fr, pat.cls), pat)
            yes, no = self.partition_type(val, names)
            if pat.patterns:
                raise self.err(pat, 'positional sub-patterns of a class pattern are not modelled')
            binds = {}
            for attr, sp in zip(pat.kwd_attrs, pat.kwd_patterns):
                av_ = self.load_attr(fr, yes, attr, pat)
                y, n, b = self.match_pattern(fr, sp, av_)
                if not y:
                    return BOT, val, {}
                if n:
                    no = join(no, yes)
                binds.update(b)
            return yes, no, binds
        raise self.err(pat, 'pattern {} is not modelled'.format(type(pat).__name__))

    def match_sequence(self, fr, pat, val):
        pats = pat.patterns
        star = [i for i, p in enumerate(pats) if isinstance(p, ast.MatchStar)]
        star = star[0] if star else None
        n = len(pats)
        yes, no = set(), set()
        binds = {}

        def sub(elems, rest):
            """match the element patterns against per-position values; returns (may match, may fail)"""
            may_fail = False
            local = {}
            k = 0
            for i, p in enumerate(pats):
                if isinstance(p, ast.MatchStar):
                    if p.name:
                        local[p.name] = rest
                    continue
                e = elems[k]
                k += 1
                if not e:
                    return False, True, {}
                y, nn, b = self.match_pattern(fr, p, e)
                if not y:
                    return False, True, {}
                if nn:
                    may_fail = True
                local.update(b)
            return True, may_fail, local
        for a in val:
            k = a[0]
            if k == 'seq' and a[1] in ('list', 'tuple'):
                es = a[2]
                if (star is None and len(es) != n) or (star is not None and len(es) < n - 1):
                    no.add(a)
                    continue
                if star is None:
                    elems, rest = list(es), None
                else:
                    after = n - 1 - star
                    elems = list(es[:star]) + list(es[len(es) - after:] if after else [])
                    rest = av(('seq', 'list', tuple(es[star:len(es) - after])))
                ok, mf, b = sub(elems, rest)
            elif k == 'toks':
                heads, cnt, sz = a[1], a[2], a[3]
                if star is None:
                    if cnt is not None and cnt != n:
                        no.add(a)
                        continue
                    elems = [av(('tok', heads, i, i == n - 1, sz)) for i in range(n)]
                    rest = None
                    matched = ('toks', heads, n, sz)
                    certain_len = cnt == n
                else:
                    if cnt is not None and cnt < n - 1:
                        no.add(a)
                        continue
                    after = n - 1 - star
                    elems = [av(('tok', heads, i, False, sz)) for i in range(star)] + [av(('tok', heads, None, j == after - 1, sz)) for j in range(after)]
                    rest = av(('list', av(('tok', heads, None, None, sz))))
                    matched = a
                    certain_len = cnt is not None
                ok, mf, b = sub(elems, rest)
                if ok:
                    yes.add(matched)
                    for kk, vv in b.items():
                        binds[kk] = join(binds.get(kk, BOT), vv)
                if mf or not ok or not certain_len:
                    no.add(a)
                continue
            elif k in ('list', 'lines'):
                e = a[1] if k == 'list' else av(('str', 'u', ('elem', a)))
                if not e and n - (1 if star is not None else 0) > 0:
                    no.add(a)
                    continue
                cnt = n - (1 if star is not None else 0)
                ok, mf, b = sub([e] * cnt, av(('list', e)))
                mf = True
            elif a == TOP:
                yes.add(a)
                no.add(a)
                for p in pats:
                    for nm in ast.walk(p):
                        if isinstance(nm, (ast.MatchAs, ast.MatchStar)) and nm.name:
                            binds[nm.name] = join(binds.get(nm.name, BOT), av(TOP))
                continue
            else:
                no.add(a)       # strings, mappings, objects ... are not sequences for a sequence pattern
                continue
            if ok:
                yes.add(a)
                for kk, vv in b.items():
                    binds[kk] = join(binds.get(kk, BOT), vv)
            if mf or not ok:
                no.add(a)
        return frozenset(yes), frozenset(no), binds

    def st_With(self, fr, st, store, out):
        self.exec_with(fr, st, 0, store, out)

    def exec_with(self, fr, st, idx, store, out):
        if idx >= len(st.items):
            o = self.exec_block(fr, st.body, [store])
            out.absorb(o, True)
            return
        item = st.items[idx]
        fr.store = store
        v = self.eval(fr, item.context_expr)
        self.flush(fr, out, store)
        ctxs = [a for a in v if a[0] == 'ctx']
        others = frozenset(a for a in v if a[0] != 'ctx')
        if ctxs and others:
            raise self.err(st, 'with statement over a mix of context managers')
        if not ctxs:
            objs = [a for a in others if a[0] == 'obj' and a[1] in self.classes]
            if objs:
                if len(objs) != len(others):
                    raise self.err(st, 'with statement over a mix of context managers')
                self.run_class_ctx(fr, st, idx, frozenset(objs), store, out)
                return
            for a in others:
                if a == TOP:
                    raise self.err(st, 'with statement over an unknown value')
            if item.optional_vars is not None:
                self.assign(fr, item.optional_vars, v, st)
            self.exec_with(fr, st, idx + 1, fr.store, out)
            return
        for a in ctxs:
            self.run_ctx(fr, st, idx, a, store.copy(), out)

    def run_class_ctx(self, fr, st, idx, objs, store, out):
        """`with obj: body` for an instance of a repository class: __enter__, the body, then __exit__(type, value, tb) for every
        way the body ends; a true result of __exit__ swallows the exception, an exception raised in __exit__ replaces it"""
        item = st.items[idx]
        for a in objs:
            if self.find_method(a[1], '__enter__')[1] is None or self.find_method(a[1], '__exit__')[1] is None:
                raise self.err(st, 'with statement over an instance of {} which has no __enter__ / __exit__'.format(a[1]))
        fr.store = store
        entered = self.call_value(fr, self.load_attr(fr, objs, '__enter__', st), Args(), st)
        self.flush(fr, out, store)
        if not entered:
            return
        if item.optional_vars is not None:
            self.assign(fr, item.optional_vars, entered, st)
        inner = Out()
        self.exec_with(fr, st, idx + 1, fr.store, inner)
        exit_m = self.load_attr(fr, objs, '__exit__', st)
        none3 = Args([av(NONE), av(NONE), av(NONE)])
        for kind in ('next', 'brk', 'cont'):
            for s_ in getattr(inner, kind):
                fr.store = s_
                self.call_value(fr, exit_m, none3, st)
                self.flush(fr, out, s_)
                getattr(out, kind).append(s_)
        for (s_, v) in inner.ret:
            fr.store = s_
            self.call_value(fr, exit_m, none3, st)
            self.flush(fr, out, s_)
            out.ret.append((s_, v))
        for (s_, rec) in inner.exc:
            fr.store = s_
            hid = id(item)
            self.caught_tbl[hid] = [rec]
            before = len(fr.pending)
            fr.handling.append([rec])
            try:
                r = self.call_value(fr, exit_m, Args([av(('cls', rec.cls)), av(('caught', hid)), av(EXT)]), st)
            finally:
                fr.handling.pop()
            raised = fr.pending[before:]
            del fr.pending[before:]
            for new in raised:
                new.converted_from = (rec,)
                out.exc.append((s_.copy(), new))
            self.ev_handler.setdefault((hid, rec.key()), (fr.qual, item, rec, 'with'))
            fake = Out()
            fake.exc = [(s_, n) for n in raised]
            self.check_relabel(fr, item, [rec], fake)
            t = {self.truth(x) for x in r}
            if t & {'t', '?'}:
                out.next.append(s_)          # swallowed
            if t & {'f', '?'}:
                out.exc.append((s_, rec))

    def run_ctx(self, fr, st, idx, ctx, store, out):
        """`with cm(...): body` where cm is a @contextmanager generator: the body runs at the generator's yield, so the
        generator's own try/except around the yield are handlers around the body"""
        _, fnatom, bound, parent_fid = ctx
        q = fnatom[1]
        node = self.funcs[q]
        parent = self.frames.get(parent_fid) if parent_fid else None
        g = Frame(self, q, node, parent, self.fid_for(('ctx', q, parent_fid, bound)), self.defcls.get(id(node)))
        g.store = Store(dict(bound))
        g.tin = set()
        for _, v in bound:
            tags_of(v, acc=g.tin)
        if parent is not None:
            g.tin |= parent.valid_tags()
        g.summary = Summary()
        g.depth = fr.depth + 1
        self.reached.add(q)
        state = {'yields': 0}
        item = st.items[idx]

        def at_yield(gfr, yst, gstore, gout, value):
            state['yields'] += 1
            inner = Out()
            fr.store = store
            if item.optional_vars is not None:
                self.assign(fr, item.optional_vars, value, st)
            self.exec_with(fr, st, idx + 1, fr.store, inner)
            # normal completion of the body: the generator continues after the yield
            out.brk.extend(inner.brk)
            out.cont.extend(inner.cont)
            out.ret.extend(inner.ret)
            if inner.next:
                state.setdefault('resume', []).extend(inner.next)
                gout.next.append(gstore)
            for (s, rec) in inner.exc:
                state.setdefault('body_recs', set()).add(id(rec))
                gs = gstore.copy()
                gs.vars['$with-store'] = av(('wstore', id(s)))
                state.setdefault('wstores', {})[id(s)] = s
                gout.exc.append((gs, rec))

        g.yield_cb = at_yield
        go = self.exec_block(g, node.body, [g.store])
        if state['yields'] == 0:
            raise self.err(st, 'context manager {} never yields on the analysed paths'.format(q))
        wstores = state.get('wstores', {})
        resume = state.get('resume', [])
        # generator finished normally: either after the body completed, or after swallowing an exception of the body
        for s in go.next + [x[0] for x in go.ret]:
            w = s.vars.get('$with-store')
            if w:
                for a in w:
                    out.next.append(wstores[a[1]])
        if (go.next or go.ret) and resume:
            out.next.extend(resume)
        valid = g.tin

        def f(t):
            return t if t in valid else self.ret_tag(st, t)
        for (s, rec) in go.exc:
            w = s.vars.get('$with-store')
            ws = None
            if w:
                for a in w:
                    ws = wstores[a[1]]
            if id(rec) in state.get('body_recs', ()):
                out.exc.append((ws if ws is not None else store.copy(), rec))
            else:
                out.exc.append((ws if ws is not None else store.copy(), rec.retag(f).via(fr.qual, st)))

    def do_yield(self, fr, st, store, out):
        if fr.yield_cb is None:
            raise self.err(st, 'yield outside a generator activation the analysis has set up ({})'.format(fr.qual))
        y = st.value
        if isinstance(y, ast.YieldFrom):
            src = self.eval(fr, y.value)
            mode, elems = self.iteration(fr, src, y)
            if mode == 'exact':
                x = BOT
                for e in elems:
                    x = join(x, e)
                elems = x
            self.flush(fr, out, store)
            if elems:
                fr.yield_cb(fr, st, fr.store, out, elems)
            else:
                out.next.append(fr.store)
            return
        v = av(NONE) if y.value is None else self.eval(fr, y.value)
        self.flush(fr, out, store)
        fr.yield_cb(fr, st, fr.store, out, v)

    def run_generator(self, fr, gen, node):
        """the values a generator object yields (its body runs when it is consumed: exceptions surface at the consumer)"""
        _, fnatom, bound, parent_fid = gen
        q = fnatom[1]
        fnnode = self.funcs[q]
        cached = self.gen_memo.get(gen)
        if cached is None:
            if gen in self.active:
                cached = (BOT, [])
                self.rec_hits.add(gen)
            else:
                parent = self.frames.get(parent_fid) if parent_fid else None
                g = Frame(self, q, fnnode, parent, self.fid_for(('gen', q, parent_fid, bound)), self.defcls.get(id(fnnode)))
                self.frames[g.fid] = g
                g.store = Store({k: self.brand(q, k, v) for k, v in bound})
                g.tin = set()
                for _, v in bound:
                    tags_of(v, acc=g.tin)
                if parent is not None:
                    g.tin |= parent.valid_tags()
                g.summary = Summary()
                g.depth = fr.depth + 1
                if g.defcls is not None and fnnode.args.args:
                    g.self_atoms = dict(bound).get(fnnode.args.args[0].arg)
                self.reached.add(q)
                vals = []

                def at_yield(gfr, yst, gstore, gout, value):
                    vals.append(erase_tags(value))
                    gout.next.append(gstore)
                g.yield_cb = at_yield
                self.active[gen] = 1
                try:
                    go = self.exec_block(g, fnnode.body, [g.store])
                finally:
                    del self.active[gen]
                elems = BOT
                for v in vals:
                    elems = join(elems, v)
                valid = g.tin
                excs = []
                for (s_, rec) in go.exc:
                    excs.append(rec.retag(lambda t: t if t in valid else self.ret_tag(node, t)))
                if not g.summary.pure and fr.summary is not None:
                    fr.summary.pure = False
                cached = (elems, excs)
                self.gen_memo[gen] = cached
        elems, excs = cached
        for rec in excs:
            fr.pending.append(rec.via(fr.qual, node))
        return elems

    def ret_tag(self, node, t):
        if t in ('*', '?'):
            return t
        if tag_depth(t) >= 2:
            return '?'
        return ('ret', pos_of(node), t)

    # -- assignment ---------------------------------------------------------------------------------------------------------
    def assign(self, fr, target, val, node, sym=None, value_expr=None):
        if isinstance(target, ast.Name):
            self.bind(fr, target.id, val, sym)
        elif isinstance(target, (ast.Tuple, ast.List)):
            star = [i for i, e in enumerate(target.elts) if isinstance(e, ast.Starred)]
            if len(star) > 1:
                raise self.err(node, 'two starred targets')
            parts = self.unpack(fr, val, len(target.elts), star[0] if star else None, node)
            if value_expr is not None and isinstance(value_expr, ast.Name) and not star:
                # an exact unpacking fixes the length of a token list on the continuing path
                self.refine_len(fr, fr.store, value_expr.id, len(target.elts), True)
            for e, p in zip(target.elts, parts):
                if not p:
                    raise Unreachable()
                self.assign(fr, e.value if isinstance(e, ast.Starred) else e, p, node)
        elif isinstance(target, ast.Attribute):
            ov = self.eval(fr, target.value)
            self.store_attr(fr, ov, target.attr, val, node)
        elif isinstance(target, ast.Subscript):
            # what was known about elements at fixed positions is no longer known
            fr.store.facts = frozenset(f for f in fr.store.facts if not self.mentions_sub(f))
            self.assign_subscript(fr, target, val, node)
        elif isinstance(target, ast.Starred):
            self.assign(fr, target.value, val, node)
        else:
            raise self.err(node, 'assignment target {} is not modelled'.format(type(target).__name__))

    def assign_subscript(self, fr, target, val, node):
        cont = self.eval(fr, target.value)
        key = self.eval(fr, target.slice) if not isinstance(target.slice, ast.Slice) else av(TOP)
        new = self.updated_container(cont, key, val, node)
        if new is not None:
            self.write_back(fr, target.value, new, node)
            self.note_mutation(fr, target.value)

    def updated_container(self, cont, key, val, node):
        """the container after `container[key] = val` (None when nothing the analysis tracks changes)"""
        new = set()
        changed = False
        for a in cont:
            k = a[0]
            if k == 'kdict':
                ck = [x for x in key if is_key(x)]
                if len(key) == 1 and ck:
                    items = list(a[1])
                    for i, (kk, vv) in enumerate(items):
                        if kk == ck[0]:
                            items[i] = (kk, val)
                            break
                    else:
                        items.append((ck[0], val))
                    new.add(('kdict', tuple(items), a[2]))
                elif ck and len(ck) == len(key):
                    # one of several known keys: weak update of those, possibly new keys
                    items = dict(a[1])
                    order = [kk for kk, _ in a[1]]
                    for c in ck:
                        if c in items:
                            items[c] = join(items[c], val)
                        else:
                            order.append(c)
                            items[c] = val
                    # new keys are only possibly present: summarise
                    ks = frozenset(order)
                    vals = BOT
                    for c in order:
                        vals = join(vals, items[c])
                    if all(c in dict(a[1]) for c in ck):
                        new.add(('kdict', tuple((c, items[c]) for c in order), a[2]))
                    else:
                        new.add(('dict', ks, erase_tags(vals), BOT))
                else:
                    vals = erase_tags(val)
                    for _, vv in a[1]:
                        vals = join(vals, erase_tags(vv))
                    ks = frozenset(kk for kk, _ in a[1])
                    nonconst = frozenset(x for x in key if not is_key(x))
                    ks2 = None if nonconst else ks | frozenset(ck)
                    new.add(('dict', ks2, vals, nonconst))
                changed = True
            elif k == 'dict':
                ck = frozenset(x for x in key if is_key(x))
                nonconst = frozenset(x for x in key if not is_key(x))
                ks = None if (a[1] is None or nonconst) else a[1] | ck
                new.add(('dict', ks, join(a[2], erase_tags(val)), join(a[3], nonconst)))
                changed = True
            elif k == 'list':
                new.add(('list', join(a[1], erase_tags(val))))
                changed = True
            elif k == 'seq':
                elem = erase_tags(val)
                for e in a[2]:
                    elem = join(elem, erase_tags(e))
                new.add(('list', elem))
                changed = True
            elif k == 'obj' and a[1] in self.classes:
                raise self.err(node, 'item assignment on an instance of {}'.format(a[1]))
            else:
                new.add(a)
        if changed:
            return normalise(frozenset(new))
        return None

    def write_back(self, fr, expr, val, node):
        """the mutated container `val` replaces what the expression denotes: a name, an attribute, an entry of another
        container (`table[k][k2] = v`, `table.setdefault(k, {})[k2] = v`)"""
        if isinstance(expr, ast.Name):
            f = self.owner_frame(fr, expr.id)
            f.store.vars[expr.id] = val
        elif isinstance(expr, ast.Attribute):
            ov = self.eval(fr, expr.value)
            self.store_attr(fr, ov, expr.attr, val, node, weak=True)
        elif isinstance(expr, ast.Subscript) and not isinstance(expr.slice, ast.Slice):
            outer = self.eval(fr, expr.value)
            key = self.eval(fr, expr.slice)
            new = self.updated_container(outer, key, val, node)
            if new is not None:
                self.write_back(fr, expr.value, new, node)
        elif isinstance(expr, ast.Call) and isinstance(expr.func, ast.Attribute) and expr.func.attr in ('setdefault', 'get') and expr.args:
            outer = self.eval(fr, expr.func.value)
            key = self.eval(fr, expr.args[0])
            new = self.updated_container(outer, key, val, node)
            if new is not None:
                self.write_back(fr, expr.func.value, new, node)
        # other receivers (temporaries) need no write back

    def note_mutation(self, fr, expr):
        """mutation of something that is not a plain local: the function is not pure"""
        if isinstance(expr, ast.Name) and self.owner_frame(fr, expr.id) is fr and expr.id not in (fr.scope.params if fr.scope else ()):
            return
        if fr.summary is not None:
            fr.summary.pure = False

    def unpack(self, fr, val, n, star, node):
        parts = [BOT] * n
        for a in val:
            k = a[0]
            if k == 'seq':
                es = a[2]
                if star is None:
                    if len(es) != n:
                        continue
                    for i in range(n):
                        parts[i] = join(parts[i], es[i])
                else:
                    if len(es) < n - 1:
                        continue
                    after = n - 1 - star
                    for i in range(star):
                        parts[i] = join(parts[i], es[i])
                    mid = es[star:len(es) - after]
                    parts[star] = join(parts[star], av(('seq', 'list', tuple(mid))))
                    for j in range(after):
                        parts[star + 1 + j] = join(parts[star + 1 + j], es[len(es) - after + j])
            elif k == 'toks':
                heads, cnt, sz = a[1], a[2], a[3]
                if star is None:
                    if cnt is not None and cnt != n:
                        continue
                    for i in range(n):
                        parts[i] = join(parts[i], av(('tok', heads, i, i == n - 1, sz)))
                else:
                    after = n - 1 - star
                    for i in range(star):
                        parts[i] = join(parts[i], av(('tok', heads, i, False, sz)))
                    parts[star] = join(parts[star], av(('list', av(('tok', heads, None, after == 0 and None, sz)))))
                    for j in range(after):
                        parts[star + 1 + j] = join(parts[star + 1 + j], av(('tok', heads, None, j == after - 1, sz)))
            elif k in ('list', 'set'):
                for i in range(n):
                    parts[i] = join(parts[i], av(('list', a[1])) if i == star else a[1])
            elif k == 'kdict':
                ks = frozenset(kk for kk, _ in a[1])
                for i in range(n):
                    parts[i] = join(parts[i], av(('list', ks)) if i == star else ks)
            elif k == 'dict':
                ks = (a[1] or frozenset()) | a[3]
                for i in range(n):
                    parts[i] = join(parts[i], av(('list', ks)) if i == star else ks)
            elif is_str_atom(a):
                e = av(('str', str_taint(a), None))
                for i in range(n):
                    parts[i] = join(parts[i], av(('list', e)) if i == star else e)
            elif k in ('enum', 'zip', 'lines', 'range', 'file', 'gen'):
                mode, elems = self.iteration(fr, av(a), node)
                if mode == 'exact':
                    x = BOT
                    for e in elems:
                        x = join(x, e)
                    elems = x
                for i in range(n):
                    parts[i] = join(parts[i], av(('list', elems)) if i == star else elems)
            elif a == TOP or a == EXT:
                for i in range(n):
                    parts[i] = join(parts[i], av(a))
            elif k == 'obj' and a[1] in self.classes:
                ci = self.classes[a[1]]
                if ci.record == 'namedtuple' and star is None:
                    fs = [f for f, _, _ in self.record_fields(ci)]
                    if len(fs) == n:
                        for i, f in enumerate(fs):
                            parts[i] = join(parts[i], self.load_attr_atom(fr, a, f, node))
                    continue
                raise self.err(node, 'unpacking an instance of {}'.format(a[1]))
        return parts

    # -- heap ---------------------------------------------------------------------------------------------------------------
    def store_attr(self, fr, objval, attr, val, node, weak=False):
        objs = [a for a in objval if a[0] == 'obj']
        for a in objs:
            if is_flow_object(a):
                hk = ('$hv', a[1], attr)
                if len(objs) == 1 and not weak:
                    fr.store.vars[hk] = val
                else:
                    fr.store.vars[hk] = join(fr.store.vars.get(hk, BOT), val)
        for a in objval:
            if a[0] == 'obj':
                cls, tag = a[1], a[2]
                if cls not in self.classes:
                    continue
                ctor = isinstance(tag, tuple) and tag and tag[0] == 'ctor'
                if ctor:
                    info = self.ctor_info.get(tag[1])
                    if info is not None:
                        info['stores'].append((attr, val, node))
                    site = info['site'] if info else node
                    sq = info['qual'] if info else fr.qual
                    if info and info.get('approx'):
                        self.approx_sites.add(id(site))
                else:
                    if not weak:
                        self.mutated_fields.add((cls, attr))
                    if base_class(cls) not in self.mutating_classes and base_class(cls) != self.line_class:
                        # instances of this class change after they are built (a cursor, an accumulator, the program being
                        # assembled): from the next round on their attributes are tracked flow-sensitively
                        self.mutating_classes.add(base_class(cls))
                        self.changed = True
                        self.restart = True
                        self.why.append(('mutating class', base_class(cls)))
                    if fr.summary is not None:
                        fr.summary.pure = False
                    site, sq = node, fr.qual
                order = self.attr_order.setdefault(cls, [])
                if attr not in order:
                    order.append(attr)
                    self.changed = True
                    self.why.append(('attr', cls, attr))
                key = (cls, attr)
                old = self.heap.get(key, BOT)
                if depth(val) > 3:
                    val = flatten_deep(val)
                new = join(old, erase_tags(val))
                if new != old:
                    self.heap[key] = new
                    self.changed = True
                    self.why.append(('heap', key, new - old))
                ek = (id(node), id(site), attr)
                ev = self.ev_store.get(ek)
                if ev is None:
                    self.ev_store[ek] = {'node': node, 'site': site, 'qual': sq, 'cls': {base_class(cls)}, 'attr': attr, 'val': val, 'ctor': ctor}
                else:
                    ev['val'] = join(ev['val'], val)
                    ev['cls'].add(base_class(cls))
            elif a[0] in ('libobj', 'ext') or a == EXT:
                continue
            elif a == TOP:
                raise self.err(node, 'attribute store on an unknown value')
            elif a[0] in ('fn', 'clo', 'lam'):
                old = self.fn_attrs.get((a, attr), BOT)
                new = join(old, val)
                if new != old:
                    self.fn_attrs[(a, attr)] = new
                    self.changed = True
            elif a[0] in ('cls', 'mod'):
                raise self.err(node, 'attribute store on a class / module')

    def load_attr(self, fr, val, attr, node):
        out = BOT
        for a in val:
            out = join(out, self.load_attr_atom(fr, a, attr, node))
        return out

    def load_attr_atom(self, fr, a, attr, node):
        k = a[0]
        if k == 'obj':
            cls, tag = a[1], a[2]
            if cls not in self.classes:
                # instance of a builtin exception
                if attr == 'args':
                    return av(('list', av(STR_U)))
                return av(TOP)
            if attr == '__class__':
                return av(('cls', base_class(cls)))
            if attr == '__dict__':
                return self.vars_of(fr, av(a), node)
            v = None
            if '@s' in cls:
                v = fr.store.vars.get(('$hv', cls, attr))
            if v is None:
                v = self.heap.get((cls, attr))
            if v is None and '@' in cls:
                v = self.heap.get((base_class(cls), attr))
            if v is not None:
                if tag is not None and not (isinstance(tag, tuple) and tag[0] == 'ctor'):
                    return map_tags(v, lambda t: tag)
                return v
            ci_ = self.classes[cls]
            if ci_.record and attr in ('_replace', '_asdict', '_fields') and self.find_method(cls, attr)[1] is None:
                if attr == '_fields':
                    return av(('seq', 'tuple', tuple(av(const(f_)) for f_, _, _ in self.record_fields(ci_))))
                return av(('lib', '<nt' + attr + '>', a))
            c, q = self.find_method(cls, attr)
            if q is not None:
                decs = self.decor.get(q, set())
                if 'property' in decs:
                    return self.call_value(fr, av(('bound', a, q)), Args(), node)
                if 'staticmethod' in decs:
                    return av(('fn', q))
                if 'classmethod' in decs:
                    return av(('bound', ('cls', cls), q))
                return av(('bound', a, q))
            ca = self.find_class_attr(cls, attr)
            if ca is not None:
                # functions found in the class are bound to the instance
                return frozenset(('bound', a, b) if b[0] in ('fn', 'clo', 'lam') else b for b in ca)
            if self.is_exception_class(cls) and attr == 'args':
                return av(('list', av(STR_U)))
            return BOT
        if k == 'caught':
            out = BOT
            for rec in self.recs_of(a):
                v = self.load_attr_atom(fr, rec.atom, attr, node)
                # the line of the error caught by this handler is that very line, however little is known about it
                out = join(out, map_tags(v, lambda t, h=a[1]: ('caught', h)))
            return out
        if k == 'cls':
            cls = a[1]
            if cls in self.classes:
                if attr == '__name__':
                    return av(const(cls))
                c, q = self.find_method(cls, attr)
                if q is not None:
                    decs = self.decor.get(q, set())
                    if 'classmethod' in decs:
                        return av(('bound', a, q))
                    return av(('fn', q))
                ca = self.find_class_attr(cls, attr)
                if ca is not None:
                    return ca
                return BOT
            if attr == '__name__':
                return av(const(cls))
            return av(('lib', cls + '.' + attr))
        if k == 'mod':
            return self.module_attr(a[1], attr)
        if k == 'lib':
            return av(('lib', a[1] + '.' + attr))
        if k == 'super':
            _, cls, selfv = a
            out = BOT
            for s in selfv:
                if s[0] == 'obj':
                    c, q = self.find_method(s[1], attr, after=cls)
                    if q is not None:
                        out = join(out, av(('bound', s, q)))
                    else:
                        out = join(out, av(('lib', 'object.' + attr)))
            return out
        if k == 'libobj':
            kind = a[1]
            if kind == 'ctypes.int' and attr == 'value':
                return av(INT_S)
            if kind == 'struct.Struct' and attr == 'size':
                return av(INT_S)
            if kind == 'struct.Struct' and attr == 'format':
                return a[2]
            return av(('bmeth', a, attr))
        if k == 'kdict' and a[2] == ('dcfield',) and const(attr) in dict(a[1]):
            return dict(a[1])[const(attr)]
        if k in ('list', 'seq', 'toks', 'dict', 'kdict', 'set', 'str', 'tok', 'c', 'bytes', 'file', 'lines', 'int', 'idx'):
            return av(('bmeth', a, attr))
        if a == EXT or k == 'ext':
            return av(EXT)
        if a == TOP:
            return av(TOP)
        if a == DATA:
            return BOT
        if k in ('fn', 'clo', 'lam', 'bound', 'partial'):
            fa = self.fn_attrs.get((a, attr))
            if fa is not None:
                return fa
            if attr in ('__name__', '__qualname__') and k in ('fn', 'clo'):
                w = self.fn_attrs.get((a, '__wrapped__'))
                if w is not None and len(w) == 1 and next(iter(w))[0] in ('fn', 'clo'):
                    return av(const(next(iter(w))[1].split('.')[-1]))
                return av(const(a[1].split('.')[-1]))
            if attr in ('__name__', '__qualname__', '__doc__', '__module__'):
                return av(STR_S)
            if k == 'partial' and attr == 'func':
                return av(a[1])
            return av(TOP)
        return BOT

    def module_attr(self, mod, attr):
        full = mod + '.' + attr if mod else attr
        root = full.split('.')[0]
        if full in ('os.path',) or full in TRUSTED_MODULES:
            return av(('mod', full))
        if full in ('struct.error',):
            return av(('cls', 'struct.error'))
        if root in TRUSTED_MODULES:
            return av(('lib', full))
        if root in ('bronzebeard',) or not mod:
            return av(EXT)
        return av(EXT)

    def vars_of(self, fr, val, node):
        out = BOT
        for a in val:
            if a[0] == 'obj' and a[1] in self.classes:
                items = []
                for at in self.attr_order.get(a[1], []):
                    v = self.load_attr_atom(fr, a, at, node)
                    if v:
                        items.append((const(at), v))
                out = join(out, av(('kdict', tuple(items), ('vars', a[1], a[2]))))
            elif a == TOP:
                out = join(out, av(TOP))
        return out

    # -- iteration ----------------------------------------------------------------------------------------------------------
    def iteration(self, fr, val, node):
        """('exact', [elements]) for one known finite sequence, else ('summary', join of the possible elements)"""
        atoms = [a for a in val if a != NONE]
        if len(atoms) == 1:
            a = atoms[0]
            if a[0] == 'seq':
                return 'exact', list(a[2])
            if a[0] == 'obj' and a[1] in self.classes and self.classes[a[1]].record == 'namedtuple':
                vals_ = [self.load_attr_atom(fr, a, f_, node) for f_, _, _ in self.record_fields(self.classes[a[1]])]
                if all(vals_):
                    return 'exact', vals_
            if a[0] == 'c' and a[1] == 'str' and len(a[2]) <= 64:
                return 'exact', [av(const(ch)) for ch in a[2]]
            if a[0] == 'kdict':
                return 'exact', [av(k) for k, _ in a[1]]
            if a[0] == 'enum' and a[1] is not None:
                m, es = self.iteration(fr, a[2], node)
                if m == 'exact':
                    return 'exact', [av(('seq', 'tuple', (av(const(a[1] + i)), e))) for i, e in enumerate(es)]
            if a[0] == 'zip':
                subs = [self.iteration(fr, x, node) for x in a[1]]
                if all(m == 'exact' for m, _ in subs):
                    n = min(len(es) for _, es in subs)
                    return 'exact', [av(('seq', 'tuple', tuple(es[i] for _, es in subs))) for i in range(n)]
        out = BOT
        for a in atoms:
            k = a[0]
            if k == 'seq':
                for e in a[2]:
                    out = join(out, e)
            elif k in ('list', 'set'):
                out = join(out, a[1])
            elif k == 'kdict':
                out = join(out, frozenset(kk for kk, _ in a[1]))
            elif k == 'dict':
                out = join(out, (a[1] or frozenset()) | a[3] | (av(STR_U) if a[1] is None and not a[3] else BOT))
            elif k == 'toks':
                out = join(out, av(('tok', a[1], None, None, a[3])))
            elif k == 'lines':
                out = join(out, av(('str', 'u', ('elem', a))))
            elif k == 'enum':
                m, es = self.iteration(fr, a[2], node)
                if m == 'exact':
                    x = BOT
                    for e in es:
                        x = join(x, e)
                    es = x
                origin = frozenset(b for b in a[2] if b != NONE)
                idx = ('idx', a[1], origin)
                if es:
                    out = join(out, av(('seq', 'tuple', (av(idx), es))))
            elif k == 'zip' and len(a[1]) == 2 and any(len(c_) == 1 and next(iter(c_))[0] == 'count' for c_ in a[1]) \
                    and any(c_ and all(b[0] == 'lines' for b in c_) for c_ in a[1]):
                ci_ = 0 if (len(a[1][0]) == 1 and next(iter(a[1][0]))[0] == 'count') else 1
                cnt = next(iter(a[1][ci_]))
                other = a[1][1 - ci_]
                idx = av(('idx', cnt[1], frozenset(other)))
                elem = frozenset(('str', 'u', ('elem', b)) for b in other)
                out = join(out, av(('seq', 'tuple', (idx, elem) if ci_ == 0 else (elem, idx))))
            elif k == 'zip':
                parts = []
                for x in a[1]:
                    m, es = self.iteration(fr, x, node)
                    if m == 'exact':
                        y = BOT
                        for e in es:
                            y = join(y, e)
                        es = y
                    parts.append(es)
                if all(parts):
                    out = join(out, av(('seq', 'tuple', tuple(parts))))
            elif k == 'range':
                out = join(out, av(INT_S))
            elif k == 'count':
                out = join(out, av(INT_U))
            elif is_str_atom(a):
                out = join(out, av(('str', str_taint(a), None)))
            elif k == 'bytes' or (k == 'c' and a[1] == 'bytes'):
                out = join(out, av(INT_S))
            elif k == 'file':
                out = join(out, av(('str', 'u', ('elem', ('lines', ('read', a[1]))))))
            elif a == TOP or a == EXT:
                out = join(out, av(a))
            elif k == 'obj' and a[1] in self.classes:
                ci_ = self.classes[a[1]]
                if ci_.record == 'namedtuple':
                    for f_, _, _ in self.record_fields(ci_):
                        out = join(out, self.load_attr_atom(fr, a, f_, node))
                    continue
                raise self.err(node, 'iteration over an instance of {}'.format(a[1]))
            elif k == 'gen':
                out = join(out, self.run_generator(fr, a, node))
            elif k == 'ctx':
                raise self.err(node, 'iteration over a context manager')
        return 'summary', out

    # -- expressions --------------------------------------------------------------------------------------------------------
    def eval(self, fr, node):
        m = self._ex.get(type(node))
        if m is None:
            m = getattr(self, 'ex_' + type(node).__name__, None)
            if m is None:
                raise self.err(node, 'expression {} is not modelled'.format(type(node).__name__))
            self._ex[type(node)] = m
        v = m(fr, node)
        if not v:
            raise Unreachable()
        return v

    def ex_Constant(self, fr, node):
        v = node.value
        if v is None:
            return av(NONE)
        if v is Ellipsis:
            return av(TOP)
        if isinstance(v, float) or isinstance(v, complex):
            return av(FLOAT)
        if isinstance(v, str) and len(v) > MAX_STR_LEN:
            return av(STR_S)
        if isinstance(v, bytes) and len(v) > MAX_STR_LEN:
            return av(BYTES)
        return av(const(v))

    def ex_Name(self, fr, node):
        if fr.lazy_exc and node.id in fr.lazy_exc and isinstance(node.ctx, ast.Load):
            have = {r.key() for r in fr.pending}
            for rec in fr.lazy_exc[node.id]:
                if rec.key() not in have:
                    fr.pending.append(rec.via(fr.qual, node))
        return self.lookup(fr, node.id, node)

    def ex_NamedExpr(self, fr, node):
        v = self.eval(fr, node.value)
        self.assign(fr, node.target, v, node)
        return v

    def ex_Lambda(self, fr, node):
        q = self.qual[id(node)]
        if fr is self.module:
            return av(('fn', q))
        return av(('clo', q, fr.fid))

    def ex_Attribute(self, fr, node):
        v = self.eval(fr, node.value)
        return self.load_attr(fr, v, node.attr, node)

    def ex_Starred(self, fr, node):
        raise self.err(node, 'starred expression outside a call / display')

    def ex_Yield(self, fr, node):
        raise self.err(node, 'yield used as an expression')

    ex_YieldFrom = ex_Yield
    ex_Await = ex_Yield

    def display(self, fr, node, kind):
        if kind in ('list', 'tuple') and len(node.elts) == 1 and isinstance(node.elts[0], ast.Starred):
            sv = self.eval(fr, node.elts[0].value)
            if sv and all(a[0] == 'lines' for a in sv):
                return sv           # [*rows]: a copy of the source lines
        vals = []
        exact = True
        extra = BOT
        for e in node.elts:
            if isinstance(e, ast.Starred):
                sv = self.eval(fr, e.value)
                m, es = self.iteration(fr, sv, e)
                if m == 'exact':
                    vals.extend(es)
                else:
                    exact = False
                    extra = join(extra, es)
            else:
                vals.append(self.eval(fr, e))
        if exact:
            return av(('seq', kind, tuple(vals)))
        elem = erase_tags(extra)
        for v in vals:
            elem = join(elem, erase_tags(v))
        return av(('list', elem))

    def ex_Tuple(self, fr, node):
        return self.display(fr, node, 'tuple')

    def ex_List(self, fr, node):
        return self.display(fr, node, 'list')

    def ex_Set(self, fr, node):
        return self.display(fr, node, 'set')

    def ex_Dict(self, fr, node):
        items = []
        exact = True
        vals, keys = BOT, BOT
        for k, v in zip(node.keys, node.values):
            vv = self.eval(fr, v)
            if k is None:
                for a in vv:
                    if a[0] == 'kdict':
                        for kk, x in a[1]:
                            items = [(k2, v2) for k2, v2 in items if k2 != kk] + [(kk, x)]
                    elif a[0] == 'dict':
                        exact = False
                        vals = join(vals, a[2])
                        keys = join(keys, (a[1] or frozenset()) | a[3])
                    elif a == TOP:
                        exact = False
                        vals = join(vals, av(TOP))
                continue
            kv = self.eval(fr, k)
            if len(kv) == 1 and is_key(next(iter(kv))):
                kk = next(iter(kv))
                items = [(k2, v2) for k2, v2 in items if k2 != kk] + [(kk, vv)]
            else:
                exact = False
                vals = join(vals, erase_tags(vv))
                keys = join(keys, kv)
        if exact:
            return av(('kdict', tuple(items), None))
        ks = frozenset(k for k, _ in items)
        for _, v in items:
            vals = join(vals, erase_tags(v))
        nonconst = frozenset(a for a in keys if not is_key(a))
        ks = ks | frozenset(a for a in keys if is_key(a))
        return av(('dict', None if nonconst else ks, vals, nonconst))

    def ex_JoinedStr(self, fr, node):
        taint = 's'
        parts = []
        for v in node.values:
            if isinstance(v, ast.Constant):
                parts.append(('const', v.value))
            else:
                x = self.eval(fr, v.value)
                if v.format_spec is not None:
                    self.eval(fr, v.format_spec)
                if any(str_taint(a) == 'u' for a in x if is_str_atom(a)) or any(a[0] in ('obj', 'top', 'list', 'seq', 'kdict', 'dict', 'toks') for a in x):
                    taint = 'u'
                parts.append(('val', x, v.value))
        if all(p[0] == 'const' for p in parts):
            return av(const(''.join(p[1] for p in parts)))
        extra = None
        if len(parts) >= 2 and parts[-1][0] == 'val' and all(a == ('int', 'fsize') for a in parts[-1][1]) \
                and parts[-2][0] == 'const' and parts[-2][1][-1:].isspace():
            extra = ('sizeint', self.guard_keywords(fr) or frozenset({'?'}))
        elif any(p_[0] == 'val' and (('int', 'fsize') in p_[1] or any(a[0] == 'str' and (a[2] == 'fsize' or (isinstance(a[2], tuple) and a[2][0] == 'sizeint')) for a in p_[1]))
                 for p_ in parts):
            extra = ('sizeint', frozenset({'?'}))       # the reader's size is in this text, where is not followed
        return av(('str', taint, extra))

    def ex_FormattedValue(self, fr, node):
        return self.eval(fr, node.value)

    def ambient_words(self, fr):
        """string constants the current path is known to be about: prefixes / arguments of tests that held, and the constants
        local names are narrowed to (`keyword == 'include'` failed, so keyword is 'include_bytes')"""
        out = set(fr.store.guards) | {f[1] for f in fr.store.facts if f[0] == 'guard'}
        for k, v in fr.store.vars.items():
            if isinstance(k, str) and 0 < len(v) <= 4 and all(a == NONE or (a[0] == 'c' and a[1] == 'str') for a in v):
                out |= {a[2] for a in v if a != NONE and 0 < len(a[2]) <= 32}
        return frozenset(out)

    def guard_keywords(self, fr):
        return frozenset(g.strip().lower() for g in self.ambient_words(fr))

    def ex_UnaryOp(self, fr, node):
        if isinstance(node.op, ast.Not):
            ct, s_t, cf, s_f = self.cond(fr, node.operand, fr.store, refine=False)
            out = set()
            if ct:
                out.add(const(False))
            if cf:
                out.add(const(True))
            return frozenset(out)
        v = self.eval(fr, node.operand)
        out = set()
        for a in v:
            if a[0] == 'c' and a[1] in ('int', 'bool') and isinstance(node.op, (ast.USub, ast.UAdd, ast.Invert)):
                x = int(a[2])
                out.add(const(-x if isinstance(node.op, ast.USub) else (~x if isinstance(node.op, ast.Invert) else x)))
            elif is_int_atom(a):
                out.add(INT_S if a == INT_S else INT_U)
            elif a == FLOAT:
                out.add(FLOAT)
            else:
                out.add(TOP)
        return frozenset(out)

    def ex_BinOp(self, fr, node):
        l = self.eval(fr, node.left)
        r = self.eval(fr, node.right)
        return self.binop(fr, node.op, l, r, node)

    def binop(self, fr, op, l, r, node):
        out = set()
        for a in l:
            for b in r:
                out |= self.binop_atoms(fr, op, a, b, node)
        return normalise(frozenset(out))

    def binop_atoms(self, fr, op, a, b, node):
        ka, kb = a[0], b[0]
        if a == TOP or b == TOP:
            return {TOP}
        if a == DATA or b == DATA:
            return {DATA}
        if is_int_atom(a) and is_int_atom(b):
            if isinstance(op, ast.Div):
                return {FLOAT}
            if ka == 'idx' and kb == 'c' and isinstance(op, (ast.Add, ast.Sub)) and a[1] is not None:
                d = int(b[2])
                return {('idx', a[1] + (d if isinstance(op, ast.Add) else -d), a[2])}
            if kb == 'idx' and ka == 'c' and isinstance(op, ast.Add) and b[1] is not None:
                return {('idx', b[1] + int(a[2]), b[2])}
            sa = a == INT_S or ka == 'c' or a == BOOL
            sb = b == INT_S or kb == 'c' or b == BOOL
            if isinstance(op, ast.BitAnd):
                return {INT_S if (sa or sb) else INT_U}
            if isinstance(op, ast.Mod):
                return {INT_S if sb else INT_U}
            if isinstance(op, (ast.RShift, ast.FloorDiv)):
                return {INT_S if sa else INT_U}
            return {INT_S if (sa and sb) else INT_U}
        if is_str_atom(a) and is_str_atom(b) and isinstance(op, ast.Add):
            if ka == 'c' and kb == 'c':
                v = a[2] + b[2]
                return {const(v) if len(v) <= MAX_STR_LEN else STR_S}
            taint = 'u' if 'u' in (str_taint(a), str_taint(b)) else 's'
            extra = None
            lws = (ka == 'c' and a[2][-1:].isspace()) or (ka == 'str' and a[2] == 'wsend')
            if kb == 'c' and b[2][-1:].isspace():
                extra = 'wsend'
            if kb == 'str' and b[2] == 'fsize' and lws:
                extra = ('sizeint', self.guard_keywords(fr) or frozenset({'?'}))
            elif (ka == 'str' and a[2] == 'fsize') or (kb == 'str' and b[2] == 'fsize'):
                extra = ('sizeint', frozenset({'?'}))       # the reader's size is in this text, where is not followed
            elif ka == 'str' and isinstance(a[2], tuple) and a[2][0] == 'sizeint':
                extra = a[2]
            elif kb == 'str' and isinstance(b[2], tuple) and b[2][0] == 'sizeint':
                extra = ('sizeint', frozenset({'?'}))
            return {('str', taint, extra)}
        if is_str_atom(a) and isinstance(op, ast.Mod):
            taint = str_taint(a)
            if is_str_atom(b) and str_taint(b) == 'u' or kb in ('seq', 'list', 'obj', 'kdict', 'dict'):
                taint = 'u'
            extra = None
            last = b
            has_size = b == ('int', 'fsize')
            if kb == 'seq' and b[2]:
                has_size = any(('int', 'fsize') in e for e in b[2])
                last = b[2][-1]
            if has_size:
                # the reader's file size is formatted into this text: at the end after whitespace it is the size token,
                # anywhere else where it ends up is not followed
                at_end = ka == 'c' and a[2][-2:] in ('%d', '%s', '%i') and a[2][-3:-2].isspace() and \
                    (last == ('int', 'fsize') or (isinstance(last, frozenset) and all(x == ('int', 'fsize') for x in last)))
                extra = ('sizeint', (self.guard_keywords(fr) or frozenset({'?'})) if at_end else frozenset({'?'}))
            return {('str', taint, extra)}
        if is_str_atom(a) and is_int_atom(b) and isinstance(op, ast.Mult) or is_int_atom(a) and is_str_atom(b) and isinstance(op, ast.Mult):
            s = a if is_str_atom(a) else b
            return {('str', str_taint(s), None)}
        bytes_a = a == BYTES or (ka == 'c' and a[1] == 'bytes')
        bytes_b = b == BYTES or (kb == 'c' and b[1] == 'bytes')
        if bytes_a and (bytes_b or is_int_atom(b)) or bytes_b and is_int_atom(a):
            return {BYTES}
        if bytes_a and isinstance(op, ast.Mod):
            return {BYTES}
        if a == FLOAT or b == FLOAT:
            return {FLOAT}
        if ka == 'seq' and kb == 'seq' and isinstance(op, ast.Add):
            return {('seq', a[1], a[2] + b[2])}
        if ka in ('seq', 'list') and kb in ('seq', 'list') and isinstance(op, ast.Add):
            elem = BOT
            for x in (a, b):
                if x[0] == 'seq':
                    for e in x[2]:
                        elem = join(elem, erase_tags(e))
                else:
                    elem = join(elem, x[1])
            return {('list', elem)}
        if ka in ('seq', 'list') and is_int_atom(b) and isinstance(op, ast.Mult):
            elem = BOT
            if ka == 'seq':
                for e in a[2]:
                    elem = join(elem, erase_tags(e))
            else:
                elem = a[1]
            return {('list', elem)}
        if ka == 'toks' and kb in ('seq', 'list', 'toks') and isinstance(op, ast.Add):
            return {('list', av(STR_U))}
        if ka == 'seq' and kb == 'seq' and isinstance(op, (ast.BitOr, ast.BitAnd, ast.Sub, ast.BitXor)) \
                and all(len(e) == 1 and is_const(next(iter(e))) for e in a[2] + b[2]):
            sa, sb = [next(iter(e)) for e in a[2]], [next(iter(e)) for e in b[2]]
            if isinstance(op, ast.BitAnd):
                r = [x for x in sa if x in sb]
            elif isinstance(op, ast.BitOr):
                r = sa + [x for x in sb if x not in sa]
            elif isinstance(op, ast.Sub):
                r = [x for x in sa if x not in sb]
            else:
                r = [x for x in sa if x not in sb] + [x for x in sb if x not in sa]
            return {('seq', 'set', tuple(av(x) for x in r))}
        if ka in ('set', 'seq', 'kdict', 'dict', 'list') and kb in ('set', 'seq', 'kdict', 'dict', 'list') and isinstance(op, (ast.BitOr, ast.BitAnd, ast.BitXor)) \
                or ka in ('set', 'seq', 'kdict', 'dict') and kb in ('set', 'seq', 'kdict', 'dict', 'list') and isinstance(op, ast.Sub):
            elem = BOT
            for x in (a, b):
                m, es = self.iteration(fr, av(x), node)
                if m == 'exact':
                    for e in es:
                        elem = join(elem, erase_tags(e))
                else:
                    elem = join(elem, es)
            if ka in ('kdict', 'dict') and kb in ('kdict', 'dict'):
                return {('dict', None, av(TOP), elem)}
            return {('set', elem)}
        if a == EXT or b == EXT:
            return {EXT}
        for x in (a, b):
            if x[0] == 'obj' and x[1] in self.classes:
                for c in self.mro(x[1]):
                    ci = self.classes.get(c)
                    if ci is not None and any(m.startswith('__') and m[2:-2] in ('add', 'radd', 'sub', 'rsub', 'mul', 'rmul', 'mod', 'rmod', 'or', 'ror', 'and',
                                                                                  'rand', 'lshift', 'rshift', 'floordiv', 'truediv', 'xor', 'matmul', 'pow')
                                              for m in ci.methods):
                        raise self.err(node, 'operator overloaded by class {}'.format(c))
                return set()        # TypeError: not among the judged faults
        prim = lambda x: is_str_atom(x) or is_int_atom(x) or x in (BYTES, FLOAT, NONE) or x[0] in ('c', 'list', 'seq', 'set', 'dict', 'kdict', 'toks', 'lines')
        if prim(a) and prim(b):
            return set()            # operands of incompatible builtin types: TypeError, not among the judged faults
        return {TOP}

    def ex_BoolOp(self, fr, node):
        out = BOT
        store0 = fr.store
        cur = store0
        for i, v in enumerate(node.values):
            fr.store = cur
            try:
                val = self.eval(fr, v)
            except Unreachable:
                break
            if i == len(node.values) - 1:
                out = join(out, val)
                break
            ct, s_t, cf, s_f = self.cond(fr, v, cur.copy() if cur is store0 else cur, value=val)
            if isinstance(node.op, ast.And):
                if cf:
                    out = join(out, self.falsy_part(val))
                if not ct:
                    break
                cur = s_t
            else:
                if ct:
                    out = join(out, self.truthy_part(val))
                if not cf:
                    break
                cur = s_f
        fr.store = store0
        return out

    def truthy_part(self, val):
        return frozenset(a for a in val if self.truth(a) != 'f')

    def falsy_part(self, val):
        return frozenset(a for a in val if self.truth(a) != 't')

    def truth(self, a):
        k = a[0]
        if a == NONE:
            return 'f'
        if k == 'c':
            return 't' if a[2] else 'f'
        if k == 'seq':
            return 't' if a[2] else 'f'
        if k == 'kdict':
            return 't' if a[1] else 'f'
        if k == 'dict' and a[1] is not None and not a[1] and not a[3]:
            return 'f'
        if k in ('list', 'set') and not a[1]:
            return 'f'
        if k in ('fn', 'clo', 'lam', 'bound', 'partial', 'cls', 'mod', 'builtin', 'lib', 'libobj', 'ctx', 'file'):
            return 't'
        if k == 'obj':
            cls = a[1]
            if cls in self.classes and (self.find_method(cls, '__len__')[1] or self.find_method(cls, '__bool__')[1]):
                return '?'
            return 't'
        if k == 'toks' and a[2] is not None:
            return 't' if a[2] else 'f'
        return '?'

    def ex_IfExp(self, fr, node):
        store0 = fr.store
        ct, s_t, cf, s_f = self.cond(fr, node.test, store0.copy())
        out = BOT
        facts = []
        if ct:
            fr.store = s_t
            try:
                out = join(out, self.eval(fr, node.body))
                facts.append(fr.store.facts)
            except Unreachable:
                pass
        if cf:
            fr.store = s_f
            try:
                out = join(out, self.eval(fr, node.orelse))
                facts.append(fr.store.facts)
            except Unreachable:
                pass
        fr.store = store0
        if facts:
            f = facts[0]
            for x in facts[1:]:
                f = f & x
            store0.facts = store0.facts | f
        return out

    def compare_value(self, fr, node):
        vals = [self.eval(fr, node.left)] + [self.eval(fr, c) for c in node.comparators]
        if len(vals) == 2 and all(len(v) == 1 and is_const(next(iter(v))) for v in vals) and isinstance(node.ops[0], (ast.Eq, ast.NotEq)):
            a, b = next(iter(vals[0])), next(iter(vals[1]))
            eq = a[2] == b[2]
            return av(const(eq if isinstance(node.ops[0], ast.Eq) else not eq))
        return av(BOOL)

    def ex_Compare(self, fr, node):
        r = self.cond_compare(fr, node, fr.store, False) if len(node.ops) == 1 else None
        if r is None:
            return self.compare_value(fr, node)
        ct, s_t, cf, s_f = r
        out = set()
        if ct:
            out.add(const(True))
        if cf:
            out.add(const(False))
        if len(out) == 2:
            return av(BOOL)
        return frozenset(out)

    def dispatch_alts(self, fr, node, table, key_expr, default):
        """TABLE[head] / TABLE.get(head) where head is the (lower-cased) first token of a token list held by a local name and
        TABLE a known dict: one alternative per distinct value, each knowing which head keywords select it"""
        self.fr_lookup_alts(fr).pop(id(node), None)
        sym = self.sym_of(fr, key_expr)
        if not (isinstance(sym, tuple) and sym and sym[0] == 'headof' and sym[2] == fr.fid):
            return
        if len(table) != 1:
            return
        a = next(iter(table))
        if a[0] != 'kdict' or not a[1] or len(a[1]) > 400 or not all(k[1] == 'str' for k, _ in a[1]):
            return
        groups = {}
        for k, v in a[1]:
            groups.setdefault(v, set()).add(k[2])
        if len(groups) + 1 > MAX_DISJUNCTS:
            return
        alts = [(v, frozenset(ks), sym[1]) for v, ks in groups.items()]
        if default is not None:
            alts.append((default, None, sym[1]))
        fr.lookup_alts[id(node)] = alts

    @staticmethod
    def fr_lookup_alts(fr):
        if not hasattr(fr, 'lookup_alts') or fr.lookup_alts is None:
            fr.lookup_alts = {}
        return fr.lookup_alts

    def apply_head_alt(self, store, vname, heads):
        if heads is None:
            return
        cur = store.vars.get(vname)
        if cur is None:
            return
        new = set()
        for a in cur:
            if a[0] == 'toks':
                new.add(('toks', heads, a[2], a[3]))
            elif a[0] == 'seq' and a[2] and len(a[2][0]) == 1 and is_const(next(iter(a[2][0]))) and next(iter(a[2][0]))[1] == 'str':
                if next(iter(a[2][0]))[2].lower() in heads:
                    new.add(a)
            else:
                new.add(a)
        store.vars[vname] = frozenset(new)

    def ex_Subscript(self, fr, node):
        v = self.eval(fr, node.value)
        if not isinstance(node.slice, ast.Slice):
            self.dispatch_alts(fr, node, v, node.slice, None)
        if isinstance(node.slice, ast.Slice):
            lo = self.eval(fr, node.slice.lower) if node.slice.lower is not None else None
            hi = self.eval(fr, node.slice.upper) if node.slice.upper is not None else None
            if node.slice.step is not None:
                self.eval(fr, node.slice.step)
            return self.slice_of(fr, v, lo, hi, node)
        idx = self.eval(fr, node.slice)
        r = self.index_of(fr, v, idx, node)
        if isinstance(node.ctx, ast.Load):
            self.key_lookup(fr, node, v, idx)
        if isinstance(node.slice, ast.Name) and not isinstance(node.ctx, ast.Store):
            # items[i] with a running index: the element read here is one specific element (like the target of a for loop)
            tag = ('sub',) + pos_of(node)
            hit = []

            def f(t):
                if t == '*':
                    hit.append(t)
                    return tag
                return t
            r = map_tags(r, f)
            if hit:
                fr.local_tags.add(tag)
        return r

    def key_lookup(self, fr, node, v, idx):
        """table[key] where key is a token the user wrote and the table is not known to hold it: KeyError.  (Keys read back
        from fields of items - mnemonics, directive names - were selected by the parser against the same tables: not judged.)"""
        dicts = [a for a in v if a[0] in ('dict', 'kdict')]
        if not dicts or len(dicts) != len(v):
            return
        toks = [x for x in idx if x[0] == 'tok']
        if not toks:
            return
        for a in dicts:
            if a[0] == 'kdict':
                keys = {kk[2] for kk, _ in a[1] if kk[1] == 'str'}
                if all(x[2] == 0 and x[1] is not None and set(x[1]) <= keys for x in toks):
                    continue        # the head of a token list that was selected among these keys
            ks, ts = self.sym_of(fr, node.slice), self.sym_of(fr, node.value)
            if ks is not None and ts is not None and ('in', ks, ts) in fr.store.facts:
                return              # `key in table` holds on every path to here
            self.library_raise(fr, 'KeyError', node)
            return

    @staticmethod
    def mark_moved(val):
        """elements of the source lines that were filtered / shifted: their position in the new sequence is no longer their line"""
        return frozenset(('str', a[1], ('elem', a[2][1], 'moved')) if a[0] == 'str' and isinstance(a[2], tuple) and a[2][0] == 'elem' else a for a in val)

    @staticmethod
    def const_int(val):
        if val is not None and len(val) == 1:
            a = next(iter(val))
            if a[0] == 'c' and a[1] == 'int':
                return a[2]
        return None

    def slice_of(self, fr, v, lo, hi, node):
        clo = 0 if lo is None else self.const_int(lo)
        chi = None if hi is None else self.const_int(hi)
        known = clo is not None and (hi is None or chi is not None)
        out = BOT
        for a in v:
            k = a[0]
            if k == 'seq':
                if known:
                    out = join(out, av(('seq', a[1], a[2][clo:chi])))
                else:
                    e = BOT
                    for x in a[2]:
                        e = join(e, erase_tags(x))
                    out = join(out, av(('list', e)))
            elif k == 'toks':
                out = join(out, av(('list', av(('tok', a[1], None, None, a[3])))))
            elif k == 'c' and a[1] in ('str', 'bytes'):
                if known:
                    out = join(out, av(const(a[2][clo:chi])))
                else:
                    out = join(out, av(STR_S if a[1] == 'str' else BYTES))
            elif is_str_atom(a):
                out = join(out, av(('str', str_taint(a), 'maybe-size' if (k == 'str' and a[2] == 'maybe-size') else None)))
            elif k == 'lines':
                if known and clo == 0 and hi is None:
                    out = join(out, av(a))          # rows[:] is a copy
                elif known and clo > 0:
                    out = join(out, av(('list', av(('str', 'u', ('elem', a, 'moved'))))))
                else:
                    out = join(out, av(('list', av(('str', 'u', None)))))
            elif k in ('list', 'bytes'):
                out = join(out, av(a))
            elif a == TOP or a == EXT:
                out = join(out, av(a))
        return out

    def index_of(self, fr, v, idx, node):
        out = BOT
        ci = self.const_int(idx)
        for a in v:
            k = a[0]
            if k == 'seq':
                if ci is not None:
                    if -len(a[2]) <= ci < len(a[2]):
                        out = join(out, a[2][ci])
                else:
                    for e in a[2]:
                        out = join(out, e)
            elif k == 'kdict':
                d = dict(a[1])
                consts = [x for x in idx if is_key(x)]
                other = [x for x in idx if not is_key(x)]
                for c in consts:
                    if c in d:
                        out = join(out, d[c])
                if other:
                    for kk, vv in a[1]:
                        if kk[1] == 'str' and any(is_str_atom(x) or x == TOP for x in other) or kk[1] == 'int' and any(is_int_atom(x) or x == TOP for x in other) \
                                or any(x == TOP for x in other):
                            out = join(out, vv)
            elif k == 'dict':
                out = join(out, a[2])
            elif k == 'list':
                out = join(out, a[1])
            elif k == 'toks':
                n = a[2]
                last = None
                if ci is not None:
                    last = (n is not None and (ci == n - 1)) or ci == -1
                    if n is not None and not (-n <= ci < n):
                        continue
                out = join(out, av(('tok', a[1], ci if (ci is not None and ci >= 0) else None, last, a[3])))
            elif k == 'lines':
                out = join(out, av(('str', 'u', ('elem', a))))
            elif k == 'c' and a[1] == 'str':
                out = join(out, av(STR_S))
            elif is_str_atom(a):
                out = join(out, av(('str', str_taint(a), 'maybe-size' if (k == 'str' and a[2] == 'maybe-size') else None)))
            elif k == 'bytes' or (k == 'c' and a[1] == 'bytes'):
                out = join(out, av(INT_S))
            elif a == TOP or a == EXT:
                out = join(out, av(a))
            elif k == 'cls' or k == 'lib':
                out = join(out, av(a))          # typing generics
            elif k == 'obj' and a[1] in self.classes:
                ci_ = self.classes[a[1]]
                if ci_.record == 'namedtuple' and ci is not None:
                    fs = [f for f, _, _ in self.record_fields(ci_)]
                    if -len(fs) <= ci < len(fs):
                        out = join(out, self.load_attr_atom(fr, a, fs[ci], node))
                    continue
                c, q = self.find_method(a[1], '__getitem__')
                if q is None:
                    continue
                out = join(out, self.call_value(fr, av(('bound', a, q)), Args([idx]), node))
        return out

    # -- comprehensions -----------------------------------------------------------------------------------------------------
    def comprehension(self, fr, node, elts):
        """evaluate the element expression(s) for every binding of the generators; returns (exact?, [tuple of values])"""
        store0 = fr.store
        work = store0.copy()
        fr.store = work
        results = []
        state = {'exact': True}

        def go(i):
            if i == len(node.generators):
                try:
                    results.append(tuple(self.eval(fr, e) for e in elts))
                    state.setdefault('facts', []).append(fr.store.facts - store0.facts)
                except Unreachable:
                    pass
                return
            gen = node.generators[i]
            try:
                itv = self.eval(fr, gen.iter)
            except Unreachable:
                return
            mode, elems = self.iteration(fr, itv, gen.iter)
            if mode == 'exact' and len(elems) <= MAX_UNROLL:
                todo = elems
                summary = False
            else:
                state['exact'] = False
                if mode == 'exact':
                    x = BOT
                    for e in elems:
                        x = join(x, e)
                    elems = x
                todo = [elems] if elems else []
                summary = True
                if elems and len(elems) <= MAX_DISJUNCTS and all((a[0] == 'obj' and '@' in a[1]) or a[0] in ('fn', 'clo', 'partial', 'lam') for a in elems):
                    todo = [av(a) for a in sorted(elems, key=str)]
            if summary:
                self.summary_depth += 1
            else:
                self.unroll_depth += 1
            fr.loop_depth += 1
            for ei_, e in enumerate(todo):
                saved = fr.store
                s = saved.copy()
                fr.store = s
                if not summary:
                    self.unroll_index.append(ei_)
                try:
                    self.assign(fr, gen.target, self.fresh_elem(fr, e, gen), gen)
                    ok = True
                    for c in gen.ifs:
                        ct, s_t, cf, s_f = self.cond(fr, c, fr.store)
                        if cf and ct:
                            state['exact'] = False
                        if not ct:
                            ok = False
                            break
                        fr.store = s_t
                    if ok:
                        go(i + 1)
                except Unreachable:
                    pass
                except BaseException:
                    if summary:
                        self.summary_depth -= 1
                    else:
                        self.unroll_depth -= 1
                        self.unroll_index.pop()
                    fr.loop_depth -= 1
                    raise
                if not summary:
                    self.unroll_index.pop()
                fr.store = saved
            fr.loop_depth -= 1
            if summary:
                self.summary_depth -= 1
            else:
                self.unroll_depth -= 1
        go(0)
        fr.store = store0
        self.last_comp_facts = state.get('facts', [])
        return state['exact'], results

    def ex_ListComp(self, fr, node):
        exact, res = self.comprehension(fr, node, [node.elt])
        if exact:
            return av(('seq', 'list', tuple(r[0] for r in res)))
        elem = BOT
        for r in res:
            elem = join(elem, erase_tags(r[0]))
        out = av(('list', elem))
        # filtering / copying a token list keeps it a token list
        if len(node.generators) == 1 and isinstance(node.elt, ast.Name) and isinstance(node.generators[0].target, ast.Name) \
                and node.elt.id == node.generators[0].target.id:
            try:
                itv = self.eval(fr, node.generators[0].iter)
            except Unreachable:
                itv = BOT
            toks = [a for a in itv if a[0] == 'toks']
            if toks and all(a[0] in ('toks',) for a in itv):
                return frozenset(('toks', a[1], None, a[3]) for a in toks)
            if itv and all(a[0] == 'lines' for a in itv):
                if not node.generators[0].ifs:
                    return itv      # an unfiltered copy of the source lines: same lines at the same positions
                return av(('list', self.mark_moved(elem)))
        return out

    def ex_GeneratorExp(self, fr, node):
        exact, res = self.comprehension(fr, node, [node.elt])
        facts = self.last_comp_facts
        if res and len(facts) == len(res) and any(facts) and len(res) <= MAX_DISJUNCTS:
            # elements selected by conditions that established facts (next(...) picks one of them)
            return av(('seq', 'list', tuple(r[0] for r in res), ('cfacts', tuple(facts))))
        if exact:
            return av(('seq', 'list', tuple(r[0] for r in res)))
        elem = BOT
        for r in res:
            elem = join(elem, erase_tags(r[0]))
        if len(node.generators) == 1 and isinstance(node.elt, ast.Name) and isinstance(node.generators[0].target, ast.Name) \
                and node.elt.id == node.generators[0].target.id:
            try:
                itv = self.eval(fr, node.generators[0].iter)
            except Unreachable:
                itv = BOT
            if itv and all(a[0] == 'lines' for a in itv):
                if not node.generators[0].ifs:
                    return itv
                return av(('list', self.mark_moved(elem)))
        return av(('list', elem))

    def ex_SetComp(self, fr, node):
        exact, res = self.comprehension(fr, node, [node.elt])
        elem = BOT
        for r in res:
            elem = join(elem, erase_tags(r[0]))
        return av(('set', elem))

    def ex_DictComp(self, fr, node):
        exact, res = self.comprehension(fr, node, [node.key, node.value])
        if exact and all(len(k) == 1 and is_key(next(iter(k))) for k, _ in res):
            items = []
            for k, v in res:
                kk = next(iter(k))
                items = [(k2, v2) for k2, v2 in items if k2 != kk] + [(kk, v)]
            return av(('kdict', tuple(items), None))
        keys, vals = BOT, BOT
        for k, v in res:
            keys = join(keys, k)
            vals = join(vals, erase_tags(v))
        nonconst = frozenset(a for a in keys if not is_key(a))
        ks = frozenset(a for a in keys if is_key(a))
        return av(('dict', None if nonconst else ks, vals, nonconst))

    # -- conditions and refinement ------------------------------------------------------------------------------------------
    def cond(self, fr, test, store, refine=True, value=None):
        """(may be true, store if true, may be false, store if false); the two stores are distinct objects when both are
        possible and refinement is on"""
        fact = None
        if value is None and refine and isinstance(test, ast.Compare) and len(test.ops) == 1 and isinstance(test.ops[0], (ast.In, ast.NotIn)):
            # `key in table`: remembered for table[key] on the side where it holds
            fr.store = store
            keep = list(fr.pending)
            try:
                fact = self.member_fact(fr, test.left, test.comparators[0])
            finally:
                fr.pending = keep
        r = self.cond_inner(fr, test, store, refine, value)
        if fact is not None:
            ct, s_t, cf, s_f = r
            if s_t is s_f:
                s_f = s_t.copy()
            side = s_t if isinstance(test.ops[0], ast.In) else s_f
            side.facts = side.facts | {fact}
            r = (ct, s_t, cf, s_f)
        return r

    def member_fact(self, fr, key, table):
        if not isinstance(table, (ast.Name, ast.Attribute)):
            return None
        try:
            tv = self.eval(fr, table)
        except (AnalysisError, Unreachable):
            return None
        if not tv or not all(a[0] in ('dict', 'kdict') for a in tv):
            return None
        ks, ts = self.sym_or_make(fr, key), self.sym_or_make(fr, table)
        if ks is None or ts is None:
            return None
        return ('in', ks, ts)

    def cond_inner(self, fr, test, store, refine=True, value=None):
        fr.store = store
        if isinstance(test, ast.BoolOp) and value is None:
            is_and = isinstance(test.op, ast.And)
            cur = store
            done = []          # stores leaving early (false for `and`, true for `or`)
            alive = True
            for v in test.values:
                ct, s_t, cf, s_f = self.cond(fr, v, cur, refine)
                if is_and:
                    if cf:
                        done.append(s_f)
                    if not ct:
                        alive = False
                        break
                    cur = s_t
                else:
                    if ct:
                        done.append(s_t)
                    if not cf:
                        alive = False
                        break
                    cur = s_f
            early = join_stores(done) if done else None
            if is_and:
                return alive, (cur if alive else None), bool(done), early
            return bool(done), early, alive, (cur if alive else None)
        if isinstance(test, ast.UnaryOp) and isinstance(test.op, ast.Not) and value is None:
            ct, s_t, cf, s_f = self.cond(fr, test.operand, store, refine)
            return cf, s_f, ct, s_t
        if value is None and isinstance(test, ast.Compare) and len(test.ops) == 1:
            r = self.cond_compare(fr, test, store, refine)
            if r is not None:
                return r
        if value is None and isinstance(test, ast.Compare) and refine:
            r = self.cond_bounds(fr, test, store)
            if r is not None:
                return r
        if value is None and isinstance(test, ast.Call):
            r = self.cond_call(fr, test, store, refine)
            if r is not None:
                return r
        # generic: truthiness of the value
        alts = None
        if value is not None:
            v = value
        elif isinstance(test, ast.Compare):
            v = self.compare_value(fr, test)
        else:
            fr.call_alts.pop(id(test), None)
            v = self.eval(fr, test)
            alts = fr.call_alts.pop(id(test), None) if isinstance(test, ast.Call) else None
        if value is None and self.mentions_type_test(test) and id(test) not in self.decided_quantifiers:
            self.unrefined_type_tests.add(id(test))
        if alts:
            # the callee returns truthy / falsy values on paths with different facts
            tf = [fs for (val, fs) in alts if {self.truth(a) for a in val} & {'t', '?'}]
            ff = [fs for (val, fs) in alts if {self.truth(a) for a in val} & {'f', '?'}]
            s_t, s_f = store, store.copy()
            if tf:
                g = tf[0]
                for x in tf[1:]:
                    g = g & x
                s_t.facts = s_t.facts | g
            if ff:
                g = ff[0]
                for x in ff[1:]:
                    g = g & x
                s_f.facts = s_f.facts | g
            return bool(tf), s_t, bool(ff), s_f
        t = {self.truth(a) for a in v}
        ct = bool(t & {'t', '?'})
        cf = bool(t & {'f', '?'})
        if isinstance(test, ast.Call) and ct and refine:
            words = set()
            for a_ in test.args:
                if isinstance(a_, ast.Constant) and isinstance(a_.value, str) and 0 < len(a_.value) <= 32:
                    words.add(a_.value)
            if words:
                s_f0 = store.copy() if cf else store
                store.guards = store.guards | words
                store.facts = store.facts | {('guard', w_) for w_ in words}
                return True, store, cf, s_f0
        if not refine or not (ct and cf):
            if ct and cf:
                return True, store, True, store.copy()
            return ct, store, cf, store
        s_t, s_f = store, store.copy()
        if isinstance(test, ast.Name) and self.owner_frame(fr, test.id) is fr:
            s_t.vars[test.id] = self.truthy_part(v)
            s_f.vars[test.id] = self.falsy_part(v)
        return True, s_t, True, s_f

    def split(self, fr, store, refine, name, yes, no, yes_extra=None, no_extra=None):
        """two-way outcome of a test on the value of `name` (may be None): yes / no are the parts of the value for which the
        test is true / false"""
        ct, cf = bool(yes), bool(no)
        if not refine:
            return ct, store, cf, (store.copy() if (ct and cf) else store)
        if ct and cf:
            s_t, s_f = store, store.copy()
        else:
            s_t = s_f = store
        if name is not None and self.owner_frame(fr, name) is fr:
            if ct:
                s_t.vars[name] = yes
            if cf:
                s_f.vars[name] = no
        if ct and yes_extra:
            yes_extra(s_t)
        if cf and no_extra:
            no_extra(s_f)
        return ct, s_t, cf, s_f

    def cond_compare(self, fr, test, store, refine):
        op = test.ops[0]
        left, right = test.left, test.comparators[0]
        neg = isinstance(op, (ast.NotEq, ast.IsNot, ast.NotIn))

        def flip(r):
            return (r[2], r[3], r[0], r[1]) if neg else r
        # len(x) ==/!= n
        if isinstance(op, (ast.Eq, ast.NotEq, ast.In, ast.NotIn)) and isinstance(left, ast.Call) and dotted(left.func) == 'len' and len(left.args) == 1:
            rv = self.eval(fr, right)
            if isinstance(op, (ast.In, ast.NotIn)):
                members = self.const_members(rv)
                n = None
                if members is not None and len(members) == 1 and next(iter(members))[1] == 'int':
                    n = next(iter(members))[2]
            else:
                n = self.const_int(rv)
            xv = self.eval(fr, left.args[0])
            if n is not None and all(a[0] in ('toks', 'seq', 'kdict') for a in xv):
                yes, no = set(), set()
                for a in xv:
                    if a[0] == 'toks':
                        if a[2] is None:
                            yes.add(('toks', a[1], n, a[3]))
                            no.add(a)
                        elif a[2] == n:
                            yes.add(a)
                        else:
                            no.add(a)
                    else:
                        ln = len(a[2]) if a[0] == 'seq' else len(a[1])
                        (yes if ln == n else no).add(a)
                name = left.args[0].id if isinstance(left.args[0], ast.Name) else None
                return flip(self.split(fr, store, refine, name, frozenset(yes), frozenset(no)))
            return None
        # type(x) / x.__class__  ==, is, in  C / (C, D);   type(x).__name__ ==, in 'C'
        subject, by_name = self.type_subject(left)
        if subject is not None and isinstance(op, (ast.Eq, ast.NotEq, ast.Is, ast.IsNot, ast.In, ast.NotIn)):
            cv = self.eval(fr, right)
            xv = self.eval(fr, subject)
            names = set()
            ok = True
            if by_name:
                members = self.const_members(cv) if isinstance(op, (ast.In, ast.NotIn)) else (set(cv) if all(is_const(a) for a in cv) and len(cv) == 1 else None)
                if members is None or not all(m[1] == 'str' for m in members):
                    ok = False
                else:
                    names = {m[2] for m in members}
            else:
                try:
                    names = self.class_names(fr, cv, test) if isinstance(op, (ast.In, ast.NotIn)) else {a[1] for a in cv if a[0] == 'cls'}
                except AnalysisError:
                    ok = False
                if not names or (not isinstance(op, (ast.In, ast.NotIn)) and len(names) != len(cv)):
                    ok = False
            if ok:
                yes, no = self.partition_type(xv, names, exact=True)
                name = subject.id if isinstance(subject, ast.Name) else None
                if self.partition_unknown:
                    self.unrefined_type_tests.add(id(test))
                return flip(self.split(fr, store, refine, name, yes, no))
            self.unrefined_type_tests.add(id(test))
            return None
        lv = self.eval(fr, left)
        rv = self.eval(fr, right)
        name = left.id if isinstance(left, ast.Name) else None
        if isinstance(op, (ast.Is, ast.IsNot, ast.Eq, ast.NotEq)):
            if len(rv) == 1:
                c = next(iter(rv))
                if c == NONE or is_const(c):
                    yes, no = set(), set()
                    for a in lv:
                        r = self.eq_atom(a, c, isinstance(op, (ast.Is, ast.IsNot)))
                        if r in ('t', '?'):
                            yes.add(c if (is_str_atom(a) or is_int_atom(a) or a == TOP) and r == '?' and is_const(c) else a)
                        if r in ('f', '?'):
                            no.add(a)
                    extra = None
                    if is_const(c) and c[1] == 'str':
                        extra = self.head_refiner(fr, left, frozenset([c[2]]))
                    return flip(self.split(fr, store, refine, name, frozenset(yes), frozenset(no), yes_extra=extra))
            if len(lv) == 1 and len(rv) >= 1:
                c = next(iter(lv))
                if (c == NONE or is_const(c)) and isinstance(right, ast.Name):
                    yes, no = set(), set()
                    for a in rv:
                        r = self.eq_atom(a, c, isinstance(op, (ast.Is, ast.IsNot)))
                        if r in ('t', '?'):
                            yes.add(a)
                        if r in ('f', '?'):
                            no.add(a)
                    return flip(self.split(fr, store, refine, right.id, frozenset(yes), frozenset(no)))
            return None
        if isinstance(op, (ast.In, ast.NotIn)):
            # key in {known dict(s)}: keep the dicts that have / lack the key
            if len(lv) == 1 and is_const(next(iter(lv))) and rv and all(a[0] == 'kdict' for a in rv):
                c = next(iter(lv))
                yes = frozenset(a for a in rv if any(k == c for k, _ in a[1]))
                no = frozenset(a for a in rv if not any(k == c for k, _ in a[1]))
                rname = right.id if isinstance(right, ast.Name) else None
                return flip(self.split(fr, store, refine, rname, yes, no))
            members = self.const_members(rv)
            if members is None:
                return None
            yes, no = set(), set()
            for a in lv:
                if is_const(a):
                    (yes if a in members else no).add(a)
                elif a == NONE:
                    no.add(a)
                elif is_str_atom(a) or is_int_atom(a) or a == TOP:
                    for m in members:
                        if (m[1] == 'str' and (is_str_atom(a) or a == TOP)) or (m[1] in ('int', 'bool') and (is_int_atom(a) or a == TOP)):
                            yes.add(m)
                    no.add(a)
                else:
                    no.add(a)
            strs = frozenset(m[2] for m in members if m[1] == 'str')
            extra = self.head_refiner(fr, left, strs) if strs else None
            return flip(self.split(fr, store, refine, name, frozenset(yes), frozenset(no), yes_extra=extra))
        return None

    @staticmethod
    def type_subject(e):
        """(x, by_name) when e is type(x) / x.__class__ (by_name False) or type(x).__name__ / x.__class__.__name__ (True)"""
        by_name = False
        if isinstance(e, ast.Attribute) and e.attr == '__name__':
            by_name = True
            e = e.value
        if isinstance(e, ast.Call) and dotted(e.func) == 'type' and len(e.args) == 1 and not e.keywords:
            return e.args[0], by_name
        if isinstance(e, ast.Attribute) and e.attr == '__class__':
            return e.value, by_name
        return None, False

    @staticmethod
    def mentions_type_test(e):
        for n in ast.walk(e):
            if isinstance(n, ast.Call) and dotted(n.func) in ('isinstance', 'issubclass', 'type', 'hasattr', 'callable'):
                return True
            if isinstance(n, ast.Attribute) and n.attr in ('__class__', '__name__', '__dict__', '__mro__', '__bases__'):
                return True
        return False

    def eq_atom(self, a, c, identity):
        """is atom a equal to the constant c: 't', 'f' or '?'"""
        if a == c:
            return 't'
        if c == NONE:
            return '?' if a == TOP else 'f'
        if a == NONE:
            return 'f'
        if is_const(a):
            if a[1] in ('int', 'bool') and c[1] in ('int', 'bool'):
                return 't' if a[2] == c[2] else 'f'
            return 'f'
        if a == TOP or a == EXT or a == DATA:
            return '?'
        if c[1] == 'str':
            return '?' if is_str_atom(a) else 'f'
        if c[1] in ('int', 'bool'):
            return '?' if (is_int_atom(a) or a == FLOAT) else 'f'
        if c[1] == 'bytes':
            return '?' if a == BYTES else 'f'
        return '?'

    def const_members(self, val):
        """the constants of one known finite collection (None if the value is not one)"""
        if len(val) != 1:
            return None
        a = next(iter(val))
        out = set()
        if a[0] == 'seq':
            for e in a[2]:
                if len(e) != 1 or not is_const(next(iter(e))):
                    return None
                out.add(next(iter(e)))
            return out
        if a[0] == 'kdict':
            return {k for k, _ in a[1]}
        if a[0] == 'dict' and a[1] is not None and not a[3]:
            return set(a[1])
        return None

    def head_refiner(self, fr, left, strs):
        """`head == 'kw'` where head was read from position 0 of a token list held by a local name: the token list of the
        true branch has that head keyword"""
        sym = self.sym_of(fr, left)
        if not (isinstance(sym, tuple) and sym and sym[0] == 'headof' and sym[2] == fr.fid):
            return None
        vname = sym[1]

        def apply(s):
            cur = s.vars.get(vname)
            if cur is None:
                return
            new = set()
            for a in cur:
                if a[0] == 'toks':
                    new.add(('toks', strs, a[2], a[3]))
                elif a[0] == 'seq' and a[2] and len(a[2][0]) == 1 and is_const(next(iter(a[2][0]))) and next(iter(a[2][0]))[1] == 'str':
                    if next(iter(a[2][0]))[2].lower() in strs:
                        new.add(a)
                else:
                    new.add(a)
            s.vars[vname] = frozenset(new)
        return apply

    def sym_of(self, fr, expr):
        """symbolic identity of the value of an expression: a field of the object currently carrying a tag, the head of a
        token list held by a name, the function's own parameter"""
        if isinstance(expr, ast.Name):
            return self.sym_of_name(fr, expr.id)
        if isinstance(expr, ast.Attribute) and isinstance(expr.value, ast.Name):
            return self.field_sym(fr, expr.value, expr.attr)
        if isinstance(expr, ast.Call):
            if dotted(expr.func) == 'getattr' and len(expr.args) == 2 and isinstance(expr.args[0], ast.Name) and not expr.keywords:
                try:
                    nv = self.eval(fr, expr.args[1])
                except (Unreachable, AnalysisError):
                    return None
                if len(nv) == 1 and is_const(next(iter(nv))) and next(iter(nv))[1] == 'str':
                    return self.field_sym(fr, expr.args[0], next(iter(nv))[2])
                return None
            if isinstance(expr.func, ast.Attribute) and expr.func.attr in ('lower', 'upper', 'casefold', 'strip') and not expr.args and not expr.keywords:
                s = self.sym_of(fr, expr.func.value)
                if isinstance(s, tuple) and s and s[0] == 'headof':
                    return s
                return None
        if isinstance(expr, ast.BinOp) and isinstance(expr.op, (ast.Add, ast.Sub)) and isinstance(expr.right, ast.Constant) and type(expr.right.value) is int:
            s_ = self.sym_of(fr, expr.left)
            if isinstance(s_, tuple) and s_ and s_[0] == 'ctr':
                return ('ctr', s_[1], s_[2] + (expr.right.value if isinstance(expr.op, ast.Add) else -expr.right.value))
            return None
        if isinstance(expr, ast.BinOp) and isinstance(expr.op, ast.Add) and isinstance(expr.left, ast.Constant) and type(expr.left.value) is int:
            s_ = self.sym_of(fr, expr.right)
            if isinstance(s_, tuple) and s_ and s_[0] == 'ctr':
                return ('ctr', s_[1], s_[2] + expr.left.value)
            return None
        if isinstance(expr, ast.Subscript) and isinstance(expr.value, ast.Name) and isinstance(expr.slice, ast.BinOp) \
                and isinstance(expr.slice.op, (ast.Add, ast.Sub)) and isinstance(expr.slice.left, ast.Name) and isinstance(expr.slice.right, ast.Constant) \
                and type(expr.slice.right.value) is int:
            inner = ast.copy_location(ast.Subscript(value=expr.value, slice=expr.slice.left, ctx=ast.Load()), expr)
            s_ = self.sym_of(fr, inner)
            if isinstance(s_, tuple) and s_ and s_[0] == 'at':
                d_ = expr.slice.right.value if isinstance(expr.slice.op, ast.Add) else -expr.slice.right.value
                return ('at', s_[1], s_[2] + d_)
            return None
        if isinstance(expr, ast.Subscript) and isinstance(expr.value, ast.Name) and isinstance(expr.slice, ast.Name) \
                and self.owner_frame(fr, expr.value.id) is fr and self.owner_frame(fr, expr.slice.id) is fr:
            # rows[i] of the physical lines: the element at the position the counter i has now (i is given a counter identity)
            v = fr.store.vars.get(expr.value.id)
            if v and all(a[0] == 'lines' for a in v):
                cur = fr.store.syms.get(expr.slice.id)
                if not (isinstance(cur, tuple) and cur and cur[0] == 'ctr'):
                    cur = ('ctr', (fr.fid, expr.slice.id) + pos_of(expr), 0)
                    fr.store.syms[expr.slice.id] = cur
                return ('at', cur[1], cur[2])
            return None
        if isinstance(expr, ast.Subscript) and isinstance(expr.value, ast.Name) and isinstance(expr.slice, ast.Constant) and expr.slice.value == 0:
            if self.owner_frame(fr, expr.value.id) is fr:
                v = fr.store.vars.get(expr.value.id)
                if v and any(a[0] == 'toks' for a in v):
                    return ('headof', expr.value.id, fr.fid)
        if isinstance(expr, ast.Subscript) and isinstance(expr.slice, ast.Constant) and type(expr.slice.value) is int \
                and isinstance(expr.value, (ast.Name, ast.Attribute)):
            # item.args[1]: the element at a fixed position of a value that has an identity (facts about it die with that identity,
            # and with any store through a subscript)
            s_ = self.sym_of(fr, expr.value)
            if isinstance(s_, tuple) and s_ and s_[0] in ('fld', 'val'):
                return ('sub', s_, expr.slice.value)
        return None

    def sym_or_make(self, fr, expr):
        s_ = self.sym_of(fr, expr)
        if s_ is None and isinstance(expr, ast.Name) and fr.scope is not None and self.owner_frame(fr, expr.id) is fr:
            s_ = ('val', fr.fid, expr.id) + pos_of(expr)
            fr.store.syms[expr.id] = s_
        return s_ if (isinstance(s_, tuple) and s_ and s_[0] in ('val', 'fld', 'sub')) else None

    def is_bounded(self, fr, expr):
        """was the value of this expression compared against program-chosen bounds on both sides on every path to here"""
        s_ = self.sym_of(fr, expr) if expr is not None else None
        return s_ is not None and ('lb', s_) in fr.store.facts and ('ub', s_) in fr.store.facts

    def bytes_bounded(self, fr, call):
        """bytes([v, ...]) / data.append(v) / data.extend([v, ...]): was every user-sized v range-checked on the way here"""
        if not isinstance(call, ast.Call) or len(call.args) != 1 or call.keywords:
            return False
        arg = call.args[0]
        elts = arg.elts if isinstance(arg, (ast.List, ast.Tuple)) else [arg]
        for e in elts:
            if isinstance(e, ast.Starred):
                return False
            try:
                v = self.eval(fr, e)
            except (AnalysisError, Unreachable):
                return False
            if all(is_int_atom(a) and a != INT_U and a[0] != 'idx' for a in v):
                continue
            if not all(is_int_atom(a) for a in v) or not self.is_bounded(fr, e):
                return False
        return True

    @staticmethod
    def safe_bound(val):
        return bool(val) and all(a == INT_S or (a[0] == 'c' and a[1] in ('int', 'bool')) for a in val)

    def cond_bounds(self, fr, test, store):
        """x < c, c <= x <= d ... with program-chosen c, d: which bounds of x hold on the true / false side"""
        ops = test.ops
        operands = [test.left] + list(test.comparators)
        if not all(isinstance(o, (ast.Lt, ast.LtE, ast.Gt, ast.GtE)) for o in ops):
            return None
        vals = [self.eval(fr, e) for e in operands]
        t_facts, f_facts = set(), set()
        for i, o in enumerate(ops):
            l, r = operands[i], operands[i + 1]
            lv, rv = vals[i], vals[i + 1]
            less = isinstance(o, (ast.Lt, ast.LtE))
            for subj, sv, other, ov, subj_is_small in ((l, lv, r, rv, less), (r, rv, l, lv, not less)):
                if self.safe_bound(ov) and not self.safe_bound(sv) and all(is_int_atom(a) or a in (TOP, DATA, FLOAT) for a in sv):
                    sy = self.sym_or_make(fr, subj)
                    if sy is None:
                        continue
                    # subj (small side) < other  => upper bound when true, lower bound when false (single comparison only)
                    t_facts.add(('ub' if subj_is_small else 'lb', sy))
                    if len(ops) == 1:
                        f_facts.add(('lb' if subj_is_small else 'ub', sy))
        if not t_facts and not f_facts:
            return None
        s_t, s_f = store, store.copy()
        s_t.facts = s_t.facts | t_facts
        s_f.facts = s_f.facts | f_facts
        return True, s_t, True, s_f

    def fact_syms_tags(self, sym):
        return {sym[1]} if sym[0] == 'fld' else set()

    def field_sym(self, fr, name_node, attr):
        try:
            v = self.lookup(fr, name_node.id, name_node)
        except AnalysisError:
            return None
        tags = set()
        for a in v:
            if a[0] != 'obj' or a[2] is None:
                return None
            tags.add(a[2])
            if (a[1], attr) in self.mutated_fields:
                return None
        if len(tags) != 1:
            return None
        t = next(iter(tags))
        if t in ('*', '?') or (isinstance(t, tuple) and t[0] == 'ctor'):
            return None
        return ('fld', t, attr)

    def refine_len(self, fr, store, name, n, positive):
        if self.owner_frame(fr, name) is not fr:
            return
        cur = store.vars.get(name)
        if cur is None:
            return
        if any(a[0] == 'toks' for a in cur):
            store.vars[name] = frozenset(('toks', a[1], n, a[3]) if (a[0] == 'toks' and a[2] is None) else a for a in cur
                                         if not (a[0] == 'toks' and a[2] is not None and a[2] != n))

    def partition_type(self, val, names, exact=False):
        yes, no = set(), set()
        self.partition_unknown = False
        for a in val:
            if a[0] == 'caught':
                ky, kn = set(), set()
                for rec in self.recs_of(a):
                    r_ = self.atom_is_instance(rec.atom, names, exact)
                    if r_ == 'f' and not isinstance(rec.origin, ast.Raise) and any(self.is_subclass(n_, rec.atom[1]) for n_ in names):
                        r_ = '?'        # a library raiser / stand-in stands for any exception below its class
                    if r_ in ('t', '?'):
                        ky.add(rec.key())
                    if r_ in ('f', '?'):
                        kn.add(rec.key())
                if ky:
                    yes.add(('caught', a[1], frozenset(ky)))
                if kn:
                    no.add(('caught', a[1], frozenset(kn)))
                continue
            r = self.atom_is_instance(a, names, exact)
            if r == 't':
                yes.add(a)
            elif r == 'f':
                no.add(a)
            else:
                if a in (TOP, EXT):
                    self.partition_unknown = True
                # unknown value: on the true branch it is a value of (one of) the tested types
                canon = {'int': INT_U, 'str': STR_U, 'bytes': BYTES, 'bool': BOOL, 'float': FLOAT}
                added = False
                for n in names:
                    if n in canon:
                        yes.add(canon[n])
                        added = True
                if not added:
                    yes.add(a)
                no.add(a)
        return frozenset(yes), frozenset(no)

    def atom_is_instance(self, a, names, exact=False):
        k = a[0]
        if a == TOP or a == EXT or a == DATA:
            return '?'
        if k == 'obj':
            if exact:
                return 't' if base_class(a[1]) in names else 'f'
            return 't' if any(self.is_subclass(a[1], n) for n in names) else 'f'
        if k == 'caught':
            res = set()
            for rec in self.recs_of(a):
                r_ = self.atom_is_instance(rec.atom, names, exact)
                if r_ == 'f' and not isinstance(rec.origin, ast.Raise) and any(self.is_subclass(n_, rec.atom[1]) for n_ in names):
                    r_ = '?'        # a library raiser stands for any exception below its class
                res.add(r_)
            return res.pop() if len(res) == 1 else '?'
        prim = None
        if is_str_atom(a):
            prim = {'str'}
        elif a == BOOL or (k == 'c' and a[1] == 'bool'):
            prim = {'bool'} if exact else {'bool', 'int'}
        elif is_int_atom(a):
            prim = {'int'}
        elif a == BYTES or (k == 'c' and a[1] == 'bytes'):
            prim = {'bytes', 'bytearray'}
        elif a == FLOAT:
            prim = {'float'}
        elif k in ('list', 'toks', 'lines') or (k == 'seq' and a[1] == 'list'):
            prim = {'list'}
        elif k == 'seq' and a[1] == 'tuple':
            prim = {'tuple'}
        elif k in ('set',) or (k == 'seq' and a[1] == 'set'):
            prim = {'set', 'frozenset'}
        elif k in ('dict', 'kdict'):
            prim = {'dict'}
        elif a == NONE:
            prim = {'NoneType'}
        elif k in ('fn', 'clo', 'lam', 'bound', 'partial', 'builtin', 'lib', 'cls', 'mod'):
            prim = {'function'} if k != 'cls' else {'type'}
        if prim is None:
            return '?'
        if 'object' in names and not exact:
            return 't'
        return 't' if prim & set(names) else 'f'

    def class_names(self, fr, val, node):
        names = set()
        for a in val:
            if a[0] == 'cls':
                names.add(a[1])
            elif a[0] == 'seq':
                for e in a[2]:
                    names |= self.class_names(fr, e, node)
            elif a == TOP:
                raise self.err(node, 'class argument of isinstance is not understood')
        return names

    def cond_call(self, fr, test, store, refine):
        d = dotted(test.func)
        if d == 'isinstance' and len(test.args) == 2 and self.is_builtin_name(fr, 'isinstance'):
            xv = self.eval(fr, test.args[0])
            names = self.class_names(fr, self.eval(fr, test.args[1]), test)
            if not names:
                return None
            yes, no = self.partition_type(xv, names)
            name = test.args[0].id if isinstance(test.args[0], ast.Name) else None
            if self.partition_unknown:
                self.unrefined_type_tests.add(id(test))
            ye = ne = None
            if xv and all(a[0] == 'caught' for a in xv) and store.vars.get('$handling') and {a[1] for a in xv} == {a[1] for a in store.vars['$handling']}:
                def ye(s_, yes=yes):
                    s_.vars['$handling'] = yes

                def ne(s_, no=no):
                    s_.vars['$handling'] = no
            return self.split(fr, store, refine, name, yes, no, yes_extra=ye, no_extra=ne)
        if d == 'issubclass' and len(test.args) == 2 and self.is_builtin_name(fr, 'issubclass'):
            subject, by_name = self.type_subject(test.args[0])
            if subject is not None and not by_name:
                xv = self.eval(fr, subject)
                names = self.class_names(fr, self.eval(fr, test.args[1]), test)
                if names:
                    yes, no = self.partition_type(xv, names)
                    name = subject.id if isinstance(subject, ast.Name) else None
                    if self.partition_unknown:
                        self.unrefined_type_tests.add(id(test))
                    return self.split(fr, store, refine, name, yes, no)
            # issubclass(<class value>, C): e.g. the exception type handed to __exit__
            cv = self.eval(fr, test.args[0])
            names = self.class_names(fr, self.eval(fr, test.args[1]), test)
            if names and cv and all(a[0] == 'cls' or a == NONE for a in cv):
                yes = frozenset(a for a in cv if a[0] == 'cls' and any(self.is_subclass(a[1], n) for n in names))
                no = frozenset(a for a in cv if a not in yes)
                name = test.args[0].id if isinstance(test.args[0], ast.Name) else None
                return self.split(fr, store, refine, name, yes, no)
            self.unrefined_type_tests.add(id(test))
            return None
        if d == 'callable' and len(test.args) == 1 and self.is_builtin_name(fr, 'callable'):
            xv = self.eval(fr, test.args[0])
            yes, no = set(), set()
            for a in xv:
                if a[0] in ('fn', 'clo', 'lam', 'partial', 'bound', 'cls', 'builtin', 'lib', 'bmeth') or \
                        (a[0] == 'obj' and a[1] in self.classes and self.find_method(a[1], '__call__')[1] is not None):
                    yes.add(a)
                elif a in (TOP, EXT):
                    yes.add(a)
                    no.add(a)
                else:
                    no.add(a)
            name = test.args[0].id if isinstance(test.args[0], ast.Name) else None
            return self.split(fr, store, refine, name, frozenset(yes), frozenset(no))
        if d == 'hasattr' and len(test.args) == 2 and self.is_builtin_name(fr, 'hasattr'):
            xv = self.eval(fr, test.args[0])
            nv = self.eval(fr, test.args[1])
            if len(nv) == 1 and is_const(next(iter(nv))):
                attr = next(iter(nv))[2]
                yes, no = set(), set()
                for a in xv:
                    if a[0] == 'obj' and a[1] in self.classes:
                        (yes if self.load_attr_atom(fr, a, attr, test) else no).add(a)
                    else:
                        yes.add(a)
                        no.add(a)
                name = test.args[0].id if isinstance(test.args[0], ast.Name) else None
                return self.split(fr, store, refine, name, frozenset(yes), frozenset(no))
            return None
        if d == 'all' and len(test.args) == 1 and self.is_builtin_name(fr, 'all'):
            facts0 = store.facts
            v, gained = self.eval_all(fr, test)
            fr.store = store
            store.facts = facts0
            t = {self.truth(a) for a in v}
            ct, cf = bool(t & {'t', '?'}), bool(t & {'f', '?'})
            if ct and cf:
                s_t, s_f = store, store.copy()
            else:
                s_t = s_f = store
            if ct and gained:
                s_t.facts = s_t.facts | gained
            return ct, s_t, cf, s_f
        if isinstance(test.func, ast.Attribute) and test.func.attr == 'isdecimal' and not test.args and isinstance(test.func.value, ast.Name):
            # text made of decimal digits only: int() accepts it (isdigit() is not enough: it is also true for '\u00b2')
            xv = self.eval(fr, test.func.value)
            yes = frozenset(('str', 's', 'digits') if (a[0] in ('str', 'tok')) else a for a in xv
                            if not (a[0] == 'c' and a[1] == 'str' and not a[2].isdecimal()) and (is_str_atom(a) or a in (TOP, DATA)))
            no = frozenset(a for a in xv if not (a[0] == 'c' and a[1] == 'str' and a[2].isdecimal()))
            return self.split(fr, store, refine, test.func.value.id, yes, no)
        if isinstance(test.func, ast.Attribute) and test.func.attr == 'startswith' and len(test.args) == 1:
            v = self.eval(fr, test)
            kv = self.eval(fr, test.args[0])
            t = {self.truth(a) for a in v}
            ct, cf = bool(t & {'t', '?'}), bool(t & {'f', '?'})
            if ct and cf:
                s_t, s_f = store, store.copy()
            else:
                s_t = s_f = store
            if ct and len(kv) == 1 and is_const(next(iter(kv))) and next(iter(kv))[1] == 'str':
                s_t.guards = s_t.guards | {next(iter(kv))[2]}
                s_t.facts = s_t.facts | {('guard', next(iter(kv))[2])}
            return ct, s_t, cf, s_f
        return None

    def is_builtin_name(self, fr, name):
        try:
            v = self.lookup(fr, name)
        except AnalysisError:
            return False
        return v == av(('builtin', name))

    def eval_all(self, fr, call):
        """all(<elements>): the facts established by the elements hold when the result is true (every element was evaluated)"""
        arg = call.args[0]
        if isinstance(arg, (ast.GeneratorExp, ast.ListComp)) and len(arg.generators) == 1 and not arg.generators[0].ifs:
            gen = arg.generators[0]
            store0 = fr.store
            work = store0.copy()
            fr.store = work
            try:
                itv = self.eval(fr, gen.iter)
                mode, elems = self.iteration(fr, itv, gen.iter)
                gained = frozenset()
                truths = set()
                if mode == 'exact' and len(elems) <= MAX_UNROLL:
                    ok = True
                    for e in elems:
                        try:
                            self.assign(fr, gen.target, self.fresh_elem(fr, e, gen), gen)
                            ev_ = self.eval(fr, arg.elt)
                            truths |= {self.truth(a_) for a_ in ev_}
                        except Unreachable:
                            ok = False
                            break
                    if ok and elems:
                        gained = fr.store.facts - store0.facts
                    res = av(BOOL) if (elems and truths != {'t'}) else av(const(True))
                else:
                    if mode == 'exact':
                        x = BOT
                        for e in elems:
                            x = join(x, e)
                        elems = x
                    if elems:
                        try:
                            self.assign(fr, gen.target, self.fresh_elem(fr, elems, gen), gen)
                            ev_ = self.eval(fr, arg.elt)
                            truths |= {self.truth(a_) for a_ in ev_}
                        except Unreachable:
                            truths.add('?')
                    res = av(const(True)) if (not elems or truths == {'t'}) else av(BOOL)
            except Unreachable:
                fr.store = store0
                raise
            fr.store = store0
            return res, gained
        self.eval(fr, arg)
        return av(BOOL), frozenset()

    # -- calls --------------------------------------------------------------------------------------------------------------
    def eval_args(self, fr, node):
        """argument lists of a call: one per alternative shape of a *argument that is one of several known sequences
        (`cls(*fields.values())` where the class and the field dict belong to the same object)"""
        alts = [Args()]
        for i, a in enumerate(node.args):
            if isinstance(a, ast.Starred):
                sv = self.eval(fr, a.value)
                seqs = [x for x in sv if x[0] == 'seq']
                if len(seqs) > 1 and len(seqs) == len([x for x in sv if x != NONE]) and len(alts) == 1 and len(seqs) <= 64:
                    base = alts[0]
                    alts = []
                    for x in seqs:
                        n = Args(list(base.pos), base.star, dict(base.kw), base.kwstar, base.marker, dict(base.syms))
                        n.kwstar_keys = base.kwstar_keys
                        n.names = dict(base.names)
                        if n.star is None:
                            n.pos.extend(x[2])
                            if len(x) > 3:
                                n.marker = x[3]
                        else:
                            for e in x[2]:
                                n.star = join(n.star, e)
                        alts.append(n)
                    continue
                mode, elems = self.iteration(fr, sv, a)
                for args in alts:
                    if mode == 'exact' and args.star is None:
                        args.pos.extend(elems)
                        for x in sv:
                            if x[0] == 'seq' and len(x) > 3:
                                args.marker = x[3]
                    else:
                        es = elems
                        if mode == 'exact':
                            y = BOT
                            for e in elems:
                                y = join(y, e)
                            es = y
                        args.star = join(args.star or BOT, es)
                        if not args.star:
                            args.star = None
            else:
                v = self.eval(fr, a)
                s_ = self.sym_of(fr, a)
                if s_ is None and isinstance(a, ast.Name) and fr.scope is not None and self.owner_frame(fr, a.id) is fr \
                        and all(is_str_atom(b) or is_int_atom(b) or b == NONE for b in v):
                    # the value this local holds until it is rebound: lets "f(x) returned normally" be remembered for plain values
                    s_ = ('val', fr.fid, a.id) + pos_of(a)     # the site tells this value from one the name holds after a rebinding
                    fr.store.syms[a.id] = s_
                for args in alts:
                    if args.star is not None:
                        args.star = join(args.star, v)
                    else:
                        if s_ is not None:
                            args.syms[len(args.pos)] = s_
                        if isinstance(a, ast.Name):
                            args.names[len(args.pos)] = a.id
                        args.pos.append(v)
        for k in node.keywords:
            v = self.eval(fr, k.value)
            s_ = self.sym_of(fr, k.value) if k.arg is not None else None
            for args in alts:
                if k.arg is None:
                    for x in v:
                        if x[0] == 'kdict':
                            for kk, vv in x[1]:
                                if kk[1] == 'str':
                                    args.kw[kk[2]] = join(args.kw.get(kk[2], BOT), vv)
                        elif x[0] == 'dict':
                            if not x[2]:
                                continue
                            args.kwstar = join(args.kwstar or BOT, x[2])
                            if x[1] is None or x[3] or args.kwstar_keys is None:
                                args.kwstar_keys = None
                            else:
                                args.kwstar_keys = args.kwstar_keys | frozenset(kk[2] for kk in x[1] if kk[1] == 'str')
                        elif x == TOP:
                            args.kwstar = join(args.kwstar or BOT, av(TOP))
                            args.kwstar_keys = None
                else:
                    if s_ is not None:
                        args.syms[k.arg] = s_
                    if isinstance(k.value, ast.Name):
                        args.names[k.arg] = k.value.id
                    args.kw[k.arg] = v
        return alts

    def ex_Call(self, fr, node):
        f = node.func
        if isinstance(f, ast.Name):
            if f.id == 'super' and self.is_builtin_name(fr, 'super'):
                return self.make_super(fr, node)
            if f.id == 'all' and len(node.args) == 1 and not node.keywords and self.is_builtin_name(fr, 'all'):
                facts0 = fr.store.facts
                v, _ = self.eval_all(fr, node)
                fr.store.facts = facts0
                return v
        if isinstance(f, ast.Name) and f.id in ('isinstance', 'issubclass', 'hasattr', 'callable') and self.is_builtin_name(fr, f.id):
            r_ = self.cond_call(fr, node, fr.store, False)
            if r_ is not None:
                ct, _, cf, _ = r_
                if ct and not cf:
                    return av(const(True))
                if cf and not ct:
                    return av(const(False))
                return av(BOOL)
        if isinstance(f, ast.Attribute):
            return self.method_call(fr, node)
        callee = self.eval(fr, f)
        lalts = fr.lookup_alts.pop(id(f), None)
        out = BOT
        if lalts:
            # TABLE[head](...): every alternative is called with the token list narrowed to the heads that select it
            base = fr.store
            facts = None
            for (val, heads, vname) in lalts:
                s2 = base.copy()
                fr.store = s2
                self.apply_head_alt(s2, vname, heads)
                try:
                    for args in self.eval_args(fr, node):
                        out = join(out, self.call_value(fr, val, args, node))
                    facts = s2.facts if facts is None else (facts & s2.facts)
                except Unreachable:
                    pass
            fr.store = base
            if facts is not None:
                base.facts = base.facts | facts
            return out
        for args in self.eval_args(fr, node):
            out = join(out, self.call_value(fr, callee, args, node))
        return out

    def make_super(self, fr, node):
        f = fr
        while f is not None and f.defcls is None:
            f = f.parent
        if f is None or f.self_atoms is None:
            raise self.err(node, 'super() outside a method')
        return av(('super', f.defcls, f.self_atoms))

    def method_call(self, fr, node):
        f = node.func
        recv = self.eval(fr, f.value)
        if f.attr == 'get' and 1 <= len(node.args) <= 2 and not node.keywords:
            default = av(NONE)
            if len(node.args) == 2:
                try:
                    default = self.eval(fr, node.args[1])
                except Unreachable:
                    default = None
            if default is not None:
                self.dispatch_alts(fr, node, recv, node.args[0], default)
        out = BOT
        for args in self.eval_args(fr, node):
            out = join(out, self.method_call1(fr, node, recv, args))
        return out

    def method_call1(self, fr, node, recv, args):
        f = node.func
        data = [a for a in recv if a[0] in ('list', 'seq', 'toks', 'dict', 'kdict', 'set', 'str', 'tok', 'c', 'bytes', 'file', 'lines', 'int', 'idx', 'libobj', 'float', 'bool')]
        rest = frozenset(a for a in recv if a not in data and a != NONE)
        out = BOT
        if data:
            newrecv = set(a for a in recv if a not in data)
            mutated = False
            for a in data:
                res, new = self.apply_method(fr, a, f.attr, args, node)
                out = join(out, res)
                if new is not None and new != a:
                    mutated = True
                    newrecv.add(new)
                else:
                    newrecv.add(a)
            if mutated:
                if isinstance(f.value, ast.Name) and fr.scope is not None and f.value.id in fr.scope.params and f.attr in ('append', 'extend', 'insert') \
                        and self.owner_frame(fr, f.value.id) is fr and tags_of(frozenset(newrecv)):
                    raise self.err(node, 'a list of items is mutated through the parameter {!r}: aliasing is not modelled'.format(f.value.id))
                self.write_back(fr, f.value, normalise(frozenset(newrecv)), node)
                self.note_mutation(fr, f.value)
        if rest:
            callee = self.load_attr(fr, rest, f.attr, node)
            if callee:
                out = join(out, self.call_value(fr, callee, args, node))
        return out

    def call_value(self, fr, callee, args, node):
        out = BOT
        facts_in = fr.store.facts
        gained = None
        ncallees = 0
        for a in callee:
            k = a[0]
            fr.store.facts = facts_in
            if k in ('fn', 'clo'):
                r = self.call_user(fr, a, args, node, None)
            elif k == 'bound':
                r = self.call_user(fr, ('fn', a[2]) if not isinstance(a[2], tuple) else a[2], args, node, av(a[1]))
            elif k == 'cls':
                r = self.construct(fr, a[1], args, node)
            elif k == 'partial':
                merged = Args(list(a[2]) + list(args.pos), args.star, dict(a[3]), args.kwstar, args.marker)
                merged.kwstar_keys = args.kwstar_keys
                merged.kw.update(args.kw)
                for i, sname in args.syms.items():
                    merged.syms[i + len(a[2]) if isinstance(i, int) else i] = sname
                r = self.call_value(fr, av(a[1]), merged, node)
            elif k == 'builtin':
                r = self.call_builtin(fr, a[1], args, node)
            elif k == 'lib' and a[1] in ('<attrgetter>', '<itemgetter>', '<methodcaller>') and args.pos:
                r = BOT
                target = args.pos[0]
                for spec in a[2]:
                    for c_ in spec:
                        if not (is_const(c_)):
                            raise self.err(node, 'operator.{} with a computed name'.format(a[1][1:-1]))
                        if a[1] == '<attrgetter>':
                            v_ = target
                            for part in str(c_[2]).split('.'):
                                v_ = self.load_attr(fr, v_, part, node)
                            r = join(r, v_)
                        elif a[1] == '<itemgetter>':
                            r = join(r, self.index_of(fr, target, av(c_), node))
                        else:
                            m_ = self.load_attr(fr, target, str(c_[2]), node)
                            if m_:
                                r = join(r, self.call_value(fr, m_, Args(list(a[2][1:]), None, dict(a[3])), node))
                            break
                    if a[1] == '<methodcaller>':
                        break
                if len(a[2]) > 1 and a[1] != '<methodcaller>':
                    r = av(('list', erase_tags(r)))
            elif k == 'lib' and a[1] in ('<nt_replace>', '<nt_asdict>'):
                obj = a[2]
                if a[1] == '<nt_asdict>':
                    r = self.vars_of(fr, av(obj), node)
                else:
                    ci_ = self.classes[obj[1]]
                    kw = {}
                    for f_, _, init in self.record_fields(ci_):
                        if init:
                            kw[f_] = args.kw[f_] if f_ in args.kw else self.load_attr_atom(fr, obj, f_, node)
                    r = self.construct(fr, base_class(obj[1]), Args([], None, kw), node) if all(kw.values()) else BOT
            elif k == 'lib' and a[1] == '<wraps>':
                r = args.pos[0] if args.pos else av(TOP)
                for w in r:
                    if w[0] in ('fn', 'clo'):
                        self.fn_attrs[(w, '__wrapped__')] = a[2]
            elif k == 'lib':
                r = self.call_lib(fr, a[1], args, node)
            elif k == 'bmeth':
                r, new = self.apply_method(fr, a[1], a[2], args, node)
                if new is not None and new != a[1]:
                    raise self.err(node, 'mutating method called through an alias')
            elif a == EXT or k == 'ext':
                if fr.summary is not None:
                    fr.summary.pure = False
                r = av(EXT)
            elif a == TOP:
                raise self.err(node, 'call through a value the analysis does not know: {}'.format(unparse(node.func)[:60]))
            elif k == 'ctx' or k == 'super':
                raise self.err(node, 'call of a context manager / super object')
            elif k == 'obj' and a[1] in self.classes:
                c_, q_ = self.find_method(a[1], '__call__')
                if q_ is None:
                    continue
                r = self.call_user(fr, ('fn', q_), args, node, av(a))
            elif a == NONE:
                continue
            else:
                continue
            if a in self.binding_atoms and INT_U in r:
                r = frozenset(INT_S if x == INT_U else x for x in r)
            ncallees += 1
            g = fr.store.facts - facts_in
            gained = g if gained is None else (gained & g)
            out = join(out, r)
        fr.store.facts = facts_in | (gained or frozenset())
        if ncallees != 1:
            fr.call_alts.pop(id(node), None)
        return out

    def default_value(self, deffr, node):
        fr = deffr if deffr is not None else self.module
        saved_store, saved_pending = fr.store, fr.pending
        fr.pending = []
        try:
            v = self.eval(fr, node)
        except Unreachable:
            v = BOT
        fr.store, fr.pending = saved_store, saved_pending
        return v

    def bind_params(self, deffr, fnnode, args, self_val):
        a = fnnode.args
        names = [p.arg for p in a.posonlyargs + a.args]
        defaults = dict(zip(names[len(names) - len(a.defaults):], a.defaults))
        kwonly = [p.arg for p in a.kwonlyargs]
        kwdefaults = {p.arg: d for p, d in zip(a.kwonlyargs, a.kw_defaults) if d is not None}
        pos = list(args.pos)
        syms = {}
        shift = 0
        if self_val is not None:
            pos = [self_val] + pos
            shift = 1
        bound = {}
        for i, name in enumerate(names):
            if i < len(pos):
                bound[name] = pos[i]
                s = args.syms.get(i - shift)
                if s is not None and i >= shift:
                    syms[name] = s
        extra = pos[len(names):]
        if extra and a.vararg is None:
            return None, None
        if a.vararg is not None:
            if args.star is None:
                bound[a.vararg.arg] = av(('seq', 'tuple', tuple(extra)))
            else:
                e = args.star
                for x in extra:
                    e = join(e, erase_tags(x))
                bound[a.vararg.arg] = av(('list', e))
        kwextra = {}
        for k, v in args.kw.items():
            if (k in names and k not in [p.arg for p in a.posonlyargs]) or k in kwonly:
                if k in bound:
                    return None, None
                bound[k] = v
                s = args.syms.get(k)
                if s is not None:
                    syms[k] = s
            elif a.kwarg is not None:
                kwextra[k] = v
            else:
                return None, None
        def kw_may(name):
            return args.kwstar is not None and (args.kwstar_keys is None or name in args.kwstar_keys)
        for name in names:
            if name not in bound:
                cand = BOT
                if args.star is not None:
                    cand = join(cand, args.star)
                if kw_may(name):
                    cand = join(cand, args.kwstar)
                if name in defaults:
                    cand = join(cand, self.default_value(deffr, defaults[name]))
                if not cand:
                    return None, None
                bound[name] = cand
        for name in kwonly:
            if name not in bound:
                cand = BOT
                if kw_may(name):
                    cand = join(cand, args.kwstar)
                if name in kwdefaults:
                    cand = join(cand, self.default_value(deffr, kwdefaults[name]))
                if not cand:
                    return None, None
                bound[name] = cand
        if a.kwarg is not None:
            if args.kwstar is None:
                bound[a.kwarg.arg] = av(('kdict', tuple((const(k), v) for k, v in kwextra.items()), None))
            else:
                vals = args.kwstar
                for v in kwextra.values():
                    vals = join(vals, erase_tags(v))
                if args.kwstar_keys is not None:
                    ks = frozenset(const(k) for k in args.kwstar_keys if k not in names and k not in kwonly) | frozenset(const(k) for k in kwextra)
                    bound[a.kwarg.arg] = av(('dict', ks, vals, BOT))
                else:
                    bound[a.kwarg.arg] = av(('dict', None, vals, av(STR_S)))
        return bound, syms

    def brand(self, qual, name, val):
        """a string parameter is `this activation's parameter`: later uses can be recognised as the same value"""
        if not any(a[0] == 'str' and a[1] == 'u' and (a[2] is None or (isinstance(a[2], tuple) and a[2][0] == 'p')) for a in val):
            return val
        return frozenset(('str', 'u', ('p', qual, name)) if (a[0] == 'str' and a[1] == 'u' and (a[2] is None or (isinstance(a[2], tuple) and a[2][0] == 'p'))) else a
                         for a in val)

    def call_user(self, fr, fnatom, args, node, self_val):
        q = fnatom[1]
        fnnode = self.funcs.get(q)
        if fnnode is None:
            raise self.err(node, 'function {} not found'.format(q))
        parent = None
        if fnatom[0] == 'clo':
            parent = self.frames.get(fnatom[2])
            if parent is None:
                raise self.err(node, 'closure {} has lost its defining frame'.format(q))
        scope = self.scope_of(fnnode)
        if self.decor.get(q) and not fnnode.args.args and not self.in_module_init and parent is None \
                and any((d_ or '').split('.')[-1] in ('cache', 'lru_cache') for d_ in self.decor[q]) and not args.pos and not args.kw:
            # @cache def table(): ... builds its value once: the objects it creates are as unique as module-level ones
            if q not in self.cached_results:
                saved = (self.in_module_init, self.summary_depth, self.unroll_depth)
                self.in_module_init, self.summary_depth, self.unroll_depth = True, 0, 0
                self._mro_cache.clear(); self._fm_cache.clear(); self._sub_cache.clear()
                try:
                    top = Frame(self, '<cache>', None, None, self.fid_for(('cache', q)))
                    top.store = Store()
                    top.summary = Summary()
                    self.cached_results[q] = self.call_user(top, fnatom, Args(), node, None)
                finally:
                    self.in_module_init, self.summary_depth, self.unroll_depth = saved
                self.reached.add(q)
            if not self.cached_results[q]:
                return BOT
            return self.cached_results[q]
        bound, syms = self.bind_params(parent, fnnode, args, self_val)
        if bound is None:
            self.arity_mismatch.setdefault(id(node), (fr.qual, node, q))
            return BOT          # arity mismatch: a TypeError, not among the judged faults
        self.call_edges.setdefault((fr.qual, id(node)), set()).add(q)
        if scope.has_yield:
            if 'contextlib.contextmanager' in self.decor.get(q, ()) or 'contextmanager' in self.decor.get(q, ()):
                return av(('ctx', fnatom, tuple(sorted(bound.items())), fnatom[2] if fnatom[0] == 'clo' else 0))
            return av(('gen', fnatom, tuple(sorted(bound.items())), fnatom[2] if fnatom[0] == 'clo' else 0))
        tin = set()
        for v in bound.values():
            tags_of(v, acc=tin)
        for s_ in syms.values():
            # a plain value read from a field of a tagged object: what the callee learns about it is about that object
            while isinstance(s_, tuple) and s_ and s_[0] == 'sub':
                s_ = s_[1]
            if isinstance(s_, tuple) and s_ and s_[0] == 'fld':
                tin.add(s_[1])
        if parent is not None:
            tin |= parent.valid_tags()
        facts_in = frozenset(f for f in fr.store.facts if self.fact_tags(f) <= tin)
        okfact = self.ok_fact(q, fnnode, bound, syms) if parent is None else None
        pfid = fnatom[2] if fnatom[0] == 'clo' else 0
        guards = fr.store.guards if not any(k[0] == q for k in self.active if isinstance(k, tuple)) else frozenset()
        hv_in = self.reachable_hv(fr.store, bound.values())
        key = (q, pfid, tuple(sorted(bound.items())), facts_in, tuple(sorted(syms.items())), guards, frozenset(hv_in.items()) if hv_in else None)
        is_ctor = any(isinstance(t, tuple) and t and t[0] == 'ctor' for t in tin)
        memo = not scope.mutates_free and not is_ctor
        summ = None
        if key in self.active:
            summ = self.summaries.get(key) or Summary()
            self.rec_hits.add(key)
        elif memo and key in self.done:
            summ = self.summaries[key]
        else:
            for _ in range(8):
                before = self.summaries.get(key)
                before = before.snapshot() if before is not None else None
                self.rec_hits.discard(key)
                summ = self.run_function(fr, fnatom, fnnode, parent, pfid, key, bound, syms, tin, facts_in, self_val, node, memo)
                if not memo or key not in self.rec_hits or summ.snapshot() == before:
                    break
                # the function called itself: iterate here until its summary is stable instead of waiting for another round
                self.done.discard(key)
                fr.pending = [r for r in fr.pending]
        valid = tin

        def f(t):
            return t if t in valid else self.ret_tag(node, t)
        suppress = okfact is not None and okfact in fr.store.facts and summ.pure
        if suppress and summ.excs:
            self.ev_discharge[id(node)] = (fr.qual, node, 'dominated', q, okfact)
        if not suppress:
            for rec in summ.excs.values():
                r_ = rec.retag(f).via(fr.qual, node)
                r_.pfacts = fr.store.facts
                fr.pending.append(r_)
        if not summ.pure and fr.summary is not None:
            fr.summary.pure = False
        if summ.facts is None:
            return BOT
        if summ.hv:
            fr.store.vars.update(summ.hv)
        if summ.narrow and args.names:
            pnames = [p_.arg for p_ in fnnode.args.posonlyargs + fnnode.args.args]
            shift = 1 if self_val is not None else 0
            for where, vname in args.names.items():
                pn = where if isinstance(where, str) else (pnames[where + shift] if where + shift < len(pnames) else None)
                if pn in summ.narrow:
                    self.refine_len(fr, fr.store, vname, summ.narrow[pn], True)
        new_facts = summ.facts
        if okfact is not None and summ.pure:
            new_facts = new_facts | {okfact}
        if summ.alts:
            extra = frozenset({okfact}) if (okfact is not None and summ.pure) else frozenset()
            fr.call_alts[id(node)] = [(map_tags(v, f), fs | extra) for v, fs in summ.alts]
        else:
            fr.call_alts.pop(id(node), None)
        if new_facts:
            fr.store.facts = fr.store.facts | new_facts
        return map_tags(summ.ret, f)

    def rebinds(self, fnnode):
        """names a function assigns (a parameter that is rebound no longer describes the caller's argument)"""
        r = self._rebinds.get(id(fnnode))
        if r is None:
            r = set()
            for n in ast.walk(fnnode):
                if isinstance(n, ast.Name) and isinstance(n.ctx, (ast.Store, ast.Del)):
                    r.add(n.id)
            self._rebinds[id(fnnode)] = r
        return r

    def reachable_hv(self, store, values):
        """the flow-sensitive attributes of the identified objects reachable from the given values"""
        if not any(isinstance(k, tuple) for k in store.vars):
            return {}
        ids = set()
        for v in values:
            object_ids(v, ids)
        out = {}
        todo = list(ids)
        seen = set(ids)
        while todo:
            o = todo.pop()
            for k, v in store.vars.items():
                if isinstance(k, tuple) and k[1] == o:
                    out[k] = v
                    more = object_ids(v, set())
                    for m in more - seen:
                        seen.add(m)
                        todo.append(m)
        return out

    @staticmethod
    def discriminator(v):
        """a returned value that tells return paths apart: one string constant, None, or one identified object"""
        if len(v) == 1:
            a = next(iter(v))
            if a == NONE or (a[0] == 'c' and a[1] in ('str', 'bool')) or (a[0] == 'obj' and '@' in a[1]):
                return a
        return None

    @staticmethod
    def mentions_sub(fact):
        def has(s):
            return isinstance(s, tuple) and bool(s) and s[0] == 'sub'
        if fact[0] in ('lb', 'ub'):
            return has(fact[1])
        if fact[0] == 'in':
            return True         # the table may be the one stored into
        if fact[0] == 'ok':
            return any(has(s) for _, s in fact[2])
        return False

    def fact_tags(self, fact):
        out = set()

        def of(s):
            if isinstance(s, tuple) and s and s[0] == 'fld':
                out.add(s[1])
            elif isinstance(s, tuple) and s and s[0] == 'sub':
                of(s[1])
        if fact[0] in ('lb', 'ub'):
            of(fact[1])
        if fact[0] == 'in':
            of(fact[1])
            of(fact[2])
        if fact[0] == 'ok':
            for _, s in fact[2]:
                of(s)
        return out

    def ok_fact(self, q, fnnode, bound, syms):
        """`q(args)` identified by the symbolic identity of its arguments (fields of tagged objects, constants)"""
        if not syms:
            return None
        parts = []
        for name, v in sorted(bound.items()):
            s = syms.get(name)
            if isinstance(s, tuple) and s and s[0] == 'fld':
                parts.append((name, s))
            elif len(v) == 1 and (is_const(next(iter(v))) or next(iter(v)) == NONE):
                parts.append((name, next(iter(v))))
            else:
                return None
        if not any(isinstance(s, tuple) and s[0] == 'fld' for _, s in parts):
            return None
        return ('ok', q, tuple(parts))

    def run_function(self, fr, fnatom, fnnode, parent, pfid, key, bound, syms, tin, facts_in, self_val, node, memo):
        q = fnatom[1]
        if fr.depth > 150:
            raise self.err(node, 'call depth exceeded')
        is_ctor = any(isinstance(t, tuple) and t and t[0] == 'ctor' for t in tin)
        fid = self.fid_for((q, pfid, 'ctor' if is_ctor else key[2]))
        callee = Frame(self, q, fnnode, parent, fid, self.defcls.get(id(fnnode)))
        callee.depth = fr.depth + 1
        self.frames[fid] = callee
        branded = bound if self.defcls.get(id(fnnode)) is not None else {k: self.brand(q, k, v) for k, v in bound.items()}
        callee.store = Store(dict(branded), facts_in, key[5], dict(syms))
        if key[6]:
            callee.store.vars.update(dict(key[6]))
        callee.tin = set(tin)
        callee.summary = Summary()
        if callee.defcls is not None and self_val is not None:
            callee.self_atoms = self_val
        self.reached.add(q)
        self.active[key] = self.active.get(key, 0) + 1
        try:
            if isinstance(fnnode, ast.Lambda):
                out = Out()
                try:
                    v = self.eval(callee, fnnode.body)
                    out.ret.append((callee.store, v))
                except Unreachable:
                    pass
                self.flush(callee, out, callee.store)
            else:
                out = self.exec_block(callee, fnnode.body, [callee.store])
        finally:
            self.active[key] -= 1
            if not self.active[key]:
                del self.active[key]
        new = callee.summary
        rets = BOT
        facts = None
        groups = {}
        hv = {}
        for (s, v) in list(out.ret) + [(s, av(NONE)) for s in out.next]:
            for hk, hvv in s.vars.items():
                if isinstance(hk, tuple):
                    hv[hk] = join(hv.get(hk, BOT), hvv)
            rets = join(rets, v)
            facts = s.facts if facts is None else facts & s.facts
            d = self.discriminator(v)
            g = groups.get(d)
            groups[d] = (v, s.facts) if g is None else (join(g[0], v), g[1] & s.facts)
        new.ret = rets
        new.hv = hv
        # a token-list parameter that every normal return leaves with one known length (the function checks the arity)
        ends = [s_ for (s_, _) in out.ret] + list(out.next)
        if ends and not isinstance(fnnode, ast.Lambda):
            for pname, pval in bound.items():
                if any(a[0] == 'toks' and a[2] is None for a in pval):
                    ns = set()
                    for s_ in ends:
                        cur = s_.vars.get(pname, BOT)
                        tk = [a for a in cur if a[0] == 'toks']
                        if not tk or any(a[2] is None for a in tk):
                            ns.add(None)
                        else:
                            ns |= {a[2] for a in tk}
                    if len(ns) == 1 and None not in ns and pname not in self.rebinds(fnnode):
                        new.narrow[pname] = next(iter(ns))
        if facts is not None:
            new.facts = frozenset(f for f in facts if self.fact_tags(f) <= tin) - facts_in
            if 1 < len(groups) <= MAX_DISJUNCTS and None not in groups:
                alts = tuple(sorted(((v, frozenset(f for f in fs if self.fact_tags(f) <= tin) - facts_in) for v, fs in groups.values()), key=str))
                if any(a[1] != new.facts for a in alts):
                    new.alts = alts
        for (s, rec) in out.exc:
            k = rec.key()
            if k not in new.excs or len(rec.chain) < len(new.excs[k].chain):
                new.excs[k] = rec
        if not memo:
            return new
        old = self.summaries.get(key)
        if old is not None:
            new.ret = join(old.ret, new.ret)
            for k, rec in old.excs.items():
                new.excs.setdefault(k, rec)
            if old.facts is not None:
                new.facts = old.facts if new.facts is None else (new.facts & old.facts)
            new.pure = new.pure and old.pure
            if old.alts and not new.alts and new.facts is not None:
                new.alts = old.alts
            for hk, hvv in old.hv.items():
                new.hv[hk] = join(new.hv.get(hk, BOT), hvv)
        if old is None or old.snapshot() != new.snapshot():
            self.changed = True
            self.why.append(('summary', q, None if old is None else (old.ret != new.ret, frozenset(old.excs) != frozenset(new.excs), old.facts != new.facts, old.pure != new.pure)))
        self.summaries[key] = new
        self.done.add(key)
        return new

    # -- construction -------------------------------------------------------------------------------------------------------
    def construct(self, fr, cname, args, node):
        if cname not in self.classes:
            return self.construct_builtin(fr, cname, args, node)
        if args.marker is not None and args.marker[0] == 'vars' and args.marker[1] != cname:
            return BOT          # rebuilding an object from its own attribute dict: class and dict belong together
        ci = self.classes[cname]
        if ci.decorators:
            raise self.err(node, 'class {} has a decorator the analysis does not model'.format(cname))
        self.ctor_counter += 1
        n = self.ctor_counter
        self.ctor_info[n] = {'stores': [], 'site': node, 'qual': fr.qual, 'approx': args.star is not None or (args.kwstar is not None and args.kwstar_keys is None)}
        oname = cname
        if self.in_module_init and self.summary_depth == 0 and cname != self.line_class:
            # created exactly once while the module is initialised: the object keeps an identity (its attributes are its own)
            self.ident_counter += 1
            oname = '{}@{}'.format(cname, self.ident_counter)
        elif not self.in_module_init and getattr(fr, 'loop_depth', 0) == 0 and cname != self.line_class and cname in self.mutating_classes \
                and not self.is_exception_class(cname) and sum(1 for k in self.active if isinstance(k, tuple) and k[0] == fr.qual) <= 1:
            # created once per activation of the enclosing function: strong updates of its attributes are sound
            oname = '{}@s{}:{}'.format(cname, getattr(node, 'lineno', 0), getattr(node, 'col_offset', 0))
        selfatom = ('obj', oname, ('ctor', n))
        c, q = self.find_method(cname, '__init__')
        mkey = (oname if '@s' in oname else cname, tuple(args.pos), tuple(sorted(args.kw.items())), args.star, args.kwstar, tuple(sorted(args.syms.items(), key=str)))
        cached = self.ctor_memo.get(mkey)
        try:
            if cached is not None:
                ok, cstores, cexcs = cached
                for (attr, val, snode) in cstores:
                    self.store_attr(fr, av(selfatom), attr, val, snode)
                for rec in cexcs:
                    fr.pending.append(ExcRec(rec.atom, rec.origin, ((fr.qual, node),) + rec.chain[1:], rec.converted_from))
                if not ok:
                    return BOT
                if q is not None:
                    self.reached.add(q)
            else:
                before = len(fr.pending)
                ok = True
                if q is not None:
                    r = self.call_user(fr, ('fn', q), args, node, av(selfatom))
                    if not r:
                        ok = False
                elif args.pos or args.kw:
                    if not self.is_exception_class(cname):
                        ok = False
                self.ctor_memo[mkey] = (ok, list(self.ctor_info[n]['stores']), list(fr.pending[before:]))
                if not ok:
                    return BOT
            stores = self.ctor_info[n]['stores']
        finally:
            del self.ctor_info[n]
        tags = set()
        for attr, val, snode in stores:
            for a in val:
                if a[0] == 'obj' and a[2] is not None:
                    tags.add(a[2])
        if cname == self.line_class:
            tag = ('new',) + pos_of(node)
            fr.local_tags.add(tag)
        elif not tags:
            tag = None
        elif len(tags) == 1:
            tag = next(iter(tags))
            if isinstance(tag, tuple) and tag and tag[0] == 'ctor':
                tag = '?'
        else:
            tag = '*'
        if '@' not in oname and cname != self.line_class and any(self.has_behaviour(val) for _, val, _ in stores):
            # an object that holds classes / callables (exception types of a context manager, a builder ...): what it does
            # depends on where it was made, so its attributes are kept per construction site
            oname = '{}@a{}:{}{}'.format(cname, getattr(node, 'lineno', 0), getattr(node, 'col_offset', 0),
                                         (''.join('#%d' % i_ for i_ in self.unroll_index) + '~%d' % fr.fid) if self.summary_depth == 0 else '')
            order = self.attr_order.setdefault(oname, [])
            for attr, val, snode in stores:
                if attr not in order:
                    order.append(attr)
                hk = (oname, attr)
                old = self.heap.get(hk, BOT)
                new = join(old, erase_tags(val))
                if new != old:
                    self.heap[hk] = new
                    self.changed = True
                    self.why.append(('heap', hk, new - old))
        ev = self.ev_construct.get(id(node))
        if ev is None:
            self.ev_construct[id(node)] = {'node': node, 'qual': fr.qual, 'cls': {cname}, 'tags': {tag}}
        else:
            ev['cls'].add(cname)
            ev['tags'].add(tag)
        if cname == self.line_class:
            self.ev_line[id(node)] = [(fr.qual, node, args)]
        return av(('obj', oname, tag))

    @staticmethod
    def has_behaviour(val, _depth=0):
        for a in val:
            if a[0] in ('cls', 'fn', 'clo', 'lam', 'partial', 'bound'):
                return True
            if a[0] == 'seq' and _depth < 2 and any(Interp.has_behaviour(e, _depth + 1) for e in a[2]):
                return True
            if a[0] in ('list', 'set') and _depth < 2 and Interp.has_behaviour(a[1], _depth + 1):
                return True
            if a[0] == 'kdict' and _depth < 2 and any(k_[0] == 'cls' or Interp.has_behaviour(v_, _depth + 1) for k_, v_ in a[1]):
                return True
            if a[0] == 'dict' and _depth < 2 and (Interp.has_behaviour(a[2], _depth + 1) or any(k_[0] == 'cls' for k_ in (a[1] or ())) or Interp.has_behaviour(a[3], _depth + 1)):
                return True
        return False

    def construct_builtin(self, fr, cname, args, node):
        if cname in BUILTIN_EXC_BASES:
            return av(('obj', cname, None))
        x = args.pos[0] if args.pos else None
        if cname == 'str':
            if x is None:
                return av(const(''))
            out = set()
            for a in x:
                if is_str_atom(a):
                    out.add(a)
                elif a == ('int', 'fsize'):
                    out.add(('str', 's', 'fsize'))
                elif is_int_atom(a) or a in (FLOAT, BOOL, NONE, BYTES):
                    out.add(STR_S)
                elif a[0] == 'caught' or (a[0] == 'obj' and a[1] not in self.classes):
                    out.add(STR_U)      # message of a library exception: mentions the user's value
                else:
                    out.add(STR_U)
            return frozenset(out)
        if cname == 'int':
            return self.to_int(fr, args, node)
        if cname == 'bool':
            return av(BOOL)
        if cname == 'float':
            return av(FLOAT)
        if cname in ('bytes', 'bytearray'):
            if x is not None:
                for a in x:
                    elems = BOT
                    if a[0] in ('list', 'set'):
                        elems = a[1]
                    elif a[0] == 'seq':
                        for e in a[2]:
                            elems = join(elems, e)
                    if any(b == INT_U or b[0] == 'idx' for b in elems) and not self.bytes_bounded(fr, node):
                        self.library_raise(fr, 'ValueError', node)     # bytes([v]) needs 0 <= v < 256
                        break
            return av(BYTES)
        if cname == 'float' and x is not None:
            if any((b[0] == 'str' and b[1] == 'u') or b[0] == 'tok' for b in x):
                self.library_raise(fr, 'ValueError', node)
            return av(FLOAT)
        if cname in ('list', 'tuple', 'set', 'frozenset'):
            kind = {'list': 'list', 'tuple': 'tuple', 'set': 'set', 'frozenset': 'set'}[cname]
            if x is None:
                return av(('seq', kind, ()))
            out = BOT
            for a in x:
                if a[0] in ('toks', 'lines') and cname in ('list', 'tuple'):
                    out = join(out, av(a))
                    continue
                mode, elems = self.iteration(fr, av(a), node)
                if mode == 'exact':
                    out = join(out, av(('seq', kind, tuple(elems))))
                else:
                    out = join(out, av(('list' if kind != 'set' else 'set', erase_tags(elems))))
            return out
        if cname == 'dict':
            if x is None:
                return av(('kdict', tuple((const(k), v) for k, v in args.kw.items()), None))
            out = BOT
            for a in x:
                if a[0] in ('kdict', 'dict'):
                    out = join(out, av(a))
                    continue
                mode, pairs = self.iteration(fr, av(a), node)
                if mode == 'exact':
                    items, ok = [], True
                    for p_ in pairs:
                        two = [b for b in p_ if b[0] == 'seq' and len(b[2]) == 2]
                        if len(two) != 1 or len(p_) != 1 or len(two[0][2][0]) != 1 or not is_key(next(iter(two[0][2][0]))):
                            ok = False
                            break
                        kk = next(iter(two[0][2][0]))
                        items = [(k2, v2) for k2, v2 in items if k2 != kk] + [(kk, two[0][2][1])]
                    if ok:
                        items += [(const(k), v) for k, v in args.kw.items()]
                        out = join(out, av(('kdict', tuple(items), None)))
                        continue
                if mode == 'exact':
                    y = BOT
                    for e in pairs:
                        y = join(y, e)
                    pairs = y
                keys, vals = BOT, BOT
                for b in pairs:
                    if b[0] == 'seq' and len(b[2]) == 2:
                        keys, vals = join(keys, b[2][0]), join(vals, erase_tags(b[2][1]))
                    else:
                        keys, vals = join(keys, av(TOP)), join(vals, av(TOP))
                nonconst = frozenset(k_ for k_ in keys if not is_key(k_))
                out = join(out, av(('dict', None if nonconst else frozenset(k_ for k_ in keys if is_key(k_)), vals, nonconst)))
            return out
        if cname == 'type':
            if x is None:
                return av(TOP)
            return self.types_of(x)
        if cname == 'object':
            return av(EXT)
        return av(TOP)

    def types_of(self, val):
        out = set()
        for a in val:
            if a[0] == 'obj':
                out.add(('cls', base_class(a[1])))
            elif is_str_atom(a):
                out.add(('cls', 'str'))
            elif a == BOOL or (a[0] == 'c' and a[1] == 'bool'):
                out.add(('cls', 'bool'))
            elif is_int_atom(a):
                out.add(('cls', 'int'))
            elif a == FLOAT:
                out.add(('cls', 'float'))
            elif a == BYTES or (a[0] == 'c' and a[1] == 'bytes'):
                out.add(('cls', 'bytes'))
            elif a[0] in ('list', 'toks', 'lines') or (a[0] == 'seq' and a[1] == 'list'):
                out.add(('cls', 'list'))
            elif a[0] == 'seq':
                out.add(('cls', 'tuple' if a[1] == 'tuple' else 'set'))
            elif a[0] in ('dict', 'kdict'):
                out.add(('cls', 'dict'))
            elif a == NONE:
                out.add(('cls', 'NoneType'))
            else:
                out.add(TOP)
        return frozenset(out)

    def to_int(self, fr, args, node):
        """int(x[, base]): ValueError when x may be text the user wrote"""
        if not args.pos:
            return av(const(0))
        out = set()
        raises = False
        sure = False
        unsure_tok = sure_tok = False
        for a in args.pos[0]:
            if a[0] in ('tok', 'str', 'c'):
                sure = True
            if a[0] == 'c' and a[1] == 'str':
                try:
                    int(a[2], 0)
                    out.add(INT_S)
                except ValueError:
                    raises = True
            elif a[0] == 'tok':
                heads, idx, last, sz = a[1], a[2], a[3], a[4]
                if heads is not None and last is True and sz and heads <= sz:
                    out.add(INT_U)
                    self.ev_discharge[id(node)] = (fr.qual, node, 'size-token', sorted(heads), None)
                elif sz and last is not False and ('?' in sz or heads is None):
                    # a size written by the reader may be this token, but under which keyword it was appended / which
                    # keyword this token list starts with is not known here: no verdict rather than a finding
                    raises = True
                    unsure_tok = True
                    out.add(INT_U)
                else:
                    raises = True
                    sure_tok = True
                    out.add(INT_U)
            elif a[0] == 'str':
                if a[1] == 'u':
                    raises = True
                    if a[2] in ('maybe-size', 'matched'):
                        unsure_tok = True
                out.add(INT_U if a[1] == 'u' else INT_S)
            elif is_int_atom(a) or a == FLOAT:
                out.add(a if a[0] == 'int' else INT_S)
            elif a == TOP or a == DATA:
                raises = True
                out.add(INT_U)
            elif a == BYTES:
                raises = True
                out.add(INT_U)
            else:
                out.add(INT_U)
        xsym = args.syms.get(0)
        base = args.kw.get('base', args.pos[1] if len(args.pos) > 1 else av(const(10)))
        okf = None
        if isinstance(xsym, tuple) and xsym and xsym[0] in ('val', 'fld', 'sub') and len(base) == 1 and is_const(next(iter(base))):
            okf = ('ok', 'int', (('base', next(iter(base))), ('x', xsym)))
        if raises and okf is not None and okf in fr.store.facts:
            # the same conversion of the same unchanged value already succeeded on every path to here
            self.ev_discharge[id(node)] = (fr.qual, node, 'dominated', 'int', okf)
            raises = False
        if raises:
            really = sure_tok or any((a[0] == 'str' and a[1] == 'u' and a[2] not in ('maybe-size', 'matched')) or (a[0] == 'c' and a[1] == 'str') for a in args.pos[0])
            self.library_raise(fr, 'ValueError', node, uncertain=not really)
        if okf is not None:
            fr.store.facts = fr.store.facts | {okf}
        return frozenset(out)

    def library_raise(self, fr, exc, node, uncertain=False):
        rec = ExcRec(('obj', exc, None), node, ((fr.qual, node),), uncertain=uncertain)
        rec.pfacts = fr.store.facts
        self.ev_origin[id(node)] = (fr.qual, node, exc)
        fr.pending.append(rec)

    # -- builtins and library models ----------------------------------------------------------------------------------------
    def user_value(self, val, sure=False):
        """may the value be an integer / text whose size or content the user controls (sure: positively, not merely unknown)"""
        for a in val:
            if a == TOP and sure:
                continue
            if a in (INT_U, TOP, FLOAT, DATA) or a[0] in ('idx',) or a == ('int', 'fsize'):
                return True
            if is_str_atom(a) or a[0] in ('obj', 'list', 'seq', 'toks', 'dict', 'kdict', 'bytes', 'none'):
                return True
        return False

    def call_builtin(self, fr, name, args, node):
        pos = args.pos
        x = pos[0] if pos else None
        if name == 'len':
            if x is not None and len(x) == 1:
                a0 = next(iter(x))
                if a0[0] == 'seq':
                    return av(const(len(a0[2])))
                if a0[0] == 'kdict':
                    return av(const(len(a0[1])))
                if a0[0] == 'toks' and a0[2] is not None:
                    return av(const(a0[2]))
            if x is not None:
                for a in x:
                    if a[0] == 'obj' and a[1] in self.classes:
                        c, q = self.find_method(a[1], '__len__')
                        if q is not None:
                            self.call_user(fr, ('fn', q), Args(), node, av(a))
            return av(INT_S)        # a length is bounded by what fits in memory: not a magnitude the user picks freely
        if name in ('isinstance', 'issubclass', 'hasattr', 'callable'):
            return av(BOOL)
        if name == 'getattr':
            if len(pos) < 2:
                return av(TOP)
            out = BOT
            missing = False
            for n in pos[1]:
                if is_const(n) and n[1] == 'str':
                    for a in x:
                        v = self.load_attr_atom(fr, a, n[2], node)
                        if v:
                            out = join(out, v)
                        else:
                            missing = True
                elif is_str_atom(n) or n == TOP:
                    raise self.err(node, 'getattr with a computed attribute name')
                # any other value is not an attribute name at all: TypeError, not among the judged faults
            if len(pos) > 2 and (missing or not out):
                out = join(out, pos[2])
            return out
        if name == 'setattr':
            if len(pos) == 3 and len(pos[1]) == 1 and is_const(next(iter(pos[1]))):
                self.store_attr(fr, x, next(iter(pos[1]))[2], pos[2], node)
                return av(NONE)
            raise self.err(node, 'setattr with a computed attribute name')
        if name == 'vars':
            return self.vars_of(fr, x, node) if x is not None else av(TOP)
        if name == 'enumerate':
            start = 0
            sv = args.kw.get('start') or (pos[1] if len(pos) > 1 else None)
            if sv is not None:
                start = self.const_int(sv)
            return av(('enum', start, x))
        if name == 'zip':
            return av(('zip', tuple(pos)))
        if name == 'range':
            return av(('range',))
        if name in ('sorted', 'reversed'):
            mode, elems = self.iteration(fr, x, node)
            if mode == 'exact' and name == 'reversed':
                return av(('seq', 'list', tuple(reversed(elems))))
            if mode == 'exact':
                y = BOT
                for e in elems:
                    y = join(y, e)
                elems = y
            if x is not None and all(a[0] == 'toks' for a in x):
                return x
            return av(('list', erase_tags(elems)))
        if name in ('min', 'max', 'sum', 'abs', 'pow', 'round'):
            vals = BOT
            for p in pos:
                if any(a[0] in ('list', 'seq', 'set', 'toks', 'kdict', 'dict', 'range', 'enum', 'zip', 'gen') for a in p):
                    mode, elems = self.iteration(fr, p, node)
                    if mode == 'exact':
                        for e in elems:
                            vals = join(vals, e)
                    else:
                        vals = join(vals, elems)
                else:
                    vals = join(vals, p)
            out = set()
            for a in vals:
                if a[0] == 'c' and a[1] in ('int', 'bool') or a == INT_S:
                    out.add(INT_S)
                elif is_int_atom(a):
                    out.add(INT_U)
                elif a == FLOAT:
                    out.add(FLOAT)
                else:
                    out.add(a)
            return frozenset(out) or av(INT_S)
        if name == 'divmod':
            if len(pos) == 2:
                safe_a = all(a == INT_S or a[0] == 'c' for a in pos[0])
                safe_b = all(a == INT_S or a[0] == 'c' for a in pos[1])
                return av(('seq', 'tuple', (av(INT_S if safe_a else INT_U), av(INT_S if (safe_b or safe_a) else INT_U))))
            return av(TOP)
        if name in ('any', 'all'):
            if x is not None:
                mode, es = self.iteration(fr, x, node)
                vals_ = BOT
                for e in (es if mode == 'exact' else [es]):
                    vals_ = join(vals_, e)
                ts = {self.truth(a) for a in vals_}
                if ts <= {'t', 'f'}:
                    # every element is known to be true or known to be false: the outcome depends on which elements there
                    # are, not on a test the interpretation could not follow
                    self.decided_quantifiers.add(id(node))
                if name == 'any' and ts <= {'f'}:
                    return av(const(False))     # no element can be true (also when there is none)
                if name == 'all' and ts <= {'t'}:
                    return av(const(True))
            return av(BOOL)
        if name == 'ord':
            return av(INT_S)
        if name in ('chr',):
            if x is not None and any(b == INT_U or b[0] == 'idx' for b in x):
                self.library_raise(fr, 'ValueError', node)
            return av(STR_S)
        if name in ('repr', 'format', 'hex', 'bin', 'oct'):
            taint = 's'
            if x is not None and any((is_str_atom(a) and str_taint(a) == 'u') or a[0] in ('obj', 'list', 'seq', 'toks', 'top') for a in x):
                taint = 'u'
            return av(('str', taint, None))
        if name == 'print':
            if fr.summary is not None:
                fr.summary.pure = False
            return av(NONE)
        if name == 'open':
            if fr.summary is not None:
                fr.summary.pure = False
            out = set()
            for a in (x or av(TOP)):
                out.add(('file', a[2] if a[0] == 'str' else None))
            return frozenset(out)
        if name == 'eval':
            rec = ExcRec(('obj', 'Exception', None), node, ((fr.qual, node),))
            self.ev_origin[id(node)] = (fr.qual, node, 'Exception')
            fr.pending.append(rec)
            return av(INT_U, DATA)
        if name in ('id', 'hash'):
            return av(INT_S)
        if name == 'input':
            return av(STR_U)
        if name in ('map', 'filter'):
            if len(pos) >= 2:
                mode, elems = self.iteration(fr, pos[1], node)
                if mode == 'exact':
                    y = BOT
                    for e in elems:
                        y = join(y, e)
                    elems = y
                if not elems:
                    return av(('list', BOT))
                elems = self.fresh_elem(fr, elems, node)
                if name == 'filter':
                    elems = self.mark_moved(elems)
                if name == 'filter' and pos[0] == av(NONE):
                    return av(('list', erase_tags(frozenset(a for a in elems if a != NONE))))
                if name == 'filter':
                    kept = set()
                    for a in elems:
                        try:
                            r_ = self.call_value(fr, frozenset(b for b in pos[0] if b != NONE), Args([av(a)]), node)
                        except Unreachable:
                            continue
                        if {self.truth(b) for b in r_} & {'t', '?'}:
                            kept.add(a)
                    return av(('list', erase_tags(frozenset(kept))))
                r = self.call_value(fr, frozenset(a for a in pos[0] if a != NONE), Args([elems]), node)
                return av(('list', erase_tags(r if name == 'map' else elems)))
            return av(TOP)
        if name == 'next' and x is not None and len(x) == 1 and next(iter(x))[0] == 'seq' and len(next(iter(x))) > 3 \
                and next(iter(x))[3] and next(iter(x))[3][0] == 'cfacts':
            a = next(iter(x))
            alts = [(e, fs) for e, fs in zip(a[2], a[3][1])]
            out = BOT
            for e, _ in alts:
                out = join(out, e)
            if len(pos) > 1:
                alts.append((pos[1], frozenset()))
                out = join(out, pos[1])
            fr.call_alts[id(node)] = alts
            return out
        if name in ('iter', 'next'):
            if x is not None and any(a[0] == 'lines' for a in x):
                if name == 'next':
                    raise self.err(node, 'next() on the source lines (which line is which afterwards is not followed)')
                if all(a[0] == 'lines' for a in x):
                    return x
            if x is not None:
                mode, elems = self.iteration(fr, x, node)
                if mode == 'exact':
                    y = BOT
                    for e in elems:
                        y = join(y, e)
                    elems = y
                if name == 'next':
                    return elems
                return av(('list', erase_tags(elems)))
            return av(TOP)
        if name in ('exec', '__import__'):
            raise self.err(node, '{}() is not modelled'.format(name))
        if name == 'staticmethod' and x is not None:
            return frozenset(('partial', a, (), ()) if a[0] in ('fn', 'clo', 'lam') else a for a in x)
        if name in ('property', 'classmethod'):
            return x if x is not None else av(TOP)
        return av(TOP)

    def format_result(self, fr, fmt_atom, args, node):
        taint = str_taint(fmt_atom)
        for v in list(args.pos) + list(args.kw.values()) + ([args.star] if args.star else []):
            for a in v:
                if (is_str_atom(a) and str_taint(a) == 'u') or a[0] in ('obj', 'list', 'seq', 'toks', 'top', 'kdict', 'dict', 'caught'):
                    taint = 'u'
        extra = None
        if fmt_atom[0] == 'c' and args.pos and args.star is None:
            text = fmt_atom[2]
            if text.endswith('{}') and text[-3:-2].isspace() and text.count('{') == len(args.pos) \
                    and all(a == ('int', 'fsize') for a in args.pos[-1]):
                extra = ('sizeint', self.guard_keywords(fr) or frozenset({'?'}))
        if extra is None and any(('int', 'fsize') in v or any(a[0] == 'str' and a[2] == 'fsize' for a in v)
                                 for v in list(args.pos) + list(args.kw.values()) + ([args.star] if args.star else [])):
            extra = ('sizeint', frozenset({'?'}))       # the size is in there, where is not followed
        return av(('str', taint, extra))

    def apply_method(self, fr, a, attr, args, node):
        """method of a builtin value: (result, new receiver atom or None)"""
        k = a[0]
        pos = args.pos
        x = pos[0] if pos else None
        if is_str_atom(a):
            extra = a[2] if k == 'str' else None
            keep = extra if (isinstance(extra, tuple) and extra[0] == 'sizeint') else None
            taint = str_taint(a)
            if attr in ('lower', 'upper', 'casefold', 'strip', 'lstrip', 'rstrip', 'title', 'capitalize', 'swapcase', 'expandtabs', 'zfill',
                        'ljust', 'rjust', 'center', 'replace', 'translate', 'removeprefix', 'removesuffix'):
                if k == 'c' and all(len(p) == 1 and is_const(next(iter(p))) for p in pos) and not args.kw:
                    try:
                        r = getattr(a[2], attr)(*[next(iter(p))[2] for p in pos])
                        return av(const(r) if len(r) <= MAX_STR_LEN else STR_S), None
                    except Exception:
                        return BOT, None
                if attr == 'replace' and len(pos) > 1 and any(is_str_atom(b) and str_taint(b) == 'u' for b in pos[1]):
                    taint = 'u'
                if k == 'tok' and attr in ('lower', 'upper', 'casefold', 'strip'):
                    return av(a), None
                return av(('str', taint, keep)), None
            if attr == 'format':
                return self.format_result(fr, a, args, node), None
            if attr in ('split', 'rsplit'):
                if x is not None and len(x) == 1 and next(iter(x)) in (const('\n'),) and len(pos) == 1:
                    return av(('lines', extra)), None
                sz = keep[1] if keep else frozenset()
                return av(('toks', None, None, sz)), None
            if attr == 'splitlines':
                return av(('lines', extra)), None
            if attr == 'join':
                t = taint
                if x is not None:
                    mode, elems = self.iteration(fr, x, node)
                    if mode == 'exact':
                        y = BOT
                        for e in elems:
                            y = join(y, e)
                        elems = y
                    if any(not (is_str_atom(b) and str_taint(b) == 's') for b in elems):
                        t = 'u'
                return av(('str', t, None)), None
            if attr in ('startswith', 'endswith', 'isdigit', 'isalpha', 'isalnum', 'isspace', 'isupper', 'islower', 'isnumeric', 'isdecimal', 'isidentifier',
                        '__contains__', '__eq__'):
                if k == 'c' and attr in ('startswith', 'endswith') and x is not None and len(x) == 1 and is_const(next(iter(x))):
                    return av(const(getattr(a[2], attr)(next(iter(x))[2]))), None
                return av(BOOL), None
            if attr == 'encode':
                return av(BYTES), None
            if attr in ('partition', 'rpartition'):
                p = av(('str', taint, None))
                return av(('seq', 'tuple', (p, p, p))), None
            if attr in ('find', 'rfind', 'index', 'rindex', 'count', '__len__'):
                return av(INT_S), None
            return av(('str', taint, None)), None
        if a == BYTES or (k == 'c' and a[1] == 'bytes'):
            if attr == 'decode':
                return av(STR_U), None
            if attr == 'hex':
                return av(STR_S), None
            if attr in ('extend', 'append', 'insert'):
                for p_ in pos:
                    vals = p_
                    for b in p_:
                        if b[0] in ('list', 'set'):
                            vals = join(vals, b[1])
                        elif b[0] == 'seq':
                            for e in b[2]:
                                vals = join(vals, e)
                    if any(b == INT_U or b[0] == 'idx' for b in vals) and not self.bytes_bounded(fr, node):
                        self.library_raise(fr, 'ValueError', node)     # a byte must be in range(0, 256)
                        break
                return av(NONE), None
            if attr == 'clear':
                return av(NONE), None
            if attr in ('startswith', 'endswith'):
                return av(BOOL), None
            if attr in ('find', 'index', 'count'):
                return av(INT_S), None
            return av(BYTES), None
        if k in ('list', 'seq', 'toks', 'lines', 'set'):
            def elems_of():
                m, es = self.iteration(fr, av(a), node)
                if m == 'exact':
                    y = BOT
                    for e in es:
                        y = join(y, erase_tags(e))
                    return y
                return es
            if attr in ('append', 'add', 'insert', 'appendleft'):
                v = pos[-1] if pos else BOT
                if attr == 'append' and k == 'seq' and a[1] == 'list' and self.summary_depth == 0 and len(a[2]) < MAX_UNROLL and v:
                    return av(NONE), ('seq', 'list', a[2] + (v,))
                if k == 'set' or (k == 'seq' and a[1] == 'set'):
                    return av(NONE), ('set', join(elems_of(), erase_tags(v)))
                return av(NONE), ('list', join(elems_of(), erase_tags(v)))
            if attr in ('extend', 'update', 'extendleft'):
                e = elems_of()
                for p in pos:
                    m, es = self.iteration(fr, p, node)
                    if m == 'exact':
                        for z in es:
                            e = join(e, erase_tags(z))
                    else:
                        e = join(e, erase_tags(es))
                return av(NONE), (('set', e) if (k == 'set' or (k == 'seq' and a[1] == 'set')) else ('list', e))
            if attr in ('remove', 'discard', 'clear', 'sort', 'reverse'):
                if k == 'toks':
                    return av(NONE), ('toks', a[1], None, a[3])
                return av(NONE), None
            if attr in ('pop', 'popleft'):
                return elems_of(), (('toks', a[1], None, a[3]) if k == 'toks' else None)
            if attr in ('index', 'count', '__len__'):
                return av(INT_S), None
            if attr == 'copy':
                return av(a), None
            if attr in ('union', 'intersection', 'difference', 'symmetric_difference'):
                e = elems_of()
                for p in pos:
                    m, es = self.iteration(fr, p, node)
                    if m == 'exact':
                        for z in es:
                            e = join(e, erase_tags(z))
                    else:
                        e = join(e, es)
                return av(('set', e)), None
            if attr in ('issubset', 'issuperset', 'isdisjoint', '__contains__'):
                return av(BOOL), None
            return av(TOP), None
        if k in ('dict', 'kdict'):
            return self.dict_method(fr, a, attr, args, node)
        if k == 'file':
            if attr == 'read':
                return av(('str', 'u', ('read', a[1]))), None
            if attr == 'readlines':
                return av(('lines', ('read', a[1]))), None
            if attr == 'readline':
                return av(STR_U), None
            if attr in ('write', 'writelines', 'close', 'flush', 'seek'):
                return av(NONE, INT_S), None
            if attr in ('__enter__',):
                return av(a), None
            return av(TOP), None
        if k == 'libobj':
            kind = a[1]
            if kind == 're.Pattern':
                return self.call_lib(fr, 're.' + attr, Args([a[2] if len(a) > 2 else av(TOP)] + list(pos), args.star, args.kw, args.kwstar), node), None
            if kind == 'struct.Struct':
                if attr in ('pack', 'pack_into', 'unpack', 'unpack_from', 'iter_unpack'):
                    return self.call_lib(fr, 'struct.' + attr, Args([a[2]] + list(pos), args.star, args.kw, args.kwstar), node), None
                return av(TOP), None
            if kind == 're.Match':
                if attr in ('group', '__getitem__'):
                    which = self.const_int(x) if x is not None else 0
                    if which is not None and len(a) > 2 and self.group_is_decimal(a[2], which):
                        return av(('str', 's', 'digits')), None
                    # text the pattern let through: whether a conversion of it can fail is not known
                    return av(('str', 'u', 'matched')), None
                if attr in ('groups',):
                    return av(('list', av(STR_U, NONE))), None
                if attr == 'groupdict':
                    return av(('dict', None, av(STR_U, NONE), av(STR_S))), None
                if attr in ('start', 'end'):
                    return av(INT_S), None
                if attr == 'span':
                    return av(('seq', 'tuple', (av(INT_S), av(INT_S)))), None
                return av(TOP), None
            return av(TOP), None
        if is_int_atom(a):
            if attr == 'to_bytes':
                recv = node.func.value if isinstance(node, ast.Call) and isinstance(node.func, ast.Attribute) else None
                if (a in (INT_U,) or k == 'idx' or a == ('int', 'fsize')) and not self.is_bounded(fr, recv):
                    self.library_raise(fr, 'OverflowError', node)      # a value the user sizes need not fit the given length
                return av(BYTES), None
            if attr == 'bit_length':
                return av(INT_S), None
            return BOT, None        # AttributeError: not among the judged faults
        return av(TOP), None

    @staticmethod
    def group_is_decimal(pat, which):
        """does group `which` of the (constant) pattern match decimal digits only (so that int() accepts it)"""
        if not pat or not all(is_const(p_) and p_[1] == 'str' for p_ in pat):
            return False
        try:
            import re._parser as sre
            import re._constants as C_
        except ImportError:
            return False

        def digits(items):
            for op, arg in items:
                if op is C_.IN:
                    if not all((o2 is C_.CATEGORY and a2 is C_.CATEGORY_DIGIT) or (o2 is C_.RANGE and 48 <= a2[0] <= a2[1] <= 57)
                               or (o2 is C_.LITERAL and 48 <= a2 <= 57) for o2, a2 in arg):
                        return False
                elif op is C_.LITERAL:
                    if not 48 <= arg <= 57:
                        return False
                elif op in (C_.MAX_REPEAT, C_.MIN_REPEAT):
                    if arg[0] < 1 or not digits(arg[2]):
                        return False
                elif op is C_.SUBPATTERN:
                    if not digits(arg[3]):
                        return False
                else:
                    return False
            return True

        def find(items, n):
            for op, arg in items:
                if op is C_.SUBPATTERN:
                    if arg[0] == n:
                        return arg[3]
                    r = find(arg[3], n)
                    if r is not None:
                        return r
                elif op in (C_.MAX_REPEAT, C_.MIN_REPEAT):
                    r = find(arg[2], n)
                    if r is not None:
                        return r
                elif op is C_.BRANCH:
                    return None
            return None
        for p_ in pat:
            try:
                tree = sre.parse(p_[2])
            except Exception:
                return False
            grp = list(tree) if which == 0 else find(tree, which)
            if which == 0:
                grp = [it_ for it_ in grp if it_[0] is not C_.AT]
            if grp is None or not grp or not digits(grp):
                return False
        return True

    def dict_method(self, fr, a, attr, args, node):
        k = a[0]
        pos = args.pos
        x = pos[0] if pos else None
        if attr == 'get':
            default = pos[1] if len(pos) > 1 else args.kw.get('default', av(NONE))
            if k == 'kdict':
                d = dict(a[1])
                out = BOT
                miss = False
                for c in x:
                    if is_key(c):
                        if c in d:
                            out = join(out, d[c])
                        else:
                            miss = True
                    elif c == NONE:
                        miss = True
                    else:
                        miss = True
                        for kk, vv in a[1]:
                            out = join(out, vv)
                if miss:
                    out = join(out, default)
                return out, None
            return join(a[2], default), None
        if attr in ('items', 'keys', 'values'):
            if k == 'kdict':
                if attr == 'keys':
                    return av(('seq', 'list', tuple(av(kk) for kk, _ in a[1]))), None
                if attr == 'values':
                    return av(('seq', 'list', tuple(vv for _, vv in a[1]), a[2])), None
                return av(('seq', 'list', tuple(av(('seq', 'tuple', (av(kk), vv))) for kk, vv in a[1]))), None
            keys = (a[1] or frozenset()) | a[3]
            if a[1] is None and not a[3]:
                keys = av(STR_U)
            if attr == 'keys':
                return av(('list', keys)), None
            if attr == 'values':
                return av(('list', a[2])), None
            if not keys or not a[2]:
                return av(('list', BOT)), None
            return av(('list', av(('seq', 'tuple', (keys, a[2]))))), None
        if attr == 'update':
            new = a
            for p in pos:
                out = set()
                for b in p:
                    out.add(self.dict_update(new, b))
                if len(out) == 1:
                    new = next(iter(out))
                elif out and all(z[0] == 'kdict' and tuple(kk for kk, _ in z[1]) == tuple(kk for kk, _ in next(iter(out))[1]) and z[2] == next(iter(out))[2]
                                 for z in out):
                    first = next(iter(out))
                    items = []
                    for i, (kk, _) in enumerate(first[1]):
                        vv = BOT
                        for z in out:
                            vv = join(vv, z[1][i][1])
                        items.append((kk, vv))
                    new = ('kdict', tuple(items), first[2])
                elif out:
                    r = normalise(frozenset(out))
                    if len(r) != 1:
                        # several possible shapes: summarise
                        keys, vals, kv = frozenset(), BOT, BOT
                        for z in r:
                            if z[0] == 'kdict':
                                keys = None if keys is None else keys | frozenset(kk for kk, _ in z[1])
                                for _, vv in z[1]:
                                    vals = join(vals, erase_tags(vv))
                            else:
                                keys = None if (keys is None or z[1] is None) else keys | z[1]
                                vals = join(vals, z[2])
                                kv = join(kv, z[3])
                        new = ('dict', keys, vals, kv)
                    else:
                        new = next(iter(r))
            if args.kw:
                new = self.dict_update(new, ('kdict', tuple((const(kk), vv) for kk, vv in args.kw.items()), None))
            return av(NONE), new
        if attr == 'setdefault' and x is not None:
            default = pos[1] if len(pos) > 1 else av(NONE)
            if k == 'kdict' and len(x) == 1 and is_key(next(iter(x))):
                c = next(iter(x))
                d = dict(a[1])
                if c in d:
                    return d[c], None
                return default, ('kdict', a[1] + ((c, default),), a[2])
            out = default
            if k == 'kdict':
                for _, vv in a[1]:
                    out = join(out, vv)
                return out, self.dict_update(a, ('dict', None, erase_tags(default), frozenset(b for b in x if not is_const(b))))
            return join(a[2], default), ('dict', None if (a[1] is None or any(not is_const(b) for b in x)) else a[1] | frozenset(b for b in x if is_const(b)),
                                         join(a[2], erase_tags(default)), join(a[3], frozenset(b for b in x if not is_const(b))))
        if attr == 'pop':
            out = BOT
            if k == 'kdict':
                for _, vv in a[1]:
                    out = join(out, vv)
            else:
                out = a[2]
            if len(pos) > 1:
                out = join(out, pos[1])
            return out, None
        if attr == 'copy':
            return av(a), None
        if attr in ('clear', 'popitem'):
            return av(TOP), None
        if attr in ('__contains__',):
            return av(BOOL), None
        return av(TOP), None

    def dict_update(self, a, b):
        """a.update(b) for dict atoms"""
        if b[0] not in ('kdict', 'dict'):
            if a[0] == 'kdict':
                vals = av(TOP)
                for _, vv in a[1]:
                    vals = join(vals, erase_tags(vv))
                return ('dict', None, vals, BOT)
            return ('dict', None, join(a[2], av(TOP)), a[3])
        if a[0] == 'kdict':
            if b[0] == 'kdict':
                items = list(a[1])
                for kk, vv in b[1]:
                    for i, (k2, v2) in enumerate(items):
                        if k2 == kk:
                            items[i] = (kk, vv)
                            break
                    else:
                        items.append((kk, vv))
                return ('kdict', tuple(items), a[2])
            # b: some of these keys, each possibly: weak update
            if b[1] is not None and not b[3]:
                have = {kk for kk, _ in a[1]}
                if a[2] is not None and a[2][0] == 'vars' or b[1] <= have:
                    # an attribute dict being prepared for rebuilding its object: only existing attributes are replaced
                    return ('kdict', tuple((kk, join(vv, b[2]) if kk in b[1] else vv) for kk, vv in a[1]), a[2])
            vals = b[2]
            for _, vv in a[1]:
                vals = join(vals, erase_tags(vv))
            keys = None if b[1] is None or b[3] else frozenset(kk for kk, _ in a[1]) | b[1]
            return ('dict', keys, vals, b[3])
        if b[0] == 'kdict':
            vals = a[2]
            for _, vv in b[1]:
                vals = join(vals, erase_tags(vv))
            keys = None if a[1] is None else a[1] | frozenset(kk for kk, _ in b[1])
            return ('dict', keys, vals, a[3])
        keys = None if (a[1] is None or b[1] is None) else a[1] | b[1]
        return ('dict', keys, join(a[2], b[2]), join(a[3], b[3]))

    def call_lib(self, fr, name, args, node):
        pos = args.pos
        x = pos[0] if pos else None
        root = name.split('.')[0]
        if name in ('functools.partial',):
            if x is None:
                return av(TOP)
            out = set()
            for f in x:
                if f == TOP:
                    raise self.err(node, 'partial() of an unknown callable')
                out.add(('partial', f, tuple(pos[1:]), tuple(sorted(args.kw.items()))))
            return frozenset(out)
        if name == 'functools.reduce' and len(pos) >= 2:
            mode, elems = self.iteration(fr, pos[1], node)
            acc = pos[2] if len(pos) > 2 else None
            if mode == 'exact':
                for e in elems:
                    acc = e if acc is None else self.call_value(fr, pos[0], Args([acc, e]), node)
                    if not acc:
                        return BOT
                return acc if acc is not None else BOT
            if not elems:
                return acc if acc is not None else BOT
            acc = join(acc or BOT, elems if acc is None else BOT)
            for _ in range(8):
                new = join(acc, self.call_value(fr, pos[0], Args([acc, elems]), node))
                if new == acc:
                    return acc
                acc = new
            raise self.err(node, 'reduce() did not stabilise')
        if name in ('collections.defaultdict',):
            val = BOT
            if x is not None:
                try:
                    val = self.call_value(fr, frozenset(a for a in x if a != NONE), Args(), node)
                except Unreachable:
                    val = BOT
            return av(('dict', None, erase_tags(val), BOT))
        if name in ('collections.OrderedDict', 'collections.Counter'):
            if x is None:
                return av(('kdict', tuple((const(k), v) for k, v in args.kw.items()), None))
            out = BOT
            for a in x:
                out = join(out, av(a) if a[0] in ('kdict', 'dict') else av(('dict', None, av(TOP), BOT)))
            return out
        if name == 'collections.deque':
            if x is None:
                return av(('seq', 'list', ()))
            mode, es = self.iteration(fr, x, node)
            if mode == 'exact':
                return av(('seq', 'list', tuple(es)))
            return av(('list', erase_tags(es)))
        if name in ('itertools.islice', 'itertools.takewhile', 'itertools.dropwhile', 'itertools.filterfalse', 'itertools.compress', 'itertools.cycle',
                    'itertools.tee', 'itertools.accumulate', 'itertools.repeat', 'itertools.pairwise', 'itertools.zip_longest', 'itertools.product',
                    'itertools.starmap', 'itertools.batched'):
            fn = name.split('.')[1]
            srcs = pos[1:2] if fn in ('takewhile', 'dropwhile', 'filterfalse', 'starmap') else pos[:1]
            if fn in ('zip_longest', 'product'):
                srcs = pos
            parts = []
            for p_ in srcs:
                mode, es = self.iteration(fr, p_, node)
                if mode == 'exact':
                    y = BOT
                    for e in es:
                        y = join(y, erase_tags(e))
                    es = y
                parts.append(erase_tags(es))
            if fn == 'repeat':
                return av(('list', erase_tags(x))) if x is not None else av(TOP)
            if not parts or not all(parts):
                return av(('list', BOT))
            if fn in ('takewhile', 'dropwhile', 'filterfalse') and pos:
                self.call_value(fr, frozenset(a for a in pos[0] if a != NONE), Args([parts[0]]), node)
            if fn == 'starmap':
                out = BOT
                for a in parts[0]:
                    if a[0] == 'seq':
                        out = join(out, self.call_value(fr, pos[0], Args(list(a[2])), node))
                    else:
                        raise self.err(node, 'starmap over values of unknown shape')
                return av(('list', erase_tags(out)))
            if fn in ('zip_longest', 'product'):
                return av(('list', av(('seq', 'tuple', tuple(join(p_, av(NONE)) if fn == 'zip_longest' else p_ for p_ in parts)))))
            if fn == 'pairwise':
                return av(('list', av(('seq', 'tuple', (parts[0], parts[0])))))
            if fn in ('tee',):
                return av(('seq', 'tuple', (av(('list', parts[0])), av(('list', parts[0])))))
            if fn == 'batched':
                return av(('list', av(('list', parts[0]))))
            if fn == 'accumulate':
                acc = parts[0]
                f_ = args.kw.get('func') or (pos[1] if len(pos) > 1 else None)
                if f_ is not None:
                    for _ in range(6):
                        new = join(acc, self.call_value(fr, f_, Args([acc, parts[0]]), node))
                        if new == acc:
                            break
                        acc = new
                return av(('list', erase_tags(acc)))
            return av(('list', parts[0]))
        if root == 'operator' and name.split('.')[1].strip('_') in ('or', 'and', 'xor', 'add', 'sub', 'mul', 'lshift', 'rshift', 'floordiv', 'mod', 'truediv',
                                                                       'ior', 'iand', 'ixor', 'iadd', 'isub', 'imul', 'concat', 'pow') and len(pos) == 2:
            opn = name.split('.')[1].strip('_')
            opn = opn[1:] if opn[0] == 'i' and opn[1:] in ('or', 'and', 'xor', 'add', 'sub', 'mul') else opn
            table = {'or': ast.BitOr, 'and': ast.BitAnd, 'xor': ast.BitXor, 'add': ast.Add, 'concat': ast.Add, 'sub': ast.Sub, 'mul': ast.Mult,
                     'lshift': ast.LShift, 'rshift': ast.RShift, 'floordiv': ast.FloorDiv, 'mod': ast.Mod, 'truediv': ast.Div, 'pow': ast.Pow}
            return self.binop(fr, table[opn](), pos[0], pos[1], node)
        if root == 'operator' and name.split('.')[1].strip('_') in ('eq', 'ne', 'lt', 'le', 'gt', 'ge', 'not', 'contains', 'is', 'truth'):
            return av(BOOL)
        if root == 'operator' and name.split('.')[1].strip('_') in ('neg', 'pos', 'invert', 'abs', 'index') and x is not None:
            return frozenset(INT_S if (a == INT_S or a[0] == 'c') else (INT_U if is_int_atom(a) else a) for a in x)
        if name in ('operator.attrgetter', 'operator.itemgetter', 'operator.methodcaller'):
            return av(('lib', '<' + name.split('.')[1] + '>', tuple(pos), tuple(sorted(args.kw.items()))))
        if name == 'dataclasses.replace' and x is not None:
            out = BOT
            for a in x:
                if a[0] == 'obj' and a[1] in self.classes and self.classes[a[1]].record:
                    ci = self.classes[a[1]]
                    kw = {}
                    for f_, _, init in self.record_fields(ci):
                        if init:
                            kw[f_] = args.kw[f_] if f_ in args.kw else self.load_attr_atom(fr, a, f_, node)
                    if all(kw.values()):
                        out = join(out, self.construct(fr, base_class(a[1]), Args([], None, kw), node))
                elif a[0] == 'obj':
                    raise self.err(node, 'dataclasses.replace() of an instance of {}'.format(a[1]))
            return out
        if name in ('dataclasses.asdict',) and x is not None:
            return self.vars_of(fr, x, node)
        if name in ('dataclasses.astuple',) and x is not None:
            out = BOT
            for a in self.vars_of(fr, x, node):
                if a[0] == 'kdict':
                    out = join(out, av(('seq', 'tuple', tuple(v for _, v in a[1]))))
            return out
        if name == 'dataclasses.dataclass':
            if x is not None and all(a[0] == 'cls' for a in x):
                raise self.err(node, 'dataclass() applied to a class by a call')
            return av(('lib', '<dataclass>'))
        if name in ('dataclasses.field',):
            init = args.kw.get('init')
            init_flag = not (init is not None and init == av(const(False)))
            return av(('libobj', 'dcfield', args.kw.get('default'), args.kw.get('default_factory'), init_flag,
                       args.kw.get('metadata', av(('kdict', (), None)))))
        if name == 'dataclasses.fields' and x is not None:
            out = BOT
            for a in x:
                cn = a[1] if a[0] in ('cls', 'obj') else None
                if cn is None or cn not in self.classes or not self.classes[cn].record:
                    raise self.err(node, 'dataclasses.fields() of something that is not a record class')
                descs = []
                for fname, default, init in self.record_fields(self.classes[cn]):
                    meta = self.dc_meta.get((base_class(cn), fname), av(('kdict', (), None)))
                    descs.append(av(('kdict', ((const('name'), av(const(fname))), (const('metadata'), meta), (const('init'), av(const(bool(init)))),
                                               (const('type'), av(TOP)), (const('default'), av(TOP))), ('dcfield',))))
                out = join(out, av(('seq', 'tuple', tuple(descs))))
            return out
        if name == 'itertools.count':
            start = 0
            sv = args.kw.get('start') or (pos[0] if pos else None)
            if sv is not None:
                start = self.const_int(sv)
            step = args.kw.get('step') or (pos[1] if len(pos) > 1 else None)
            if step is not None and self.const_int(step) != 1:
                start = None
            return av(('count', start))
        if name in ('itertools.chain', 'itertools.chain.from_iterable'):
            srcs = pos
            if name.endswith('from_iterable') and pos:
                mode, outer = self.iteration(fr, pos[0], node)
                srcs = outer if mode == 'exact' else [outer]
            elem = BOT
            for p in srcs:
                if not p:
                    continue
                mode, es = self.iteration(fr, p, node)
                if mode == 'exact':
                    for e in es:
                        elem = join(elem, erase_tags(e))
                else:
                    elem = join(elem, erase_tags(es))
            return av(('list', elem))
        if name == 'collections.namedtuple' and len(pos) >= 2:
            tn = [a for a in pos[0] if is_const(a) and a[1] == 'str']
            fields = None
            if len(pos[1]) == 1:
                fa = next(iter(pos[1]))
                if is_const(fa) and fa[1] == 'str':
                    fields = fa[2].replace(',', ' ').split()
                elif fa[0] == 'seq' and all(len(e) == 1 and is_const(next(iter(e))) for e in fa[2]):
                    fields = [next(iter(e))[2] for e in fa[2]]
            if len(tn) != 1 or fields is None:
                raise self.err(node, 'namedtuple() with computed name / fields')
            cname = tn[0][2]
            if cname not in self.classes:
                stub = ast.parse('class {}:\n    pass\n'.format(cname)).body[0]
                ast.copy_location(stub, node)
                stub._parent = getattr(node, '_parent', None)
                ci = ClassInfo(cname, stub, [])
                ci.record = 'namedtuple'
                dv = args.kw.get('defaults')
                ci.fields = [(f_, None, True) for f_ in fields]
                if dv is not None:
                    # defaults belong to the rightmost fields
                    mode, ds = self.iteration(fr, dv, node)
                    if mode != 'exact' or len(ds) > len(fields):
                        raise self.err(node, 'namedtuple() defaults of unknown shape')
                    for f_, d_ in zip(fields[len(fields) - len(ds):], ds):
                        hidden = '__dc_{}_{}'.format(cname, f_)
                        self.module.store.vars[hidden] = d_
                        ci.fields = [(n_, hidden if n_ == f_ else df_, i_) for n_, df_, i_ in ci.fields]
                self.classes[cname] = ci
                self.make_record_class(ci, 'namedtuple', stub)
            return av(('cls', cname))
        if name in ('functools.wraps', 'functools.update_wrapper'):
            if name.endswith('wraps'):
                return av(('lib', '<wraps>', x)) if x is not None else av(('lib', '<identity>'))
            return x if x is not None else av(TOP)
        if name == '<identity>':
            return x if x is not None else av(TOP)
        if name in ('collections.ChainMap',):
            vals, keys, kv = BOT, frozenset(), BOT
            for p in pos:
                for a in p:
                    if a[0] == 'kdict':
                        keys = None if keys is None else keys | frozenset(kk for kk, _ in a[1])
                        for _, vv in a[1]:
                            vals = join(vals, erase_tags(vv))
                    elif a[0] == 'dict':
                        keys = None if (keys is None or a[1] is None) else keys | a[1]
                        vals = join(vals, a[2])
                        kv = join(kv, a[3])
                    else:
                        keys = None
                        vals = join(vals, av(TOP))
            return av(('dict', keys, vals, kv))
        if name in ('copy.deepcopy', 'copy.copy'):
            return x if x is not None else av(TOP)
        if root == 'os':
            if fr.summary is not None:
                fr.summary.pure = False
            if name in ('os.path.exists', 'os.path.isfile', 'os.path.isdir', 'os.path.isabs', 'os.path.islink', 'os.access'):
                return av(BOOL)
            if name == 'os.path.getsize':
                return av(('int', 'fsize'))
            if name in ('os.path.splitext', 'os.path.split'):
                return av(('seq', 'tuple', (av(STR_U), av(STR_U))))
            if name in ('os.listdir',):
                return av(('list', av(STR_U)))
            if name.startswith('os.path.') or name in ('os.getcwd', 'os.fspath', 'os.getenv'):
                return av(('str', 'u', ('derived', name)))
            return av(EXT)
        if root == 're':
            fn = name.split('.', 1)[1]
            if fn == 'compile':
                return av(('libobj', 're.Pattern', x if x is not None else av(TOP)))
            if fn in ('sub', 'subn'):
                src = pos[2] if len(pos) > 2 else args.kw.get('string', av(STR_U))
                repl = pos[1] if len(pos) > 1 else av(STR_S)
                out = set()
                for a in src:
                    if is_str_atom(a):
                        extra = a[2] if (a[0] == 'str' and isinstance(a[2], tuple) and a[2][0] == 'sizeint') else None
                        t = str_taint(a)
                        if any(is_str_atom(b) and str_taint(b) == 'u' for b in repl):
                            t = 'u'
                        out.add(('str', t, extra))
                    else:
                        out.add(STR_U)
                for r in repl:
                    if r[0] in ('fn', 'clo', 'bound', 'partial'):
                        self.call_value(fr, av(r), Args([av(('libobj', 're.Match'))]), node)
                return frozenset(out)
            if fn == 'split':
                src = pos[1] if len(pos) > 1 else args.kw.get('string', av(STR_U))
                sz = frozenset()
                for a in src:
                    if a[0] == 'str' and isinstance(a[2], tuple) and a[2][0] == 'sizeint':
                        sz = sz | a[2][1]
                return av(('toks', None, None, sz))
            if fn in ('match', 'search', 'fullmatch'):
                return av(NONE, ('libobj', 're.Match', x if x is not None else av(TOP)))
            if fn in ('findall',):
                src = pos[1] if len(pos) > 1 else args.kw.get('string', av(STR_U))
                sz = frozenset()
                for a in src:
                    if a[0] == 'str' and isinstance(a[2], tuple) and a[2][0] == 'sizeint':
                        sz = sz | a[2][1]
                pat = pos[0] if pos else BOT
                plain = pat and all(is_const(a) and a[1] == 'str' and '(' not in a[2] for a in pat)
                if plain:
                    # the matches of a pattern without groups are the pieces of the text themselves, in order
                    return av(('toks', None, None, sz))
                return av(('list', av(('str', 'u', 'maybe-size') if sz else STR_U)))
            if fn == 'finditer':
                return av(('list', av(('libobj', 're.Match'))))
            if fn == 'escape':
                return av(STR_U)
            return av(TOP)
        if root == 'struct':
            fn = name.split('.', 1)[1]
            if fn in ('pack', 'pack_into', 'calcsize', 'unpack', 'unpack_from', 'iter_unpack'):
                fmt_ok = x is not None and all(is_const(a) and a[1] in ('str', 'bytes') for a in x)
                vals_user = False
                if fn == 'pack':
                    exprs = list(node.args[1:]) if isinstance(node, ast.Call) and not any(isinstance(a_, ast.Starred) for a_ in node.args) \
                        and dotted(node.func) in ('struct.pack',) else []
                    for i_, v in enumerate(pos[1:]):
                        if self.user_value(v):
                            if i_ < len(exprs) and all(is_int_atom(a_) for a_ in v) and self.is_bounded(fr, exprs[i_]):
                                continue        # compared against program-chosen bounds on both sides before being packed
                            vals_user = True
                    if args.star is not None and self.user_value(args.star):
                        vals_user = True
                if fn.startswith('unpack') or fn == 'iter_unpack':
                    vals_user = True
                if not fmt_ok or vals_user:
                    sure = (x is not None and any(a != TOP and not (is_const(a) and a[1] in ('str', 'bytes')) for a in x)) \
                        or (fn == 'pack' and (any(self.user_value(v, sure=True) for v in pos[1:]) or (args.star is not None and self.user_value(args.star, sure=True))))
                    self.library_raise(fr, 'struct.error', node, uncertain=not sure)
                if fn == 'calcsize':
                    return av(INT_S)
                if fn == 'pack':
                    return av(BYTES)
                return av(('list', av(INT_U, BYTES)))
            if fn == 'Struct':
                if x is None or not all(is_const(a) and a[1] in ('str', 'bytes') for a in x):
                    self.library_raise(fr, 'struct.error', node, uncertain=x is None or any(a == TOP for a in x))
                return av(('libobj', 'struct.Struct', x if x is not None else av(TOP)))
            return av(TOP)
        if root == 'ctypes':
            return av(('libobj', 'ctypes.int'))
        if name in ('int.from_bytes',):
            return av(INT_U)
        if name in ('str.join', 'str.format', 'str.lower', 'str.upper', 'str.strip'):
            return av(STR_U)
        if name.startswith('object.'):
            return av(NONE)
        if name in ('dict.fromkeys',):
            return av(('dict', None, pos[1] if len(pos) > 1 else av(NONE), BOT))
        if name in ('bytes.fromhex', 'bytearray.fromhex'):
            if x is not None and any((b[0] == 'str' and b[1] == 'u') or b[0] == 'tok' for b in x):
                self.library_raise(fr, 'ValueError', node)
            return av(BYTES)
        if root in ('logging', 'argparse', 'sys', 'abc', 'typing', 'warnings', 'time'):
            if fr.summary is not None:
                fr.summary.pure = False
            return av(EXT)
        if name in ('contextlib.suppress', 'contextlib.ExitStack', 'contextlib.closing', 'contextlib.redirect_stdout'):
            raise self.err(node, '{} is not modelled'.format(name))
        # an unmodelled library function: harmless for plain data, not for objects / callables it might call or keep
        for v in list(pos) + list(args.kw.values()):
            for a in v:
                if a[0] in ('obj', 'fn', 'clo', 'bound', 'partial', 'cls', 'list', 'seq', 'dict', 'kdict', 'toks') :
                    raise self.err(node, 'library function {} is not modelled'.format(name))
        return av(TOP)

    # -- driver -------------------------------------------------------------------------------------------------------------
    def run(self, entry, make_args, max_rounds=12):
        """evaluate entry(*args) to a fixed point of the heap and of all call summaries; returns the entry's summaries"""
        fn = self.funcs.get(entry)
        if fn is None:
            raise AnalysisError('anchor vanished: {}'.format(entry))
        results = None
        for rnd in range(max_rounds):
            self.round = rnd
            self.changed = False
            self.why = []
            self.done = set()
            self.active = {}
            self.ctor_memo = {}
            self.gen_memo = {}
            results = []
            for args in make_args():
                top = Frame(self, '<entry>', None, None, self.fid_for(('entry',)))
                top.store = Store()
                top.summary = Summary()
                r = self.call_user(top, ('fn', entry), args, fn, None)
                results.append((r, list(top.pending)))
            if self.restart and not self.in_module_init:
                # what was learnt changes how objects are modelled (not just how much is known): start over, so that nothing
                # derived under the coarser model survives
                self.restart = False
                self.heap, self.attr_order, self.fn_attrs = dict(self._snapshot[0]), {k: list(v) for k, v in self._snapshot[1].items()}, dict(self._snapshot[2])
                self.summaries = {}
                self.cached_results = {}
                for ev in (self.ev_store, self.ev_handler, self.ev_line, self.ev_relabel, self.ev_origin, self.ev_discharge, self.ev_construct,
                           self.ev_dead_branch, self.call_edges, self.arity_mismatch):
                    ev.clear()
                self.approx_sites.clear()
                self.unrefined_type_tests.clear()
                self.decided_quantifiers.clear()
                self.reached.clear()
                self.reached_nodes.clear()
                self.mutated_fields.clear()
                continue
            if not self.changed:
                return results
        raise AnalysisError('abstract interpretation of {} did not reach a fixed point in {} rounds (still changing: {})'.format(
            entry, max_rounds, [str(w)[:200] for w in self.why[:6]]))
