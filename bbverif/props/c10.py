"""C10 - data directives emit exactly the documented bytes; misfitting values are refused."""
import ast

from ..core import Report, Finding, AnalysisError
from ..facts import Facts
from ..astutil import unparse, dotted, walk_no_nested, fold, NotConstant
from ..callgraph import CallGraph
from ..prov import Prov
from ..pathwalk import show, is_const, C
from .. import layoutrules as LR, oracle, docs
from ..immsites import find_all, contains
from .c16 import reachable

LEVEL = 'other'
NARROWING = {'&', '%', '>>', '<<', '|', '^', '//', '*', '+', '-'}


def size_table(facts, cls):
    ci = facts.classes.get(cls)
    if ci is None or 'size' not in ci.methods:
        raise AnalysisError('anchor vanished: {}.size'.format(cls))
    for n in ast.walk(ci.methods['size']):
        if isinstance(n, ast.Dict):
            try:
                return fold(n), n
            except NotConstant:
                pass
    raise AnalysisError('{}.size has no literal width table'.format(cls))


def local_table(fn, name):
    for n in ast.walk(fn):
        if isinstance(n, ast.Assign) and isinstance(n.targets[0], ast.Name) and n.targets[0].id == name and isinstance(n.value, ast.Dict):
            return fold(n.value), n
    return None, None


def check_widths(rep, facts, doc_text):
    for cls, fn_name, doc_heading, want in (('Sequence', 'resolve_sequences', 'integer sequences', oracle.SEQUENCE_WIDTHS),
                                            ('ShorthandPack', 'transform_shorthand_packs', 'shorthand', oracle.SHORTHAND_WIDTHS)):
        sizes, snode = size_table(facts, cls)
        fn = facts.funcs.get(fn_name)
        if fn is None:
            raise AnalysisError('anchor vanished: ' + fn_name)
        formats, fnode = local_table(fn, 'formats')
        if formats is None:
            raise AnalysisError('{}: no literal `formats` table'.format(fn_name))
        documented = docs.keyword_table(doc_text, 'Keyword', doc_heading)
        for kw in sorted(set(want) | set(sizes) | set(formats) | set(documented)):
            w = want.get(kw)
            letter = formats.get(kw)
            st = oracle.STRUCT_SIZES.get(letter) if isinstance(letter, str) else None
            ok = w is not None and sizes.get(kw) == w and st == w and documented.get(kw) == w and isinstance(letter, str) and letter.isupper()
            rep.check(ok, 'R10.1.width', '{}: {} bytes in docs, size(), struct format {!r} and the reference table'.format(kw, w, letter),
                      lambda kw=kw, w=w, letter=letter, st=st, sizes=sizes, documented=documented, fnode=fnode: Finding(
                          'R10.1.width', fn_name, fnode,
                          '`{}`: documented {} bytes, size() says {}, struct format {!r} packs {} bytes, reference {}'.format(
                              kw, documented.get(kw), sizes.get(kw), letter, st, w), line=fnode.lineno), nontrivial=True)
        rep.count('width table rows', len(want))


def check_signedness(rep, facts):
    """R10.2: per keyword and per branch the struct format is '<' + unsigned letter, lower-cased exactly when the value is negative;
    the value reaches struct.pack untouched."""
    n = 0
    for fname, cls in (('resolve_sequences', 'Sequence'), ('transform_shorthand_packs', 'ShorthandPack')):
        pa = LR.pass_analysis(facts, fname)
        fn = pa.fn
        formats, fnode = local_table(fn, 'formats')
        for r in pa.rows:
            p = r['path']
            f = p.facts.get(pa.item)
            if not f or cls not in f['isa'] or p.end == 'raise':
                continue
            key = r.get('seed')
            neg = None
            for t, pol, node in p.conds:
                if t[0] == 'cmp' and t[1] == '<' and t[3] == C(0):
                    neg = pol
                    operand = t[2]
                elif t[0] == 'cmp' and t[1] in ('<=', '>=', '>') and is_const(t[3]):
                    neg = 'other'
                    operand = t[2]
            packs = []
            for ev in p.events:
                if ev[0] == 'value':
                    packs += find_all(ev[1], lambda t: t[0] == 'call' and t[1] == 'struct.pack')
                    if ev[1][0] == 'new' and ev[1][1] == 'Pack':
                        packs.append(ev[1])
            if not packs:
                continue      # zero-length sequence path
            n += 1
            pk = packs[0]
            if pk[0] == 'call':
                fmt, val = pk[2][0], pk[2][1]
            else:
                fmt, val = pk[2][1], pk[2][2]
            node = [e[2] for e in p.events if e[0] == 'value' and (contains(e[1], pk) or e[1] == pk)][0]
            inst = '{} {} [{}]'.format(fname, key, 'negative' if neg is True else ('non-negative' if neg is False else neg))
            if neg == 'other' or neg is None:
                rep.fail(Finding('R10.2.sign', fname, node, 'the signed/unsigned format is not chosen by the test `value < 0`', line=node.lineno), instance=inst)
                continue
            letter = formats.get(key)
            want = '<' + (letter.lower() if neg else letter) if isinstance(letter, str) else None
            rep.check(is_const(fmt) and fmt[1] == want, 'R10.2.sign', inst + ': format ' + str(want),
                      lambda fmt=fmt, want=want, node=node, key=key, neg=neg: Finding('R10.2.sign', fname, node,
                                                                                     '`{}` packs a {} value with format {} instead of {!r} (little endian, {} letter of the same width)'.format(
                                                                                         key, 'negative' if neg else 'non-negative', show(fmt), want, 'signed' if neg else 'unsigned'), line=node.lineno))
            # the tested value and the packed value are the same, unmodified
            narrowing = find_all(val, lambda t: t[0] == 'bin' and t[1] in NARROWING) or find_all(val, lambda t: t[0] == 'call' and t[1] in ('c_uint32', 'c_int32', 'abs', 'min', 'max'))
            same = val == operand
            rep.check(not narrowing and same, 'R10.2.no-narrowing', inst + ': the user\'s value reaches struct.pack unchanged',
                      lambda val=val, node=node, key=key: Finding('R10.2.no-narrowing', fname, node,
                                                                  '`{}`: the value handed to struct.pack is {} - arithmetic between the user\'s value and the packing silently wraps values that do not fit'.format(
                                                                      key, show(val)), line=node.lineno))
    rep.analysed['sign/format cases'] = n
    # pack: fmt and imm pass unchanged
    pa = LR.pass_analysis(facts, 'resolve_packs')
    for r in pa.rows:
        p = r['path']
        for ev in p.events:
            if ev[0] == 'value':
                for pk in find_all(ev[1], lambda t: t[0] == 'call' and t[1] == 'struct.pack'):
                    ok = pk[2] == (('attr', pa.item, 'fmt'), ('attr', pa.item, 'imm'))
                    rep.check(ok, 'R10.3.pack', 'pack: struct.pack(item.fmt, item.imm)',
                              lambda pk=pk, ev=ev: Finding('R10.3.pack', 'resolve_packs', ev[2], 'pack emits struct.pack({}) instead of the given format applied to the given value'.format(
                                  ', '.join(show(a) for a in pk[2])), line=ev[2].lineno))
    ci = facts.classes['Pack']
    sz = unparse(ci.methods['size'])
    rep.check('struct.calcsize(self.fmt)' in sz, 'R10.3.pack', 'Pack.size() == struct.calcsize of the same format',
              lambda: Finding('R10.3.pack', 'Pack.size', ci.methods['size'], 'Pack.size() is not the size of the format that is packed', line=ci.methods['size'].lineno))


def check_strings(rep, facts):
    # emission codec == size codec == utf-8
    pa = LR.pass_analysis(facts, 'resolve_strings')
    for r in pa.rows:
        for val, node in r['app_values']:
            if val[0] == 'new' and val[1] == 'Blob':
                data = val[2][1]
                ok = data == ('mcall', ('attr', pa.item, 'value'), 'encode', (C('utf-8'),), ())
                rep.check(ok, 'R10.4.utf8', 'string emits value.encode("utf-8")',
                          lambda node=node, data=data: Finding('R10.4.utf8', 'resolve_strings', node, 'string data is emitted as {} instead of the UTF-8 encoding of its text'.format(show(data)), line=node.lineno))
    ci = facts.classes['String']
    sz = unparse(ci.methods['size'])
    rep.check("len(self.value.encode('utf-8'))" in sz, 'R10.4.utf8', 'String.size() measures the UTF-8 encoding',
              lambda: Finding('R10.4.utf8', 'String.size', ci.methods['size'], 'String.size() does not measure the bytes that are emitted', line=ci.methods['size'].lineno))
    # codec round trip in the lexer
    fn = facts.funcs.get('lex_tokens')
    if fn is None:
        raise AnalysisError('anchor vanished: lex_tokens')
    sites = 0
    string_vars = set()
    for n in ast.walk(fn):
        if isinstance(n, ast.List) and n.elts and isinstance(n.elts[0], ast.Constant) and n.elts[0].value == 'string' and len(n.elts) == 2 and isinstance(n.elts[1], ast.Name):
            string_vars.add(n.elts[1].id)
    for n in ast.walk(fn):
        if isinstance(n, ast.Assign) and isinstance(n.targets[0], ast.Name) and n.targets[0].id in string_vars:
            v = n.value
            if isinstance(v, ast.Call) and isinstance(v.func, ast.Attribute) and v.func.attr == 'decode' and v.args \
                    and isinstance(v.args[0], ast.Constant) and v.args[0].value in ('unicode_escape', 'unicode-escape'):
                enc = v.func.value
                sites += 1
                ok = False
                c1 = None
                if isinstance(enc, ast.Call) and isinstance(enc.func, ast.Attribute) and enc.func.attr == 'encode':
                    args = [a.value for a in enc.args if isinstance(a, ast.Constant)]
                    kw = {k.arg: k.value.value for k in enc.keywords if isinstance(k.value, ast.Constant)}
                    c1 = args[0] if args else kw.get('encoding', 'utf-8')
                    errors = args[1] if len(args) > 1 else kw.get('errors')
                    ok = str(c1).lower().replace('_', '-') in ('latin-1', 'latin1', 'iso-8859-1', 'iso8859-1', 'ascii') and errors == 'backslashreplace'
                rep.check(ok, 'R10.4.escape-codec', 'string text: encode(single-byte codec, backslashreplace).decode(unicode_escape)',
                          lambda n=n, c1=c1: Finding('R10.4.escape-codec', 'lex_tokens', n,
                                                     'escape processing re-reads the text through `.encode({!r}).decode(\'unicode_escape\')`: unicode_escape decodes bytes as Latin-1, so every '
                                                     'non-ASCII character becomes two or more characters (`string \\u00e9` emits c3 83 c2 a9); the round trip is the identity only for a '
                                                     'single-byte codec with errors=\'backslashreplace\''.format(c1), line=n.lineno))
    rep.analysed['string escape sites'] = sites


def check_include_bytes(rep, facts):
    cg = CallGraph(facts)
    pv = Prov(facts, cg)
    reach = sorted(reachable(cg, 'assemble'))
    n = 0
    for q, node, name, arg in pv.sinks(reach):
        if q in ('resolve_include_bytes',) or (name == 'os.path.getsize'):
            n += 1
            k = pv.kind(arg, q)
            rep.check(k == 'Resolved', 'R10.5.provenance', '{}: {}({}) uses the path the include search returned'.format(q, name, unparse(arg)),
                      lambda q=q, node=node, name=name, arg=arg, k=k: Finding('R10.5.provenance', q, node,
                                                                              'include_bytes: {}({}) is given a {} path; size and content must both come from the file the include search found'.format(
                                                                                  name, unparse(arg), k), line=node.lineno))
    rep.analysed['include_bytes filesystem sites'] = n
    fn = facts.funcs.get('resolve_include_bytes')
    guards = [x for x in ast.walk(fn) if isinstance(x, (ast.Assert, ast.If)) and 'fsize' in unparse(x.test) and 'len(' in unparse(x.test)]
    rep.check(bool(guards), 'R10.5.size-check', 'content length is checked against the size the labels were computed from',
              lambda: Finding('R10.5.size-check', 'resolve_include_bytes', fn, 'the embedded content is not checked against the size used for layout', line=fn.lineno))
    opens = [x for x in ast.walk(fn) if isinstance(x, ast.Call) and dotted(x.func) == 'open']
    for o in opens:
        mode = o.args[1].value if len(o.args) > 1 and isinstance(o.args[1], ast.Constant) else None
        rep.check(mode == 'rb', 'R10.5.binary', 'include_bytes reads in binary mode',
                  lambda o=o, mode=mode: Finding('R10.5.binary', 'resolve_include_bytes', o, 'the file is opened with mode {!r}: content is decoded / newline-translated'.format(mode), line=o.lineno))


def run(repo, tier):
    facts = Facts(repo.asm)
    rep = Report('C10', LEVEL,
                 'Table agreement: documented widths (RST grids) == size() tables == struct standard size of the format letters == reference; '
                 'per keyword and branch the struct format is "<" + the unsigned letter, lower-cased exactly on the negative branch, and the '
                 'tested value reaches struct.pack unchanged (no arithmetic narrowing); pack passes format and value through; strings are '
                 'emitted and measured as UTF-8 and escape processing uses a codec whose round trip through unicode_escape is the identity; '
                 'include_bytes size and content both come from the path the include search returned (provenance kinds), binary mode, length check.')
    rep.trusted_base = ['CPython ast', 'struct rejects out-of-range values for standard sizes (library contract)', 'Latin-1 contract of the unicode_escape codec',
                        'bbverif.pathwalk / prov']
    rep.not_decided = ['that struct.pack refuses every misfit (library contract)', 'full unicode_escape processing of backslash sequences']
    check_widths(rep, facts, repo.text['docs/assembly_language.rst'])
    check_signedness(rep, facts)
    check_strings(rep, facts)
    check_include_bytes(rep, facts)
    rep.floor('width table rows', 9)
    rep.floor('sign/format cases', 18)
    rep.floor('string escape sites', 1)
    rep.floor('include_bytes filesystem sites', 2)
    return rep
