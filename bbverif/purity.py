"""Purity / determinism effect rules (C16), usable on any module tree (the repo and the positive fixture)."""
import ast

from .astutil import unparse, dotted, walk_no_nested

MUTATORS = {'append', 'extend', 'insert', 'update', 'add', 'pop', 'remove', 'clear', 'setdefault', 'popitem', 'sort', 'reverse',
            'discard', '__setitem__', '__delitem__', 'appendleft', 'popleft', 'difference_update', 'intersection_update',
            'symmetric_difference_update'}
AMBIENT_CALLS = {'time.time', 'time.monotonic', 'time.perf_counter', 'time.time_ns', 'datetime.now', 'datetime.datetime.now',
                 'datetime.utcnow', 'datetime.date.today', 'uuid.uuid4', 'uuid.uuid1', 'os.getpid', 'os.urandom', 'id', 'hash',
                 'os.getenv', 'os.environ.get', 'socket.gethostname', 'getpass.getuser'}
UNSORTED_LISTING = {'os.listdir', 'glob.glob', 'os.scandir', 'glob.iglob', 'os.walk'}


def module_level_mutables(tree):
    """{name: kind} for module-level dict / set / list objects and classes."""
    out = {}
    for st in tree.body:
        if isinstance(st, ast.Assign):
            for t in st.targets:
                if isinstance(t, ast.Name):
                    v = st.value
                    if isinstance(v, (ast.Dict, ast.DictComp)):
                        out[t.id] = 'dict'
                    elif isinstance(v, (ast.Set, ast.SetComp)):
                        out[t.id] = 'set'
                    elif isinstance(v, (ast.List, ast.ListComp)):
                        out[t.id] = 'list'
                    elif isinstance(v, ast.Call) and dotted(v.func) in ('dict', 'set', 'list', 'collections.OrderedDict', 'defaultdict', 'collections.defaultdict'):
                        out[t.id] = {'dict': 'dict', 'set': 'set', 'list': 'list'}.get(dotted(v.func), 'dict')
        elif isinstance(st, ast.ClassDef):
            out[st.name] = 'class'
    return out


_LOCALS = {}


def local_names(fn):
    """Names that are local to the function (parameters and assigned names not declared global); memoised per node."""
    if id(fn) not in _LOCALS:
        _LOCALS[id(fn)] = _local_names(fn)
    return _LOCALS[id(fn)]


def _local_names(fn):
    out = {a.arg for a in fn.args.posonlyargs + fn.args.args + fn.args.kwonlyargs}
    if fn.args.vararg:
        out.add(fn.args.vararg.arg)
    if fn.args.kwarg:
        out.add(fn.args.kwarg.arg)
    glob = set()
    for n in walk_no_nested(fn):
        if isinstance(n, ast.Global):
            glob.update(n.names)
    for n in walk_no_nested(fn):
        if isinstance(n, ast.Name) and isinstance(n.ctx, (ast.Store, ast.Del)):
            out.add(n.id)
        if isinstance(n, (ast.FunctionDef, ast.ClassDef)):
            out.add(n.name)
        if isinstance(n, ast.ExceptHandler) and n.name:
            out.add(n.name)                    # except E as name
        if isinstance(n, (ast.Import, ast.ImportFrom)):
            out.update((a.asname or a.name).split('.')[0] for a in n.names)
    return out - glob, glob


PARAM_SETS = {}     # id(FunctionDef) -> set of parameter names that receive set-kinded arguments at some call site


def set_kinded(node, fn, module_sets, depth=0):
    if isinstance(node, ast.Name) and fn is not None and node.id in PARAM_SETS.get(id(fn), ()):
        return True
    if isinstance(node, (ast.Set, ast.SetComp)):
        return True
    if isinstance(node, ast.Call) and dotted(node.func) in ('set', 'frozenset'):
        return True
    if isinstance(node, ast.BinOp) and isinstance(node.op, (ast.BitAnd, ast.BitOr, ast.Sub, ast.BitXor)):
        # set algebra, also on dict views: d.items() | e.items() and d.keys() & e.keys() are plain sets
        view = lambda x: isinstance(x, ast.Call) and isinstance(x.func, ast.Attribute) and x.func.attr in ('items', 'keys') and not x.args and not x.keywords
        return set_kinded(node.left, fn, module_sets, depth) or set_kinded(node.right, fn, module_sets, depth) or view(node.left) or view(node.right)
    if isinstance(node, ast.Call) and isinstance(node.func, ast.Attribute) and node.func.attr in ('union', 'intersection', 'difference', 'symmetric_difference', 'copy') \
            and set_kinded(node.func.value, fn, module_sets, depth):
        return True
    if isinstance(node, ast.Name) and depth < 3:
        locs, _ = local_names(fn) if fn is not None else (set(), set())
        if node.id in locs and fn is not None:
            defs = [st.value for st in walk_no_nested(fn) if isinstance(st, ast.Assign) and any(isinstance(t, ast.Name) and t.id == node.id for t in st.targets)]
            return bool(defs) and all(set_kinded(d, fn, module_sets, depth + 1) for d in defs)
        return node.id in module_sets
    return False


def _pin_value(v):
    return (isinstance(v, ast.Constant) and v.value is None) or (isinstance(v, ast.Dict) and not v.keys)


def enclosing_class(fn):
    cur = getattr(fn, '_parent', None)
    while cur is not None and not isinstance(cur, ast.ClassDef):
        if isinstance(cur, (ast.FunctionDef, ast.Lambda)):
            return None
        cur = getattr(cur, '_parent', None)
    return cur


def pinned_globals(g, fn, module_tree=None, depth=0):
    """Does the globals argument of eval() pin `__builtins__` to None / {}?  True / False / None (not understood).  Read through a
    dict display, dict(...) keywords, a local bound once, a module-level constant, or a class-level constant (`self.X` / `Class.X`);
    writes into module-level objects are R16.1's business."""
    if g is None:
        return False                # eval(text): the caller's globals
    if depth > 3:
        return None
    if isinstance(g, ast.Dict):
        if any(k is None or not isinstance(k, ast.Constant) for k in g.keys):
            return None
        for k, v in zip(g.keys, g.values):
            if k.value == '__builtins__':
                return True if _pin_value(v) else (False if isinstance(v, (ast.Constant, ast.Dict)) else None)
        return False
    if isinstance(g, ast.Call) and dotted(g.func) == 'dict' and not g.args:
        if any(k.arg is None for k in g.keywords):
            return None
        for k in g.keywords:
            if k.arg == '__builtins__':
                return True if _pin_value(k.value) else (False if isinstance(k.value, (ast.Constant, ast.Dict)) else None)
        return False
    if isinstance(g, ast.Name):
        locs, _ = local_names(fn)
        if g.id in locs:
            defs = [st.value for st in walk_no_nested(fn) if isinstance(st, ast.Assign) and any(isinstance(t, ast.Name) and t.id == g.id for t in st.targets)]
            return pinned_globals(defs[0], fn, module_tree, depth + 1) if len(defs) == 1 else None
        if module_tree is not None:
            defs = [st.value for st in module_tree.body if isinstance(st, ast.Assign) and any(isinstance(t, ast.Name) and t.id == g.id for t in st.targets)]
            return pinned_globals(defs[0], fn, None, depth + 1) if len(defs) == 1 else None
        return None
    if isinstance(g, ast.Attribute) and isinstance(g.value, ast.Name):
        cls = None
        if g.value.id in ('self', 'cls') or (fn.args.args and g.value.id == fn.args.args[0].arg):
            cls = enclosing_class(fn)
        elif module_tree is not None:
            cls = next((st for st in module_tree.body if isinstance(st, ast.ClassDef) and st.name == g.value.id), None)
        if cls is None:
            return None
        defs = [st.value for st in cls.body if isinstance(st, ast.Assign) and any(isinstance(t, ast.Name) and t.id == g.attr for t in st.targets)]
        return pinned_globals(defs[0], fn, None, depth + 1) if len(defs) == 1 else None
    return None


# -- order sensitivity of an iteration over a set -----------------------------------------------------------------------------
REDUCERS = {'any', 'all', 'sum', 'set', 'frozenset', 'len', 'sorted', 'min', 'max'}        # sorted / min / max: without key=
PURE_BUILTINS = {'len', 'isinstance', 'str', 'int', 'bool', 'abs', 'type', 'hasattr', 'repr', 'tuple', 'frozenset', 'ord', 'chr', 'hex',
                 'min', 'max', 'float', 'round', 'divmod'}
PURE_METHODS = {'get', 'keys', 'values', 'items', 'startswith', 'endswith', 'lower', 'upper', 'strip', 'lstrip', 'rstrip', 'format',
                'count', 'index', 'isdigit', 'isdisjoint', 'issubset', 'issuperset', 'split', 'join', 'copy'}
ORDERED_SINKS = {'append', 'extend', 'insert', 'appendleft', 'write', 'writelines', 'send'}


def pure_expr(node):
    """An expression without effects: names, constants, operators, subscripts, attribute loads, calls of a few builtins and
    read-only methods."""
    for n in ast.walk(node):
        if isinstance(n, (ast.Yield, ast.YieldFrom, ast.Await, ast.NamedExpr, ast.Lambda)):
            return False
        if isinstance(n, ast.Call):
            if isinstance(n.func, ast.Name) and n.func.id in PURE_BUILTINS | REDUCERS:
                continue
            if isinstance(n.func, ast.Attribute) and n.func.attr in PURE_METHODS:
                continue
            return False
    return True


def _has_key(call):
    return any(k.arg in ('key', None) for k in call.keywords)


def _name_loads(fn, name):
    return [n for n in ast.walk(fn) if isinstance(n, ast.Name) and n.id == name and isinstance(n.ctx, ast.Load)]


def resolve_function(func, fn):
    """The FunctionDef a plain name denotes at a call inside fn: a closure defined in fn (or in a function around it), else a
    module-level function; None when the name is bound in any other way."""
    cur = fn
    while cur is not None:
        if isinstance(cur, (ast.FunctionDef, ast.Module)):
            defs = [st for st in (walk_no_nested(cur) if isinstance(cur, ast.FunctionDef) else cur.body) if isinstance(st, ast.FunctionDef) and st.name == func.id and st is not cur]
            if len(defs) == 1:
                return defs[0]
            if defs:
                return None
            if isinstance(cur, ast.FunctionDef) and func.id in local_names(cur)[0]:
                return None
        cur = getattr(cur, '_parent', None)
    return None


def consumer_class(node, fn, depth=0):
    """How the order of an order-carrying expression `node` (a comprehension / list() / view over a set) is used:
    'ok' (the consumer does not depend on it), 'bad' (it positively does), 'unknown'."""
    par = getattr(node, '_parent', None)
    if depth > 4 or par is None:
        return 'unknown'
    if isinstance(par, ast.Call) and node in par.args:
        f = par.func
        if isinstance(f, ast.Name) and f.id in REDUCERS and len(par.args) == 1:
            if f.id in ('sorted', 'min', 'max') and _has_key(par):
                return 'unknown'
            return 'ok'
        if isinstance(f, ast.Name) and f.id in ('list', 'tuple', 'iter', 'reversed') and len(par.args) == 1:
            return consumer_class(par, fn, depth + 1)             # still a sequence in that order
        if isinstance(f, ast.Name) and f.id in ('enumerate', 'zip', 'next', 'dict', 'OrderedDict'):
            return 'bad'
        if isinstance(f, ast.Attribute) and f.attr in LOG_METHODS and isinstance(f.value, ast.Name) and f.value.id in LOG_RECEIVERS:
            return 'ok'                  # log output is not among the results the property speaks about
        if isinstance(f, ast.Attribute) and f.attr == 'join':
            return 'ok' if only_logged(par, fn) else 'bad'
        if isinstance(f, ast.Attribute) and f.attr in ORDERED_SINKS:
            return 'bad'
        if isinstance(f, ast.Attribute) and f.attr in ('update', 'intersection', 'union', 'difference', 'issubset', 'issuperset', 'isdisjoint') \
                and not isinstance(node, (ast.DictComp,)):
            return 'ok' if f.attr != 'update' else 'unknown'
        callee = resolve_function(f, fn) if isinstance(f, ast.Name) else None
        if callee is not None and depth < 3 and not any(isinstance(a, ast.Starred) for a in par.args):
            # handed to a function of the module / a local closure: how that function uses the parameter
            cparams = [a.arg for a in callee.args.posonlyargs + callee.args.args]
            i = par.args.index(node)
            if i < len(cparams):
                pname = cparams[i]
                if any(isinstance(n, ast.Name) and n.id == pname and isinstance(n.ctx, ast.Store) for n in ast.walk(callee)):
                    return 'unknown'
                out = 'ok'
                for use in _name_loads(callee, pname):
                    c = use_class(use, callee, 'seq', depth + 1)
                    if c == 'bad':
                        return 'bad'
                    if c == 'unknown':
                        out = 'unknown'
                return out
        return 'unknown'
    if isinstance(par, (ast.Starred, ast.Return, ast.Yield, ast.YieldFrom)):
        return 'bad'
    if isinstance(par, (ast.Tuple, ast.List)) and isinstance(getattr(par, 'ctx', None), ast.Load):
        return consumer_class(par, fn, depth + 1)            # kept, in that order, inside a display
    if isinstance(par, ast.Subscript) and par.value is node:
        return 'bad' if not isinstance(node, ast.DictComp) else 'ok'
    if isinstance(par, (ast.For, ast.comprehension)) and par.iter is node:
        return 'unknown'
    if isinstance(par, ast.Compare):
        return 'ok' if any(isinstance(o, (ast.In, ast.NotIn)) for o in par.ops) and node in par.comparators else 'unknown'
    if isinstance(par, (ast.If, ast.While, ast.IfExp)) and par.test is node:
        return 'ok'
    if isinstance(par, ast.UnaryOp) and isinstance(par.op, ast.Not):
        return 'ok'
    if isinstance(par, ast.Assign) and len(par.targets) == 1 and isinstance(par.targets[0], ast.Name) and par.value is node and fn is not None:
        name = par.targets[0].id
        stores = [n for n in ast.walk(fn) if isinstance(n, ast.Name) and n.id == name and isinstance(n.ctx, (ast.Store, ast.Del))]
        if len(stores) != 1:
            return 'unknown'
        kind = 'dict' if isinstance(node, ast.DictComp) else 'seq'
        out = 'ok'
        for use in _name_loads(fn, name):
            c = use_class(use, fn, kind, depth + 1, node)
            if c == 'bad':
                return 'bad'
            if c == 'unknown':
                out = 'unknown'
        return out
    return 'unknown'


def use_class(use, fn, kind, depth, src=None):
    """One load of a local that holds a container whose order depends on the hash seed (src: the expression it was built by)."""
    par = getattr(use, '_parent', None)
    if isinstance(par, ast.Call) and use in par.args and isinstance(par.func, ast.Attribute) and par.func.attr == 'update' and len(par.args) == 1 \
            and isinstance(par.func.value, ast.Name) and isinstance(src, ast.DictComp) and len(src.generators) == 1:
        # T.update({k: ... for k in <keys of T>}): only entries that exist already are overwritten, the order of T stays
        g = src.generators[0]
        if isinstance(g.target, ast.Name) and isinstance(src.key, ast.Name) and src.key.id == g.target.id and within_keys(g.iter, par.func.value.id):
            return 'ok'
    if isinstance(par, ast.Attribute) and par.value is use:
        call = getattr(par, '_parent', None)
        if isinstance(call, ast.Call) and call.func is par:
            if par.attr in ('get', '__contains__', 'count', 'index') and kind == 'dict':
                return 'ok'
            if par.attr in ('keys', 'values', 'items', 'copy') and not call.args:
                return consumer_class(call, fn, depth)
            if par.attr in MUTATORS:
                return 'unknown'
        return 'unknown'
    if isinstance(par, ast.Subscript) and par.value is use:
        return 'ok' if kind == 'dict' else 'bad'
    if isinstance(par, (ast.For, ast.comprehension)) and par.iter is use:
        if isinstance(par, ast.For):
            return loop_body_class(par, fn)
        comp = getattr(par, '_parent', None)
        if isinstance(comp, ast.SetComp):
            return 'ok' if pure_expr(comp.elt) and all(pure_expr(i) for i in par.ifs) else 'unknown'
        if isinstance(comp, (ast.GeneratorExp, ast.ListComp, ast.DictComp)):
            elts = [comp.key, comp.value] if isinstance(comp, ast.DictComp) else [comp.elt]
            if not all(pure_expr(e) for e in elts) or not all(pure_expr(i) for i in par.ifs):
                return 'unknown'
            return consumer_class(comp, fn, depth)
        return 'unknown'
    if isinstance(par, ast.BoolOp):
        return 'ok' if isinstance(getattr(par, '_parent', None), (ast.If, ast.While, ast.IfExp, ast.UnaryOp, ast.BoolOp)) else 'unknown'
    return consumer_class(use, fn, depth)


def keys_of(e, table):
    """table.keys() / set(table) / set(table.keys()): spellings of the key set of the dict named `table`"""
    if isinstance(e, ast.Call) and isinstance(e.func, ast.Attribute) and e.func.attr == 'keys' and not e.args:
        return isinstance(e.func.value, ast.Name) and e.func.value.id == table
    if isinstance(e, ast.Call) and isinstance(e.func, ast.Name) and e.func.id in ('set', 'frozenset') and len(e.args) == 1:
        return keys_of(e.args[0], table) or (isinstance(e.args[0], ast.Name) and e.args[0].id == table)
    return False


def within_keys(it, table):
    """does the iterable only yield keys of the dict named `table` (its key set, or an intersection with it)?"""
    if isinstance(it, ast.BinOp) and isinstance(it.op, ast.BitAnd):
        return keys_of(it.left, table) or keys_of(it.right, table) or within_keys(it.left, table) or within_keys(it.right, table)
    if isinstance(it, ast.Call) and isinstance(it.func, ast.Attribute) and it.func.attr == 'intersection' and len(it.args) == 1:
        return keys_of(it.func.value, table) or keys_of(it.args[0], table)
    return keys_of(it, table)


def _guarded_existing_key(stmt, loop, key, table):
    """Is `table[key] = ...` reached only when `key in table` holds (an enclosing `if key in table [and ...]` or an earlier
    `if key not in table [or ...]: continue` of the same iteration)?"""
    def is_member(t, positive):
        return isinstance(t, ast.Compare) and len(t.ops) == 1 and isinstance(t.ops[0], ast.In if positive else ast.NotIn) \
            and isinstance(t.left, ast.Name) and t.left.id == key and isinstance(t.comparators[0], ast.Name) and t.comparators[0].id == table

    def conjuncts(t):
        return t.values if isinstance(t, ast.BoolOp) and isinstance(t.op, ast.And) else [t]

    def disjuncts(t):
        return t.values if isinstance(t, ast.BoolOp) and isinstance(t.op, ast.Or) else [t]
    if isinstance(loop.target, ast.Name) and loop.target.id == key and within_keys(loop.iter, table):
        return True                     # the loop runs over (a subset of) the keys of the table
    cur, child = getattr(stmt, '_parent', None), stmt
    while cur is not None:
        if isinstance(cur, ast.If) and any(child is s for s in cur.body) and any(is_member(c, True) for c in conjuncts(cur.test)):
            return True
        body = cur.body if cur is loop else (cur.body if isinstance(cur, ast.If) and any(child is s for s in cur.body) else
                                              (cur.orelse if isinstance(cur, ast.If) else []))
        for s in body:
            if s is child:
                break
            if isinstance(s, ast.If) and not s.orelse and len(s.body) == 1 and isinstance(s.body[0], ast.Continue) \
                    and any(is_member(d, False) for d in disjuncts(s.test)):
                return True
        if cur is loop:
            return False
        cur, child = getattr(cur, '_parent', None), cur
    return False


def loop_body_class(loop, fn):
    """`for <target> in <set-ordered iterable>`: does the outcome of the loop depend on the order of the iteration?
    'ok': every statement commutes between iterations (flags set to constants, counters, set.add, stores under the loop variable
    into keys that already exist, temporaries); 'bad': elements are appended / emitted / returned in iteration order; else
    'unknown'."""
    loopvars = {n.id for n in ast.walk(loop.target) if isinstance(n, ast.Name)}
    exits = any(isinstance(n, (ast.Break, ast.Return)) for n in walk_no_nested(loop))
    verdict = ['ok']

    def worse(v):
        if v == 'bad' or (v == 'unknown' and verdict[0] == 'ok'):
            verdict[0] = v

    def temp(name):
        """a name whose every load sits inside the loop, after its first store there"""
        inside = {id(n) for n in ast.walk(loop)}
        loads = [n for n in _name_loads(fn, name)] if fn is not None else []
        if any(id(n) not in inside for n in loads):
            return False
        stores = [n for n in ast.walk(loop) if isinstance(n, ast.Name) and n.id == name and isinstance(n.ctx, ast.Store)]
        first = min((n.lineno, n.col_offset) for n in stores) if stores else None
        return first is not None and all((n.lineno, n.col_offset) > first or n.lineno > first[0] for n in loads)

    def stmt(s):
        if isinstance(s, (ast.Pass, ast.Continue, ast.Break)):
            return
        if isinstance(s, ast.If):
            if not pure_expr(s.test):
                worse('unknown')
            for b in s.body + s.orelse:
                stmt(b)
            return
        if isinstance(s, ast.Return):
            worse('ok' if s.value is None or isinstance(s.value, ast.Constant) else 'bad')
            return
        if isinstance(s, ast.Assign) and len(s.targets) == 1:
            t = s.targets[0]
            if not pure_expr(s.value):
                worse('unknown')
            elif isinstance(t, ast.Name):
                if isinstance(s.value, ast.Constant) or temp(t.id):
                    return
                worse('unknown')
            elif isinstance(t, ast.Subscript) and isinstance(t.value, ast.Name) and isinstance(t.slice, ast.Name) and t.slice.id in loopvars \
                    and not exits and _guarded_existing_key(s, loop, t.slice.id, t.value.id):
                # reads of the table inside the value: only the very entry that is written
                for n in ast.walk(s.value):
                    if isinstance(n, ast.Name) and n.id == t.value.id:
                        pp = getattr(n, '_parent', None)
                        if not (isinstance(pp, ast.Subscript) and pp.value is n and isinstance(pp.slice, ast.Name) and pp.slice.id == t.slice.id):
                            worse('unknown')
            else:
                worse('unknown')
            return
        if isinstance(s, ast.AugAssign) and isinstance(s.target, ast.Name) and isinstance(s.op, (ast.Add, ast.Sub, ast.BitOr, ast.BitAnd)) \
                and isinstance(s.value, ast.Constant) and isinstance(s.value.value, int) and not exits:
            return
        if isinstance(s, ast.Expr) and isinstance(s.value, ast.Call):
            f = s.value.func
            if isinstance(f, ast.Attribute) and f.attr in ('add', 'discard') and all(pure_expr(a) for a in s.value.args) and not exits:
                return
            if isinstance(f, ast.Attribute) and f.attr in LOG_METHODS and isinstance(f.value, ast.Name) and f.value.id in LOG_RECEIVERS \
                    and all(pure_expr(a) for a in s.value.args):
                return
            if isinstance(f, ast.Attribute) and f.attr in ORDERED_SINKS:
                worse('bad')
                return
            if isinstance(f, ast.Name) and f.id == 'print':
                worse('bad')
                return
            worse('unknown')
            return
        if isinstance(s, ast.Expr) and isinstance(s.value, (ast.Yield, ast.YieldFrom)):
            worse('bad')
            return
        worse('unknown')
    for s in loop.body + loop.orelse:
        stmt(s)
    return verdict[0]


def set_iteration_class(node, fn):
    """Classify one site at which a set-kinded value `node` is iterated / materialised."""
    par = getattr(node, '_parent', None)
    if isinstance(par, ast.For) and par.iter is node:
        return loop_body_class(par, fn)
    if isinstance(par, ast.comprehension) and par.iter is node:
        comp = getattr(par, '_parent', None)
        if comp is None or len(comp.generators) != 1:
            return 'unknown'
        elts = [comp.key, comp.value] if isinstance(comp, ast.DictComp) else [comp.elt]
        pure = all(pure_expr(e) for e in elts) and all(pure_expr(i) for i in par.ifs)
        c = 'ok' if isinstance(comp, ast.SetComp) else consumer_class(comp, fn)
        if c == 'bad':
            return 'bad'
        return c if pure else 'unknown'
    if isinstance(par, ast.Call) and isinstance(par.func, ast.Name) and par.func.id in ('list', 'tuple', 'iter') and node in par.args:
        c = consumer_class(par, fn)
        return c
    return 'bad'


def order_use_class(node, fn):
    """How the order of a sequence whose order is not defined (a directory listing) is used: 'ok' / 'bad' / 'unknown'."""
    par = getattr(node, '_parent', None)
    if (isinstance(par, (ast.For, ast.comprehension)) and par.iter is node) or \
            (isinstance(par, ast.Call) and isinstance(par.func, ast.Name) and par.func.id in ('list', 'tuple', 'iter') and node in par.args):
        return set_iteration_class(node, fn)
    return consumer_class(node, fn)


def memo_purity(fn, module_tree=None, depth=0):
    """Is it safe to memoise this function across calls?  'pure': the result is a function of the (hashable) arguments alone -
    arithmetic, comparisons, builtins, lookups in module-level tables (writes to those are R16.1's business), calls of functions
    that are pure in the same sense; 'impure': it reads files / the environment / attributes of its arguments (objects that can
    change while their hash stays the same); else 'unknown'."""
    params = {a.arg for a in fn.args.posonlyargs + fn.args.args + fn.args.kwonlyargs}
    out = 'pure'
    in_decorators = {id(x) for dec in fn.decorator_list for x in ast.walk(dec)} | {id(x) for x in ast.walk(fn.args)}
    for n in walk_no_nested(fn):
        if n is fn or id(n) in in_decorators:
            continue
        if isinstance(n, (ast.Global, ast.Nonlocal, ast.Yield, ast.YieldFrom)):
            return 'impure'
        if isinstance(n, (ast.FunctionDef, ast.Lambda, ast.ClassDef, ast.With)) and n is not fn:
            out = 'unknown'
        if isinstance(n, ast.Attribute) and isinstance(n.value, ast.Name) and n.value.id in params and isinstance(n.ctx, ast.Load):
            call = getattr(n, '_parent', None)
            if not (isinstance(call, ast.Call) and call.func is n and n.attr in PURE_METHODS | {'bit_length', 'to_bytes', 'encode', 'decode'}):
                return 'impure'
        if isinstance(n, ast.Call):
            d = dotted(n.func)
            if d in ('os.path.join', 'os.path.basename', 'os.path.dirname', 'os.path.normpath', 'os.path.splitext', 'os.path.split', 'os.path.isabs'):
                continue                        # text operations on paths
            if d in ('open', 'input', 'print') or (d and d.split('.')[0] in ('os', 'sys', 'time', 'random', 'io', 'glob', 'socket')) \
                    or d in AMBIENT_CALLS or d in UNSORTED_LISTING:
                return 'impure'
            if isinstance(n.func, ast.Name) and n.func.id in PURE_BUILTINS | REDUCERS | {'range', 'pow', 'bin', 'oct', 'bytes', 'list', 'dict', 'c_int32', 'c_uint32'}:
                continue
            if isinstance(n.func, ast.Attribute) and n.func.attr in PURE_METHODS | {'bit_length', 'to_bytes', 'encode', 'decode', 'from_bytes'}:
                continue
            callee = None
            if isinstance(n.func, ast.Name) and module_tree is not None:
                callee = next((st for st in module_tree.body if isinstance(st, ast.FunctionDef) and st.name == n.func.id), None)
            if callee is not None and callee is not fn and depth < 3:
                sub = memo_purity(callee, module_tree, depth + 1)
                if sub == 'impure':
                    return 'impure'
                if sub == 'unknown':
                    out = 'unknown'
                continue
            out = 'unknown'
    return out


def default_use_class(fn, name, module_tree=None, depth=0, seen=None):
    """How a function uses the parameter `name` (whose default is a mutable object shared between calls): 'bad' when the object is
    changed, 'ok' when it is only read (tested, iterated, copied, looked into), 'unknown' when it escapes."""
    seen = seen if seen is not None else set()
    if (id(fn), name) in seen or depth > 3:
        return 'ok'
    seen.add((id(fn), name))
    out = 'ok'
    # the analysis is flow-insensitive: once the name is bound again (`dirs = list(dirs)`) a later change may hit the new object
    rebound = any(isinstance(n, ast.Name) and n.id == name and isinstance(n.ctx, ast.Store) and not isinstance(getattr(n, '_parent', None), ast.AugAssign)
                  for n in walk_no_nested(fn))
    if rebound:
        return 'unknown'
    for n in walk_no_nested(fn):
        if isinstance(n, ast.AugAssign) and isinstance(n.target, ast.Name) and n.target.id == name:
            return 'bad'
        if not (isinstance(n, ast.Name) and n.id == name and isinstance(n.ctx, ast.Load)):
            continue
        par = getattr(n, '_parent', None)
        if isinstance(par, ast.Subscript) and par.value is n:
            if isinstance(par.ctx, (ast.Store, ast.Del)):
                return 'bad'
            continue
        if isinstance(par, ast.Attribute) and par.value is n:
            call = getattr(par, '_parent', None)
            if isinstance(call, ast.Call) and call.func is par and par.attr in MUTATORS:
                return 'bad'
            if isinstance(call, ast.Call) and call.func is par and par.attr in PURE_METHODS:
                continue
            out = 'unknown'
            continue
        if isinstance(par, (ast.BoolOp, ast.Compare, ast.UnaryOp, ast.If, ast.While, ast.IfExp)) and not (isinstance(par, ast.IfExp) and par.test is not n):
            if isinstance(par, ast.BoolOp):
                # `name or []`: the default object itself may be the value of the expression; follow one step
                gp = getattr(par, '_parent', None)
                if isinstance(gp, ast.Call) and isinstance(gp.func, (ast.Name, ast.Attribute)) and (dotted(gp.func) or '') in (
                        'copy.deepcopy', 'copy.copy', 'list', 'tuple', 'dict', 'set', 'sorted', 'len', 'frozenset'):
                    continue
                if isinstance(gp, (ast.If, ast.While, ast.For, ast.comprehension)):
                    continue
                out = 'unknown'
            continue
        if isinstance(par, (ast.For, ast.comprehension)) and par.iter is n:
            continue
        if isinstance(par, ast.Starred):
            continue
        if isinstance(par, ast.Call) and n in par.args:
            d = dotted(par.func) or ''
            if d in ('copy.deepcopy', 'copy.copy', 'list', 'tuple', 'dict', 'set', 'sorted', 'len', 'frozenset', 'any', 'all', 'sum', 'isinstance', 'enumerate', 'iter'):
                continue
            if d in ('ChainMap', 'collections.ChainMap') and par.args.index(n) > 0:
                continue                  # a fall-back map: looked into, never written through
            callee = next((st for st in module_tree.body if isinstance(st, ast.FunctionDef) and st.name == d), None) if module_tree is not None else None
            if callee is not None:
                cparams = [a.arg for a in callee.args.posonlyargs + callee.args.args]
                i = par.args.index(n)
                if i < len(cparams) and not any(isinstance(a, ast.Starred) for a in par.args[:i + 1]):
                    sub = default_use_class(callee, cparams[i], module_tree, depth + 1, seen)
                    if sub == 'bad':
                        return 'bad'
                    if sub == 'unknown':
                        out = 'unknown'
                    continue
            out = 'unknown'
            continue
        if isinstance(par, ast.keyword) and isinstance(getattr(par, '_parent', None), ast.Call):
            call = par._parent
            d = dotted(call.func) or ''
            callee = next((st for st in module_tree.body if isinstance(st, ast.FunctionDef) and st.name == d), None) if module_tree is not None else None
            if callee is not None and par.arg in [a.arg for a in callee.args.posonlyargs + callee.args.args + callee.args.kwonlyargs]:
                sub = default_use_class(callee, par.arg, module_tree, depth + 1, seen)
                if sub == 'bad':
                    return 'bad'
                if sub == 'unknown':
                    out = 'unknown'
                continue
            out = 'unknown'
            continue
        out = 'unknown'
    return out


LOG_RECEIVERS = {'log', 'logging', 'logger', 'LOG', 'LOGGER'}
LOG_METHODS = {'debug', 'info', 'warning', 'error', 'exception', 'critical', 'log'}


def only_logged(node, fn, depth=0):
    """Does the value of the expression `node` flow only into log messages (directly or through locals that are only logged)?"""
    cur = node
    while True:
        par = getattr(cur, '_parent', None)
        if par is None or depth > 3:
            return False
        if isinstance(par, ast.Call) and isinstance(par.func, ast.Attribute) and par.func.attr in LOG_METHODS \
                and isinstance(par.func.value, ast.Name) and par.func.value.id in LOG_RECEIVERS and isinstance(getattr(par, '_parent', None), ast.Expr):
            return True
        if isinstance(par, (ast.BinOp, ast.UnaryOp, ast.JoinedStr, ast.FormattedValue, ast.Tuple)):
            cur = par
            continue
        if isinstance(par, ast.Call) and (cur in par.args or any(k.value is cur for k in par.keywords)) and (
                (isinstance(par.func, ast.Name) and par.func.id in ('str', 'int', 'float', 'round', 'repr', 'format', 'abs')) or
                (isinstance(par.func, ast.Attribute) and par.func.attr == 'format')):
            cur = par
            continue
        if isinstance(par, ast.keyword):
            cur = par
            continue
        if isinstance(par, ast.Assign) and len(par.targets) == 1 and isinstance(par.targets[0], ast.Name) and par.value is cur:
            name = par.targets[0].id
            if name in local_names(fn)[1]:
                return False
            loads = [n for n in ast.walk(fn) if isinstance(n, ast.Name) and n.id == name and isinstance(n.ctx, ast.Load)]
            return all(only_logged(n, fn, depth + 1) for n in loads)
        return False


def enclosing_locals(fn):
    """Local names of the functions a nested function is defined in (its closure variables are not module state)."""
    out = set()
    cur = getattr(fn, '_parent', None)
    while cur is not None:
        if isinstance(cur, ast.FunctionDef):
            out |= local_names(cur)[0]
        cur = getattr(cur, '_parent', None)
    return out


def check_function(qual, fn, mutables, module_sets, emit, is_entry_like=False, module_tree=None, undecided=None):
    """emit(rule, node, message) reports a violation; undecided(rule, node, message) a construct the rule does not see through"""
    undecided = undecided or (lambda rule, node, msg: None)
    locs, glob = local_names(fn)
    outer = enclosing_locals(fn)
    for n in walk_no_nested(fn):
        if isinstance(n, ast.Global):
            emit('R16.1.module-state', n, 'function declares module names global: {}'.format(', '.join(n.names)))
    # aliases of module-level mutables
    alias = {}
    for n in walk_no_nested(fn):
        if isinstance(n, ast.Assign) and isinstance(n.value, ast.Name) and n.value.id in mutables and n.value.id not in locs:
            for t in n.targets:
                if isinstance(t, ast.Name):
                    alias[t.id] = n.value.id

    def module_obj(node):
        if isinstance(node, ast.Name):
            if node.id in alias:
                return alias[node.id]
            if node.id in mutables and node.id not in locs:
                return node.id
        return None
    for n in walk_no_nested(fn):
        tgts = []
        if isinstance(n, ast.Assign):
            tgts = n.targets
        elif isinstance(n, (ast.AugAssign, ast.AnnAssign)):
            tgts = [n.target]
        elif isinstance(n, ast.Delete):
            tgts = n.targets
        for t in tgts:
            for sub in ast.walk(t):
                if isinstance(sub, (ast.Subscript, ast.Attribute)) and isinstance(sub.ctx, (ast.Store, ast.Del)):
                    m = module_obj(sub.value)
                    if m:
                        emit('R16.1.module-state', n, 'writes into the module-level object {} at call time'.format(m))
                if isinstance(sub, ast.Attribute) and isinstance(sub.ctx, ast.Store) and isinstance(sub.value, ast.Name) \
                        and sub.value.id not in locs and sub.value.id not in outer and sub.value.id not in mutables and sub.value.id not in ('self', 'cls'):
                    emit('R16.2.function-state', n, 'stores state on the module-level object {} (function attribute / memo)'.format(sub.value.id))
        if isinstance(n, ast.Call) and isinstance(n.func, ast.Attribute) and n.func.attr in MUTATORS:
            m = module_obj(n.func.value)
            if m:
                emit('R16.1.module-state', n, 'mutates the module-level object {} with .{}() at call time'.format(m, n.func.attr))
        if isinstance(n, ast.Call) and dotted(n.func) in ('ChainMap', 'collections.ChainMap') and n.args:
            m = module_obj(n.args[0])
            if m:
                emit('R16.1.module-state', n, 'ChainMap puts the module-level {} in the writable first position'.format(m))
        if isinstance(n, ast.Call) and isinstance(n.func, ast.Name) and module_tree is not None and n.func.id not in locs:
            # a module-level object handed to a repository function: does that function change its parameter?
            callee = next((st for st in module_tree.body if isinstance(st, ast.FunctionDef) and st.name == n.func.id), None)
            if callee is not None:
                cpos = [a.arg for a in callee.args.posonlyargs + callee.args.args]
                ckw = cpos + [a.arg for a in callee.args.kwonlyargs]
                handed = [(cpos[i], a) for i, a in enumerate(n.args) if i < len(cpos) and not any(isinstance(x, ast.Starred) for x in n.args[:i + 1])]
                handed += [(k.arg, k.value) for k in n.keywords if k.arg in ckw]
                for pname, a in handed:
                    m = module_obj(a)
                    if m and mutables.get(m) != 'class':
                        use = default_use_class(callee, pname, module_tree)
                        if use == 'bad':
                            emit('R16.1.module-state', n, '{}() changes its parameter `{}`, which is the module-level object {} here'.format(callee.name, pname, m))
                        elif use == 'unknown':
                            undecided('R16.1.module-state', n, 'the module-level object {} is handed to {}(); whether it is changed there is not followed'.format(m, callee.name))
    # defaults
    pos = fn.args.posonlyargs + fn.args.args
    with_defaults = list(zip(pos[len(pos) - len(fn.args.defaults):], fn.args.defaults)) + \
        [(a, k) for a, k in zip(fn.args.kwonlyargs, fn.args.kw_defaults) if k is not None]
    for a, d in with_defaults:
        if isinstance(d, (ast.List, ast.Dict, ast.Set, ast.ListComp, ast.DictComp, ast.SetComp)) or \
                (isinstance(d, ast.Call) and dotted(d.func) in ('list', 'dict', 'set', 'bytearray', 'collections.defaultdict', 'defaultdict')):
            use = default_use_class(fn, a.arg, module_tree)
            if use == 'bad':
                emit('R16.2.mutable-default', d, 'mutable default argument {} is shared between calls and changed by them'.format(unparse(d)))
            elif use == 'unknown':
                undecided('R16.2.mutable-default', d, 'mutable default argument {}={}: the object leaves the function in a way that is not followed'.format(a.arg, unparse(d)))
    for dec in fn.decorator_list:
        name = dotted(dec.func) if isinstance(dec, ast.Call) else dotted(dec)
        if name and name.split('.')[-1] in ('lru_cache', 'cache', 'cached_property', 'memoize'):
            kind = memo_purity(fn, module_tree)
            if kind == 'impure':
                emit('R16.2.function-state', dec, 'function results are memoised across calls ({}) although they depend on more than the arguments'.format(name))
            elif kind == 'unknown':
                undecided('R16.2.function-state', dec, 'function results are memoised across calls ({}); whether they depend on the arguments alone is not established'.format(name))
    # set iteration
    def set_iter(node, what, always_bad=False):
        if set_kinded(node, fn, module_sets):
            kind = 'bad' if always_bad else set_iteration_class(node, fn)
            if kind == 'bad':
                emit('R16.4.hash-order', node, '{} a set ({}): order depends on the interpreter\'s hash seed'.format(what, unparse(node)[:60]))
            elif kind == 'unknown':
                undecided('R16.4.hash-order', node, '{} a set ({}); whether the order of the elements matters there is not established'.format(what, unparse(node)[:60]))
    for n in walk_no_nested(fn):
        if isinstance(n, ast.For):
            set_iter(n.iter, 'iterates over')
        if isinstance(n, (ast.ListComp, ast.GeneratorExp, ast.DictComp)):
            for g in n.generators:
                set_iter(g.iter, 'iterates over')
        if isinstance(n, ast.Call) and dotted(n.func) in ('list', 'tuple', 'iter') and n.args:
            set_iter(n.args[0], 'materialises')
        if isinstance(n, ast.Call) and dotted(n.func) in ('next', 'enumerate', 'zip') and n.args:
            set_iter(n.args[0], 'materialises', always_bad=True)
        if isinstance(n, ast.Call) and dotted(n.func) in ('dict', 'collections.OrderedDict', 'OrderedDict') and n.args:
            # dict(<set of pairs>): for a key that occurs twice the pair iterated last wins
            set_iter(n.args[0], 'builds a dict from', always_bad=True)
        if isinstance(n, ast.Call) and isinstance(n.func, ast.Attribute) and n.func.attr == 'join' and n.args:
            if not only_logged(n, fn):
                set_iter(n.args[0], 'joins', always_bad=True)
        if isinstance(n, ast.Call) and isinstance(n.func, ast.Attribute) and n.func.attr == 'pop' and not n.args:
            set_iter(n.func.value, 'pops from', always_bad=True)
        if isinstance(n, ast.Starred):
            set_iter(n.value, 'unpacks', always_bad=True)
    # ambient inputs
    for n in walk_no_nested(fn):
        if isinstance(n, ast.Call):
            d = dotted(n.func)
            if d in AMBIENT_CALLS or (d and d.startswith('random.')):
                if not only_logged(n, fn):
                    emit('R16.5.ambient', n, 'result depends on an ambient input: {}()'.format(d))
            if d in UNSORTED_LISTING:
                use = order_use_class(n, fn)
                if use == 'bad':
                    emit('R16.5.ambient', n, 'directory listing order is not defined: {}() without sorted()'.format(d))
                elif use == 'unknown':
                    undecided('R16.5.ambient', n, 'directory listing order is not defined ({}()); whether the order matters where the listing goes is not established'.format(d))
            if d == 'os.getcwd':
                emit('R16.5.cwd', n, 'consults the process working directory')
            if d == 'eval' or d == 'exec':
                g = n.args[1] if len(n.args) > 1 else next((k.value for k in n.keywords if k.arg == 'globals'), None)
                pinned = pinned_globals(g, fn, module_tree)
                if pinned is False:
                    emit('R16.6.eval-sandbox', n, 'eval() globals are not a dict that pins __builtins__: user expressions can reach interpreter state')
                elif pinned is None:
                    undecided('R16.6.eval-sandbox', n, 'the globals of {} are not followed to a dict display'.format(unparse(n)[:60]))
        if isinstance(n, ast.Attribute) and dotted(n) == 'os.environ':
            emit('R16.5.ambient', n, 'reads the process environment')
