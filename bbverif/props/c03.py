"""C03 - branches, jumps, call and tail land on their label; the label table is exact."""
import ast
import re

from ..core import Report, Finding, AnalysisError
from ..facts import Facts
from ..astutil import unparse
from .. import layoutrules as LR, labelrules as LB, immsites as IS, encprops
from ..wiring import parse_item_outcomes
from ..pathwalk import show, is_const

LEVEL = 'other'

PC_RELATIVE = ['beq', 'bne', 'blt', 'bge', 'bltu', 'bgeu', 'jal', 'c.j', 'c.jal', 'c.beqz', 'c.bnez', 'auipc', 'jalr']


def check_target_wrapping(rep, facts, rule):
    """A branch / jump operand that is not an integer literal is wrapped in %offset by the parser."""
    arms, _ = parse_item_outcomes(facts)
    n = 0
    # the test that tells an integer literal from a label name: is_int, or a helper that only hands its argument on to it
    literal_tests = {'is_int'}
    grew = True
    while grew:
        grew = False
        for fname, f in facts.funcs.items():
            body = [s_ for s_ in f.body if not (isinstance(s_, ast.Expr) and isinstance(s_.value, ast.Constant))]
            if fname not in literal_tests and len(body) == 1 and isinstance(body[0], ast.Return) and isinstance(body[0].value, ast.Call) \
                    and isinstance(body[0].value.func, ast.Name) and body[0].value.func.id in literal_tests and len(f.args.args) == 1 \
                    and len(body[0].value.args) == 1 and isinstance(body[0].value.args[0], ast.Name) and body[0].value.args[0].id == f.args.args[0].arg:
                literal_tests.add(fname)
                grew = True
    def literal_outcome(c):
        """True / False: the path condition says the operand is / is not an integer literal; None: the condition is something else."""
        node, pol = (c[2] if len(c) > 2 else None), c[1]
        while isinstance(node, ast.UnaryOp) and isinstance(node.op, ast.Not):
            node, pol = node.operand, not pol
        if isinstance(node, ast.Call) and isinstance(node.func, ast.Name) and node.func.id in literal_tests:
            return bool(pol)
        if not isinstance(node, ast.AST) and any(re.search(r'\b' + re.escape(t) + r'\(', str(c[0])) for t in literal_tests):
            text, pol = str(c[0]).strip(), c[1]
            while text.startswith('not '):
                text, pol = text[4:].strip(), not pol
            return bool(pol)
        return None
    for key, test, outcomes in arms:
        if key not in (('table', 'B_TYPE_INSTRUCTIONS'), ('table', 'J_TYPE_INSTRUCTIONS')):
            continue
        for o in outcomes:
            if o.kind != 'return' or o.cls == 'PseudoInstruction':
                continue
            params = [p for p, _ in facts.init_params(o.cls)]
            imm = o.args[params.index('imm')] if 'imm' in params and params.index('imm') < len(o.args) else None
            is_int_path = any(literal_outcome(c) is True for c in o.path.conds)
            label_path = any(literal_outcome(c) is False for c in o.path.conds)
            if label_path:
                n += 1
                ok = imm is not None and imm[0] == 'imm' and imm[1][0] == 'list' and len(imm[1][1]) == 2 \
                    and imm[1][1][0] == ('const', '%offset') and imm[1][1][1][0] == 'tok'
                # the expression node built directly: Offset(tok) is what parse_immediate(['%offset', tok]) returns
                ok = ok or (imm is not None and imm[0] == 'call' and imm[1] == 'Offset' and len(imm[2]) == 1 and not imm[3] and imm[2][0][0] == 'tok')
                plain = imm is not None and ((imm[0] == 'imm' and imm[1][0] in ('list', 'rest', 'tok')) or (imm[0] == 'call' and imm[1] == 'Arithmetic')
                                             or imm[0] in ('tok', 'lower', 'const'))
                if not ok and not plain:
                    raise AnalysisError('parse_item: how the target operand of {} is built on the label path is not understood: {}'.format(o.cls, imm))
                rep.check(ok, rule, '{}: label operand parsed as %offset(label)'.format(o.cls),
                          lambda o=o: Finding(rule, 'parse_item', o.node, 'a branch/jump target that is not an integer is not wrapped in %offset', line=o.node.lineno))
            elif not is_int_path:
                wrapped = imm is not None and imm[0] == 'imm' and imm[1][0] == 'list' and len(imm[1][1]) == 2 and imm[1][1][0] == ('const', '%offset')
                if wrapped:
                    continue        # always wrapped: every operand is taken as a label
                helper_test = lambda node: any(isinstance(x, ast.Call) and isinstance(x.func, ast.Name) and x.func.id in facts.funcs and x.func.id not in literal_tests
                                               for x in ast.walk(node)) if isinstance(node, ast.AST) else False
                if any(helper_test(c[2]) for c in o.path.conds if len(c) > 2):
                    # the path goes through a test that is not recognised as the literal / label classification
                    raise AnalysisError('parse_item: how the branch / jump operand at line {} is classified into literal offset vs. label is not understood'.format(o.node.lineno))
                rep.fail(Finding(rule, 'parse_item', o.node, 'branch/jump operand is not classified into literal offset vs. label', line=o.node.lineno))
    rep.count('label-target parse paths', n)
    # pseudo pass: every B/J construction takes %offset of one of the pseudo's operands (or Hi/Lo of it in the far form)
    pa = LR.pass_analysis(facts, 'transform_pseudo_instructions')
    m = 0
    for r in pa.rows:
        for val, node in r['app_values']:
            if val[0] == 'new' and val[1] in ('BTypeInstruction', 'JTypeInstruction'):
                f = IS.ctor_fields(facts, val)
                imm = f.get('imm')
                m += 1
                # %offset(operand): parse_immediate(['%offset', x], ..) (list or tuple) or Offset(x) built directly
                parsed = imm is not None and imm[0] == 'call' and imm[1] == 'parse_immediate' and imm[2] and imm[2][0][0] in ('list', 'tuple') and imm[2][0][1]
                ok = bool(parsed and imm[2][0][1][0] == ('const', '%offset')) or bool(imm is not None and imm[0] == 'new' and imm[1] == 'Offset')
                if not ok and not parsed and not (imm is not None and imm[0] == 'new' and imm[1] in facts.classes) and not (imm is not None and is_const(imm)):
                    # built through something that is not followed: no verdict
                    raise AnalysisError('transform_pseudo_instructions: the target operand of the {} expansion ({}) is not followed back to a %offset expression'.format(
                        show(f.get('name')), show(imm)[:60] if imm is not None else 'none'))
                rep.check(ok, rule, 'pseudo expansion {}: target = %offset(operand)'.format(show(f.get('name'))),
                          lambda node=node, imm=imm: Finding(rule, 'transform_pseudo_instructions', node,
                                                             'a pc-relative expansion does not take %offset of its target operand: {}'.format(show(imm)), line=node.lineno),
                          nontrivial=False)
    rep.count('pc-relative pseudo expansions', m)


def run(repo, tier):
    facts = Facts(repo.asm)
    rep = Report('C03', LEVEL,
                 'Inductive layout invariant: after resolve_labels every label equals the prefix sum of size() (L1); each later pass '
                 'preserves it on every path of one loop iteration: bytes in = bytes out + shift applied to exactly the labels after the '
                 'item start (L2); nothing after resolve_aligns changes a size or a label (L3); final values are evaluated from the '
                 'item\'s own final offset, %offset = label - position (L4); passes never rebind the caller\'s label dict (L5).  Target '
                 'rules: non-literal targets are wrapped in %offset; a %lo(e) consumer is either guarded to 12 bits or paired with %hi(e) '
                 '(R-lo-width); the auipc/jalr pair is evaluated relative to the auipc at every site (R-auipc); bit layout of the '
                 'pc-relative immediates equals the ISA (C01/C02 summaries).')
    rep.trusted_base = ['CPython ast', 'bbverif.pathwalk / layout size algebra', 'bbverif.bitdom encoder summaries', 'ISA oracle tables']
    rep.not_decided = ['whether a near/far or li size decision taken on pessimistic label offsets is still the right one after labels moved '
                       '(value-dependent; always a safe choice for pure %offset targets because L2 only shrinks distances; a compressed form '
                       'without immediate chosen on such a value is decided by R3.final-immediate)']
    # every rule is attempted: a no-verdict in one of them is deferred, so it cannot mask a violation another one establishes
    rep.attempt(LB.check_L1, rep, facts, 'L1.establish')
    movers = rep.attempt(LB.label_writing_passes, facts)        # passes ordered before the first one that bakes label values into items
    for compress in (False, True):
        steps = rep.attempt(LR.class_flow, facts, compress) or []
        for name, node, inc, out in steps:
            def conserve(name=name, inc=inc):
                pa = LR.pass_analysis(facts, name, frozenset(inc))
                LR.check_conservation(rep, pa, 'L2', movers is None or name in movers)
            rep.attempt(conserve)
    for fname in ('transform_compressible', 'transform_pseudo_instructions', 'resolve_aligns'):
        rep.attempt(LB.position_starts_at_zero, rep, facts, fname, 'L2.position')
    rep.attempt(LB.check_L4, rep, facts, 'L4')
    rep.attempt(LB.check_L5, rep, facts, 'L5.identity')
    rep.attempt(LB.check_bake_after_mut, rep, facts, 'L3.order')
    rep.attempt(check_target_wrapping, rep, facts, 'R3.target')
    rep.attempt(IS.check_lo_pairing, rep, facts, 'R3.lo-width', 'R3.guard-fits', 'R3.hi-lo-pair')
    rep.attempt(IS.check_auipc, rep, facts, 'R3.auipc-adjust', 'R3.auipc-sibling')
    from ..comprel import CompRel, check_final_immediates
    rep.attempt(lambda: check_final_immediates(rep, CompRel(facts), 'R3.final-immediate'))
    have = [m for m in PC_RELATIVE if m in facts.instructions()]
    rep.attempt(encprops.check_layout, rep, facts, have, 'R3.imm-layout')

    def samples():
        pa = LR.pass_analysis(facts, 'transform_compressible')
        for r in pa.rows[2:6]:
            rep.sample(LR.describe_row(r))
    rep.attempt(samples)
    rep.floor('pass paths accounted', 150)
    rep.floor('label definition sites', 1)
    rep.floor('baking evaluation sites', 1)
    rep.floor('label-target parse paths', 2)
    rep.floor('pc-relative pseudo expansions', 12)
    rep.floor('%lo constructions examined', 5)
    rep.floor('item-immediate evaluation sites', 2)
    return rep
