"""C18 - a completed DFU run leaves the device flash equal to the firmware image (host-side protocol obligations).

All rules are stated over the ctrl_transfer events of the fully inlined paths of cli_main (see dfurules), so they do not depend on
how the code is split into helpers or on variable names."""
import ast

from ..core import Report, Finding, AnalysisError
from ..facts import Facts
from ..astutil import unparse
from ..pathwalk import show, is_const, C
from ..poly import Poly
from .. import dfurules as D, oracle
from ..dfurules import PAGE, LEN, strip

LEVEL = 'other'
FILE = 'bronzebeard/dfu.py'


def F(rule, construct, stmt, msg, line=None):
    return Finding(rule, construct, stmt, msg, file=FILE, line=line if line is not None else getattr(stmt, 'lineno', None))


def check_constants(rep, facts):
    consts = facts.consts
    for group in ('requests', 'states', 'status', 'dfuse', 'usb'):
        for name, val in oracle.DFU[group].items():
            have = consts.get(name)
            rep.check(have == val, 'R18.1.constants', '{} == {}'.format(name, val),
                      lambda name=name, val=val, have=have: F('R18.1.constants', name, name, '{} is {} but the DFU / DfuSe specification says {}'.format(name, have, val),
                                                              line=facts.assign_nodes[name].lineno if name in facts.assign_nodes else 1), nontrivial=False)
    states = [consts.get(n) for n in oracle.DFU['states']]
    rep.check(len(set(states)) == len(states), 'R18.1.constants', 'state numbers pairwise distinct',
              lambda: F('R18.1.constants', 'STATE_*', 'distinct', 'two DFU states share a number', line=1))


def check_requests(rep, facts, models):
    """R18.1: every request on every path is well-formed for its kind."""
    seen = {}
    for m in models:
        for r in m.reqs:
            seen.setdefault((id(r.node), r.kind, r.bmRequestType, r.wValue, repr(r.pack[:2]) if r.pack else None,
                             D.fold_sym(r.data, facts.consts) if r.kind == 'POLL' and r.data is not None else None), r)
    kinds = {}
    for r in seen.values():
        kinds[r.kind] = kinds.get(r.kind, 0) + 1
    rep.count('request forms classified', len(seen))
    for k in ('POLL', 'CLR', 'ERASE', 'SETADDR', 'DATA'):
        rep.check(kinds.get(k, 0) >= 1, 'R18.1.kinds', 'some path sends {}'.format(k),
                  lambda k=k: F('R18.1.kinds', 'cli_main', k, 'no path of cli_main sends a {} request (request numbers / DfuSe command bytes changed?)'.format(k), line=1))
    for r in seen.values():
        k = r.kind
        node = r.node
        if k in ('OTHER', 'DNLOAD?'):
            rep.fail(F('R18.1.kinds', 'ctrl_transfer', node, 'control request {} / payload command {} is not one of GETSTATUS, CLRSTATUS, DNLOAD with erase-page / set-address / data'.format(
                r.request, r.pack[1] if r.pack else None)), instance='unknown request')
            continue
        want_rt = oracle.DFU['bmRequestType_in'] if k == 'POLL' else oracle.DFU['bmRequestType_out']
        rep.check(r.bmRequestType == want_rt, 'R18.1.request-type', '{}: bmRequestType 0x{:02x}'.format(k, want_rt),
                  lambda r=r, want_rt=want_rt, node=node, k=k: F('R18.1.request-type', k, node,
                                                                 'bmRequestType is {} but a class/interface {} request is 0x{:02x}'.format(r.bmRequestType, 'IN' if want_rt & 0x80 else 'OUT', want_rt)))
        if k == 'POLL':
            n = D.fold_sym(r.data, facts.consts) if r.data is not None else None
            rep.check(n == oracle.DFU['getstatus_len'], 'R18.1.getstatus-len', 'GETSTATUS asks for 6 bytes',
                      lambda node=node, n=n: F('R18.1.getstatus-len', 'POLL', node, 'GETSTATUS reads {} bytes; the status block is 6 bytes'.format(n)))
        if k in ('ERASE', 'SETADDR'):
            fmt = r.pack[0]
            rep.check(fmt == '<BI' and r.wValue == 0 and len(r.pack[2]) == 1, 'R18.1.dfuse-command', '{}: wValue 0, payload <BI (command byte + LE 32-bit address)'.format(k),
                      lambda node=node, fmt=fmt, r=r, k=k: F('R18.1.dfuse-command', k, node,
                                                             'DfuSe command is sent with wValue={} and payload format {!r} ({} value(s)); commands travel in block 0 as command byte + little-endian 32-bit address'.format(
                                                                 r.wValue, fmt, len(r.pack[2]))))
        if k == 'DATA':
            rep.check(r.wValue == oracle.DFU['download_wvalue'], 'R18.1.block-number', 'data download uses wValue 2 (address pointer + 0)',
                      lambda node=node, r=r: F('R18.1.block-number', 'DATA', node,
                                               'data is downloaded with wValue={}; DfuSe writes at pointer + (wValue - 2) * wLength, and 0 / 1 are reserved for commands'.format(r.wValue)))


def check_poll(rep, facts, models):
    """R18.2: after every GETSTATUS the host sleeps bwPollTimeout (bytes 1..3 of that reply, little endian, ms) before its next request."""
    seen = set()
    n = 0
    for m in models:
        evs = m.evs
        for j, (kind, idx, node, r) in enumerate(evs):
            if kind != 'REQ' or r.kind != 'POLL':
                continue
            sleep = None
            for kind2, idx2, node2, p2 in evs[j + 1:]:
                if kind2 == 'REQ':
                    break
                if kind2 == 'SLEEP':
                    sleep = (idx2, node2, p2)
                    break
            nxt = [e for e in evs[j + 1:] if e[0] == 'REQ']
            key = (id(r.node), sleep is not None, show(sleep[2])[:200] if sleep else None, bool(nxt))
            if key in seen:
                continue
            seen.add(key)
            n += 1
            if sleep is None:
                if not nxt:
                    continue       # last poll of the run: nothing follows
                rep.fail(F('R18.2.sleep', 'GETSTATUS', r.node, 'the poll delay the device asked for (bwPollTimeout) is not waited for before the next request'),
                         instance='sleep after poll')
                continue
            arg = strip(sleep[2]) if sleep[2] is not None else None
            ms = None
            if arg is not None and arg[0] == 'bin' and arg[1] == '/' and D.fold_sym(arg[3], facts.consts) in (1000, 1000.0):
                ms = arg[2]
            elif arg is not None and arg[0] == 'bin' and arg[1] == '*':
                for x, y in ((arg[2], arg[3]), (arg[3], arg[2])):
                    if is_const(y) and y[1] in (0.001, 1e-3):
                        ms = x
            rb = D.reply_bytes(ms, facts.consts) if ms is not None else None
            if rb is None or 'weights' not in rb:
                raise AnalysisError('cannot interpret the sleep after GETSTATUS as a function of the reply: {}'.format(show(arg)[:100] if arg else None))
            rep.check(rb['weights'] == {1: 1, 2: 256, 3: 65536}, 'R18.2.delay', 'slept seconds * 1000 == byte1 | byte2 << 8 | byte3 << 16',
                      lambda rb=rb, sleep=sleep, r=r: F('R18.2.delay', 'GETSTATUS', r.node,
                                                        'the sleep is not bwPollTimeout (bytes 1..3 of the reply, little endian, milliseconds): byte weights {}'.format(
                                                            {k: v for k, v in sorted(rb['weights'].items())})))
            rep.check(D.reply_uid(rb['reply']) == r.uid, 'R18.2.delay', 'the delay is taken from the reply just received',
                      lambda r=r: F('R18.2.delay', 'GETSTATUS', r.node, 'the sleep uses the poll timeout of an earlier reply'), nontrivial=False)
    rep.count('poll sites', n)


def check_typestate(rep, facts, models):
    """R18.3: no request while the previous download request has not settled: between a download-class request and the next
    request the path must carry a constraint (loop exit or branch) on the state byte of the *latest* GETSTATUS reply that is
    false when that byte is dfuDNBUSY."""
    consts = facts.consts
    busy = oracle.DFU['states']['STATE_DFU_DNBUSY']
    n_req = 0
    n_settle = 0
    loops = {}
    for m in models:
        pending = None          # Request not yet settled
        last_poll = None
        loop_first_req = {}
        for kind, idx, node, payload in m.evs:
            if kind == 'REQ':
                r = payload
                if r.kind == 'POLL':
                    last_poll = r
                    continue
                if r.kind in D.DNLOAD_KINDS or r.kind == 'CLR':
                    n_req += 1
                    if pending is not None:
                        rep.fail(F('R18.3.settle', 'cli_main', r.site,
                                   'a {} request is issued while the {} request before it (line {}) has not been polled out of dfuDNBUSY'.format(r.kind, pending.kind, pending.line)),
                                 instance='{} after {}'.format(r.kind, pending.kind))
                    else:
                        rep.ok('R18.3.settle', '{} only when the previous request has settled'.format(r.kind))
                    if r.kind != 'CLR':
                        pending = r
                        last_poll = None
            elif kind in ('COND', 'ENDWHILE', 'ENDWHILE0'):
                test, pol = payload if kind == 'COND' else (payload, False)
                if kind != 'COND':
                    loops.setdefault(id(node), [node, test, None])
                if pending is None or last_poll is None:
                    continue
                terms = D.reply_terms(test, consts)
                state_terms = [t for t, w, uid in terms if w == {4: 1} and uid == last_poll.uid]
                if not state_terms:
                    if kind != 'COND' and any(w == {4: 1} for t, w, uid in terms):
                        loops[id(node)][2] = 'stale'
                    continue
                subst = {t: busy for t in state_terms}
                val = D.eval_sym_test(test, subst, consts)
                if val is None:
                    others = [t for t, w, uid in terms if w != {4: 1}]
                    if kind != 'COND':
                        raise AnalysisError('cannot evaluate the polling-loop condition for state == dfuDNBUSY: {}'.format(show(test)[:100]))
                    continue
                if val != pol:
                    # on this path the latest state is not dfuDNBUSY
                    pending = None
                    n_settle += 1
                    if kind != 'COND':
                        loops[id(node)][2] = 'good'
                elif kind != 'COND' and loops[id(node)][2] is None:
                    loops[id(node)][2] = 'exits-busy'
            elif kind == 'ENDLOOP':
                if pending is not None and any(lp[1] is node for lp in m.loops_of.get(pending.idx, [])):
                    rep.fail(F('R18.3.settle', 'cli_main', pending.site,
                               'the loop goes round to its next request while this {} request has not been polled out of dfuDNBUSY'.format(pending.kind)),
                             instance='loop-back after {}'.format(pending.kind))
                    pending = None
    rep.analysed['requests on paths'] = n_req
    rep.count('settle points', n_settle)
    rep.count('polling loops', len(loops))
    settle_failed = any(f.rule == 'R18.3.settle' for f in rep.findings)
    for node, test, verdict in loops.values():
        if verdict == 'good':
            rep.ok('R18.3.poll-loop', 'polling loop `while {}` keeps polling while the device is busy'.format(unparse(node.test)))
        elif verdict in ('exits-busy', 'stale') and settle_failed:
            # diagnostic for the settle failure above (a loop that is not the settling loop is not a violation by itself)
            rep.fail(F('R18.3.poll-loop', 'polling loop', node.test,
                       'this loop {}'.format('stops polling although the device may still report dfuDNBUSY' if verdict == 'exits-busy' else
                                             'tests a state that the GETSTATUS inside it does not refresh'), line=node.lineno),
                     instance='poll loop {}'.format(verdict))


def check_layout(rep, facts, fn, models):
    """R18.4 - R18.8: addresses, chunks, padding, guard and the variant table, per path that sends a data download."""
    consts = facts.consts
    base = oracle.DFU['flash_base']
    seen = set()
    table = {}
    n_pad = 0
    n_paths = 0

    def once(*key):
        if key in seen:
            return False
        seen.add(key)
        return True

    for m in models:
        datas = [r for r in m.reqs if r.kind == 'DATA']
        erases = [r for r in m.reqs if r.kind == 'ERASE']
        setaddrs = [r for r in m.reqs if r.kind == 'SETADDR']
        if not datas:
            if erases and m.p.end != 'raise':
                # a path that erases but never writes and ends normally
                if once('erase-only', id(erases[0].node)):
                    rep.fail(F('R18.4.erase-first', 'cli_main', erases[0].site, 'a run can erase pages and end normally without writing them'), instance='erase-only path')
            continue
        n_paths += 1
        d = datas[0]
        shape = m.data_shape(d)
        if isinstance(shape, str):
            if once('shape', shape):
                rep.fail(F('R18.5.chunk', 'cli_main', d.site, 'the chunk written to a page is not the page-sized slice of the padded image: ' + shape), instance='chunk shape')
            continue
        fw, lo, hi, S, raw = shape
        if raw is None:
            raise AnalysisError('the buffer sliced by the data download does not lead back to a value read from the file: {}'.format(show(fw)[:80]))
        wl = m.page_loop(d)
        if wl is None:
            if m.loops_of.get(d.idx):
                raise AnalysisError('cli_main: the data download sits in a loop over {} which is not a range(..) the rules can follow'.format(
                    show(m.loops_of[d.idx][-1][2])[:80]))
            if once('noloop', id(d.node)):
                rep.fail(F('R18.4.same-range', 'cli_main', d.site, 'the data download is not inside a loop over range(pages)'), instance='write loop')
            continue
        sym_w = m.sym_for(d, raw)
        # R18.5 chunk: firmware[PAGE*S : PAGE*S + S], S free of PAGE
        ok = (not D.mentions(S, PAGE)) and not S.is_zero() and lo == Poly.sym(PAGE) * S
        if once('chunk', repr(lo), repr(hi)):
            rep.check(ok, 'R18.5.chunk', 'chunk == padded firmware[page*S : (page+1)*S]',
                      lambda d=d, lo=lo, hi=hi: F('R18.5.chunk', 'cli_main', d.site,
                                                  'the chunk written to a page is firmware[{} : {}] instead of the page-sized slice at the same offset as its address'.format(lo, hi)))
        if not ok:
            continue
        # R18.4 addresses
        for r in erases + setaddrs:
            sym = m.sym_for(r, raw)
            pl = m.page_loop(r)
            got = sym.poly(r.addr) if r.addr is not None else None
            want = Poly.const(base) + Poly.sym(PAGE) * S
            if once('addr', r.kind, repr(got), repr(want)):
                rep.check(pl is not None and got == want, 'R18.4.address', '{} address == 0x08000000 + page * S (S = size of the chunk written)'.format(r.kind),
                          lambda r=r, got=got, want=want: F('R18.4.address', 'cli_main', r.site, '{} is sent address {} instead of {}'.format(r.kind, got, want)))
        # R18.4 erase loop completes before the write loop, over the same range
        wl_idx, wl_node, wl_it, _ = wl
        er_ok = bool(erases)
        why = 'no page is erased before the write loop starts'
        for r in erases:
            el = m.page_loop(r)
            if el is None:
                er_ok, why = False, 'the erase request is not inside a loop over range(pages)'
                continue
            el_idx, el_node, el_it, _ = el
            end = m.loop_end.get(el_idx)
            if el_idx == wl_idx:
                er_ok, why = False, 'pages are erased in the same loop that writes them'
            elif end is None or end > wl_idx:
                er_ok, why = False, 'the erase loop has not completed when the write loop starts'
            elif el_it != wl_it and m.trip_count(el_it, m.sym_for(r, raw)) != m.trip_count(wl_it, sym_w):
                er_ok, why = False, 'erase loop ranges over {} but write loop over {}'.format(show(el_it), show(wl_it))
            elif r.idx > d.idx:
                er_ok, why = False, 'a page is erased after it has been written'
        if once('erase-first', er_ok, why if not er_ok else ''):
            rep.check(er_ok, 'R18.4.erase-first', 'one erase loop completes, then the write loop runs over the same range',
                      lambda d=d, why=why: F('R18.4.erase-first', 'cli_main', d.site, why))
        for r in setaddrs:
            sl = m.page_loop(r)
            if once('setaddr-loop', sl is not None and sl[0] == wl_idx):
                rep.check(sl is not None and sl[0] == wl_idx and r.idx < d.idx, 'R18.4.address', 'set-address precedes the data download in the same iteration',
                          lambda r=r: F('R18.4.address', 'cli_main', r.site, 'the address pointer is not set in the iteration that downloads the chunk'), nontrivial=False)
        if not setaddrs and once('nosetaddr'):
            rep.fail(F('R18.4.address', 'cli_main', d.site, 'the data download is not preceded by a set-address command'), instance='set-address')
        rng = wl_it
        N = m.trip_count(rng, sym_w)
        if N is None:
            raise AnalysisError('the number of iterations of {} is not a polynomial the rules can follow'.format(show(rng)[:80]))
        # R18.6 padding: len(FW) == N*S given LEN = Q*S + R from divmod, zero bytes only
        dm = [t for a in rng[2] for t in D.find_all(a, lambda t: t[0] == 'unpack' and strip(t[1])[0] == 'call' and strip(t[1])[1] == 'divmod')]
        if not dm:
            raise AnalysisError('the page count {} is not derived from divmod(len(firmware), page_size)'.format(show(rng)[:80]))
        src = dm[0][1]
        q, r_ = ('unpack', src, '0', 2), ('unpack', src, '1', 2)
        dargs = strip(src)[2]
        if len(dargs) != 2:
            raise AnalysisError('divmod call shape')
        dm_ok = sym_w.poly(dargs[0]) == Poly.sym(LEN) and sym_w.poly(dargs[1]) == S
        rep.check(dm_ok, 'R18.6.padding', 'pages, rem = divmod(len(firmware), S)',
                  lambda d=d, dargs=dargs: F('R18.6.padding', 'cli_main', 'divmod', 'the page count is derived from divmod({}, {}) instead of divmod(len(firmware), page size)'.format(
                      sym_w.poly(dargs[0]), sym_w.poly(dargs[1])), line=fn.lineno), nontrivial=False)
        rem_fact = m.p.facts.get(r_)
        r_zero = bool(rem_fact and rem_fact['eq'] is not None and rem_fact['eq'][1] == 0)
        Q, R = Poly.sym(q), Poly.sym(r_)
        total = sym_w.length(fw)
        diff = (total - N * S).subst(LEN, Q * S + R)
        if r_zero:
            diff = diff.subst(r_, Poly.const(0))
        # a padding loop that ran zero times means its count is zero: reduce modulo that relation
        for ev in m.p.events:
            if ev[0] == 'loop0':
                it = strip(ev[1])
                if it[0] == 'call' and it[1] == 'range' and len(it[2]) == 1 and it != wl_it:
                    X = sym_w.poly(it[2][0]).subst(LEN, Q * S + R)
                    if r_zero:
                        X = X.subst(r_, Poly.const(0))
                    for k in (1, -1):
                        if (diff + X * Poly.const(k)).is_zero():
                            diff = Poly()
        if once('pad', repr(diff), r_zero, show(fw)[:80]):
            n_pad += 1
            rep.check(diff.is_zero(), 'R18.6.padding', 'rem {} 0: padded length == pages * S'.format('==' if r_zero else '!='),
                      lambda diff=diff, r_zero=r_zero: F('R18.6.padding', 'cli_main', 'padding (rem {} 0)'.format('==' if r_zero else '!='),
                                                         'with len(firmware) = q*S + rem the length of the buffer the chunks are sliced from, minus pages*S, is {} (must be 0): the last page is partly written / out of range'.format(diff),
                                                         line=fn.lineno))
            rep.check(sym_w.zero_extension(fw), 'R18.6.zeros', 'the image is only ever extended by zero bytes at its end',
                      lambda: F('R18.6.zeros', 'cli_main', 'padding bytes', 'the firmware image is padded with something other than zero bytes', line=fn.lineno), nontrivial=False)
        # R18.7 guard: before the first request, LEN - CAP > 0 -> refuse, CAP = S * C
        first = min(r.idx for r in m.sends) if m.sends else d.idx
        guards = [g for g in m.capacity(sym_w, first) if g[2] is False]
        cap = None
        for idx, node, pol, g in guards:
            a, b, high = D.split_by(g, LEN)
            if not high and b == Poly.const(1):
                cap = -a
        if once('guard', repr(cap)):
            rep.check(cap is not None, 'R18.7.in-range', 'size guard len(firmware) > CAP -> refuse precedes the first request',
                      lambda d=d: F('R18.7.in-range', 'cli_main', 'size guard', 'requests can be sent without the firmware length having been checked against the flash size', line=fn.lineno))
        if cap is None:
            continue
        Cq = D.divide(cap, S)
        if once('guard-cap', repr(cap), repr(S)):
            rep.check(Cq is not None and not D.mentions(Cq, PAGE), 'R18.7.in-range', 'CAP == S * page_count (all addresses below base + CAP)',
                      lambda cap=cap, S=S: F('R18.7.in-range', 'cli_main', 'size guard', 'the size guard admits {} bytes, which is not a whole number of pages of {} bytes'.format(cap, S), line=fn.lineno))
        if Cq is None:
            continue
        # R18.8 variant table
        letter = m.gd32_letter()
        if letter is not None:
            if len(Cq.terms) <= 1 and all(k == () for k in Cq.terms) and len(S.terms) == 1 and () in S.terms:
                table[letter[0]] = (Cq.terms.get((), 0), S.terms[()], letter[1])
        else:
            for k in Cq.terms:
                for s_ in k:
                    tl = D.table_lookup(s_, consts) if isinstance(s_, tuple) else None
                    if tl is not None and Cq == Poly.sym(s_) and len(S.terms) == 1 and () in S.terms:
                        name, dct, key = tl
                        ks = strip(key)
                        if ks[0] == 'sub' and ks[2] == C(2):
                            for kk, vv in dct.items():
                                table[kk] = (vv, S.terms[()], facts.assign_nodes.get(name))
    rep.count('padding cases', n_pad)
    rep.count('flashing paths', n_paths)
    if not table and n_paths and not rep.findings:
        raise AnalysisError('cli_main: how the page count of a GD32 part follows from its serial number is not understood (no variant could be read)')
    for letter, n in oracle.DFU['gd32_pages'].items():
        have = table.get(letter)
        rep.check(have is not None and have[0] == n and have[1] == oracle.DFU['gd32_page_size'], 'R18.8.variants',
                  'GD32 serial letter {} -> {} pages of {} bytes'.format(letter, n, oracle.DFU['gd32_page_size']),
                  lambda letter=letter, n=n, have=have: F('R18.8.variants', 'cli_main', have[2] if have and have[2] is not None else 'serial number table',
                                                          'GD32 variant {!r} is flashed as {} pages of {} bytes; the part has {} pages of 1024 bytes'.format(
                                                              letter, have[0] if have else None, have[1] if have else None, n),
                                                          line=getattr(have[2], 'lineno', fn.lineno) if have else fn.lineno))


def run(repo, tier):
    facts = Facts(repo.dfu, FILE)
    rep = Report('C18', LEVEL,
                 'Host-side obligations of the DfuSe download protocol decided on the syntax tree of dfu.py.  cli_main is path-enumerated '
                 'with all helpers inlined; the events are the ctrl_transfer calls classified by their folded arguments.  Protocol constants '
                 'vs. DFU 1.1 / DfuSe; every request well-formed for its kind; after every GETSTATUS the host sleeps bwPollTimeout of that '
                 'reply; typestate over every path: no download-class request while the previous one has not been polled out of dfuDNBUSY '
                 '(a path constraint on the state byte of the latest reply that is false for dfuDNBUSY); erase loop completes before the '
                 'write loop over the same range; erase / set-address addresses normalise to 0x08000000 + page*S where S is the size of the '
                 'chunk written, and the chunk is the slice at page*S; padding identity len = q*S + r => length of the sliced buffer = '
                 'pages*S with zero bytes only; size guard with capacity S*C precedes the first request; GD32 variant table.')
    rep.trusted_base = ['CPython ast', 'bbverif.pathwalk / poly', 'DFU 1.1 and DfuSe numbers (oracle)']
    rep.not_decided = ['that the *device* ends up holding those bytes under all busy/error schedules (needs a device model and schedule exploration)',
                       'len <= S*C  =>  ceil(len/S) <= C is arithmetic, stated, not checked']
    fn, paths = D.main_paths(facts)
    rep.count('paths through cli_main', len(paths))
    models = [D.PathModel(p, facts.consts) for p in paths]
    check_constants(rep, facts)
    check_requests(rep, facts, models)
    check_poll(rep, facts, models)
    check_typestate(rep, facts, models)
    check_layout(rep, facts, fn, models)
    rep.floor('paths through cli_main', 20)
    rep.floor('request forms classified', 5)
    rep.floor('polling loops', 1)
    rep.floor('settle points', 3)
    rep.floor('padding cases', 2)
    rep.floor('requests on paths', 10)
    rep.floor('poll sites', 1)
    return rep
