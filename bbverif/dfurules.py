"""Host-side DFU protocol rules over the paths of dfu.cli_main (C18, C19).

cli_main is walked with every module-level helper and local closure inlined (pathwalk inline='all'; `sys.exit` / `parser.error`
end the path; `if t: <calls made for effect only>` does not fork it), so the protocol events are the device.ctrl_transfer(...) calls
themselves, classified by their folded arguments - however the code is factored into helpers and whatever its variables are called.
A path ends where it reads a local of cli_main that is unbound on it (page_size for a device that is not a GD32 part).  The
quantities the rules talk about are *derived from the events*:

  S      chunk size        = hi - lo of the slice sent by the data download
  FW     flashed buffer    = the object that slice is taken from
  N      page count        = trip count of the loops that enclose the erase / write requests (range, enumerate, a comprehension
                             or a generator over a range)
  PAGE   page index        = iteration number of that loop; its variables are polynomials in PAGE
  LEN    raw image length  = len() of the value read from the file (the `res` leaf of FW)
  Q, R   LEN = Q*S + R     = the Euclidean division of the path (divmod, or // and %), 0 <= R < S, and what its branch conditions
                             say about R; polynomials are compared in that normal form
  CAP    flash capacity    = LEN - g for the size guard  g > 0 -> refuse

Three-valued throughout: a request field, payload, loop, test or residue that is not read ends without verdict (Undecided /
Report.undecided), never in a finding and never in a silent pass.
"""
import ast

from .core import AnalysisError, Finding
from .astutil import unparse, dotted, fold, NotConstant
from .pathwalk import Walker, PathState, show, is_const, C
from .poly import Poly
from . import oracle
from .immsites import contains, find_all

DFU = 'bronzebeard/dfu.py'
PAGE = ('PAGE',)
LEN = ('LEN',)


class Undecided(AnalysisError):
    pass


def strip(v):
    while isinstance(v, tuple) and v and v[0] == 'res':
        v = v[3]
    return v


TRANSPARENT = ('bytes', 'bytearray', 'memoryview', 'list', 'tuple')


def unwrap1(v):
    """The operand of a conversion that keeps the bytes (bytes(x), bytearray(x), memoryview(x), list(x), tuple(x), x.tobytes(),
    x.tolist()), else None."""
    if not isinstance(v, tuple) or not v:
        return None
    if v[0] == 'call' and v[1] in TRANSPARENT and len(v[2]) == 1 and not v[3] and isinstance(v[2][0], tuple) and v[2][0][:1] != ('star',):
        return v[2][0]
    if v[0] == 'mcall' and v[2] in ('tobytes', 'tolist') and not v[3] and not (len(v) > 4 and v[4]):
        return v[1]
    return None


def unwrap(v):
    """strip() through bound results and byte-preserving conversions."""
    while True:
        v = strip(v)
        inner = unwrap1(v)
        if inner is None:
            return v
        v = inner


class Consts(dict):
    """Module-level constants of dfu.py plus what the rules need to know about module-level objects that are not constants."""
    structs = {}         # NAME = struct.Struct(fmt)  ->  fmt
    assigned = ()        # every name bound at module level (folded or not)


def module_consts(facts):
    c = Consts(facts.consts)
    c.structs = {}
    c.assigned = set(facts.assign_nodes)
    for name, st in facts.assign_nodes.items():
        val = getattr(st, 'value', None)
        if isinstance(val, ast.Call) and dotted(val.func) in ('struct.Struct', 'Struct') and len(val.args) == 1 and not val.keywords:
            try:
                fmt = fold(val.args[0], facts.consts)
            except NotConstant:
                continue
            if isinstance(fmt, str) and isinstance(getattr(st, 'targets', [None])[0], ast.Name):
                c.structs[name] = fmt
    return c


def struct_format(recv, consts):
    """Format string of a struct.Struct object (module-level NAME = struct.Struct(fmt), or the constructor call itself)."""
    r = strip(recv)
    if r[0] == 'name':
        return getattr(consts, 'structs', {}).get(r[1])
    if r[0] == 'call' and r[1] in ('struct.Struct', 'Struct') and len(r[2]) == 1 and not r[3]:
        f = fold_sym(r[2][0], consts)
        return f if isinstance(f, str) else None
    return None


def fold_sym(v, consts):
    """Integer / bytes / str value of a symbolic expression over module constants, or None."""
    v = strip(v)
    if is_const(v):
        return v[1]
    if v[0] == 'name':
        return consts.get(v[1])
    if v[0] == 'bin':
        a, b = fold_sym(v[2], consts), fold_sym(v[3], consts)
        if isinstance(a, int) and isinstance(b, int):
            try:
                return {'|': a | b, '&': a & b, '+': a + b, '-': a - b, '*': a * b, '<<': a << b, '>>': a >> b, '^': a ^ b}[v[1]]
            except (KeyError, ValueError):
                return None
    if v[0] in ('tuple', 'list'):
        vals = [fold_sym(e, consts) for e in v[1]]
        return None if any(e is None for e in vals) else vals
    if v[0] == 'call' and v[1] == 'struct.calcsize' and len(v[2]) == 1 and not v[3]:
        lay = unpack_layout(fold_sym(v[2][0], consts), sized=True)
        return lay[1] if lay is not None else None
    if v[0] == 'attr' and v[2] == 'size':
        lay = unpack_layout(struct_format(v[1], consts), sized=True)
        return lay[1] if lay is not None else None
    if v[0] == 'call' and v[1] == 'len' and len(v[2]) == 1 and not v[3]:
        a = fold_sym(v[2][0], consts)
        return len(a) if isinstance(a, (bytes, str, list)) else None
    return None


PYUSB_PARAMS = ['bmRequestType', 'bRequest', 'wValue', 'wIndex', 'data_or_wLength', 'timeout']
DNLOAD_KINDS = ('ERASE', 'SETADDR', 'DATA')


def payload_pieces(v, consts):
    """A byte string written out as a sequence of fields: [(size in bytes, value term, byte order '<' / '>' / None for one byte)],
    or None when the expression is not such a construction.  struct.pack / Struct.pack with an explicit byte order, bytes([a, b]),
    x.to_bytes(n, order), byte-string constants and their concatenation."""
    v = strip(v)
    if not isinstance(v, tuple) or not v:
        return None
    if is_const(v) and isinstance(v[1], (bytes, bytearray)):
        return [(1, C(b), None) for b in v[1]]
    if v[0] == 'name' and isinstance(consts.get(v[1]), bytes):
        return [(1, C(b), None) for b in consts[v[1]]]
    fmt = args = None
    if v[0] == 'call' and v[1] == 'struct.pack' and v[2] and not v[3]:
        fmt, args = fold_sym(v[2][0], consts), v[2][1:]
    elif v[0] == 'mcall' and v[2] == 'pack' and not v[4] and struct_format(v[1], consts) is not None:
        fmt, args = struct_format(v[1], consts), v[3]
    if fmt is not None or (v[0] == 'call' and v[1] == 'struct.pack'):
        lay = unpack_layout(fmt)
        if lay is None or any(a[0] == 'star' for a in args):
            return None
        fields = [f for f in lay if f[2] != 'x']
        if len(fields) != len(args):
            return None
        out = []
        it = iter(args)
        for off, size, code in lay:
            if code == 'x':
                out.extend([(1, C(0), None)] * size)
            elif code in 'sp':
                return None
            else:
                out.append((size, next(it), '<' if fmt[0] in '<=' else '>'))
        return out
    if v[0] == 'call' and v[1] in ('bytes', 'bytearray') and len(v[2]) == 1 and not v[3]:
        a = strip(v[2][0])
        if a[0] in ('list', 'tuple') and not any(e[0] == 'star' for e in a[1]):
            return [(1, e, None) for e in a[1]]
        return payload_pieces(a, consts) if a[0] in ('call', 'mcall', 'bin', 'const') else None
    if v[0] == 'mcall' and v[2] == 'to_bytes' and 1 <= len(v[3]) + len(v[4]) <= 3:
        kw = dict(v[4])
        n = fold_sym(v[3][0] if v[3] else kw.get('length', C(1)), consts)
        order = fold_sym(v[3][1] if len(v[3]) > 1 else kw.get('byteorder', C('big')), consts)
        signed = kw.get('signed', C(False))
        if isinstance(n, int) and n > 0 and order in ('little', 'big') and signed == C(False):
            return [(n, v[1], '<' if order == 'little' else '>')]
        return None
    if v[0] == 'bin' and v[1] == '+':
        a, b = payload_pieces(v[2], consts), payload_pieces(v[3], consts)
        return None if a is None or b is None else a + b
    return None


class Request:
    """One ctrl_transfer call on a path.  kind: POLL / CLR / ERASE / SETADDR / DATA, OTHER for a request number that is none of
    GETSTATUS, CLRSTATUS, DNLOAD, DNLOAD? for a download whose payload is a field construction that is not a DfuSe address
    command.  A request whose number cannot be folded gives no verdict."""

    def __init__(self, idx, node, site, recv, params, raw, consts):
        self.idx, self.node, self.site, self.recv, self.params, self.raw = idx, node, site, recv, params, raw
        self.uid = raw[4] if raw[0] == 'res' and len(raw) > 4 else None
        self.bmRequestType = fold_sym(params['bmRequestType'], consts) if 'bmRequestType' in params else None
        self.request = fold_sym(params['bRequest'], consts) if 'bRequest' in params else None
        self.wValue = fold_sym(params['wValue'], consts) if 'wValue' in params else 0
        self.data = params.get('data_or_wLength')
        self.kind = 'OTHER'
        self.addr = None
        self.payload = None
        self.pack = None
        if not isinstance(self.request, int) or isinstance(self.request, bool):
            raise Undecided('the request number of the control transfer at line {} is not a constant the rules can fold: {}'.format(
                getattr(node, 'lineno', '?'), show(params['bRequest'])[:60] if 'bRequest' in params else 'missing'))
        R = oracle.DFU['requests']
        if self.request == R['REQUEST_DFU_GETSTATUS']:
            self.kind = 'POLL'
        elif self.request == R['REQUEST_DFU_CLRSTATUS']:
            self.kind = 'CLR'
        elif self.request == R['REQUEST_DFU_DNLOAD']:
            pieces = payload_pieces(self.data, consts) if self.data is not None else None
            if pieces:
                cmd = fold_sym(pieces[0][1], consts) if pieces[0][0] == 1 else None
                # (layout as a canonical struct format, command byte, the remaining field values): what R18.1.dfuse-command looks at
                orders = {o for sz, _, o in pieces if sz > 1}
                fmt = ('<' if orders <= {'<'} else '>' if orders == {'>'} else '?') + ''.join(
                    {1: 'B', 2: 'H', 4: 'I', 8: 'Q'}.get(sz, '{}s'.format(sz)) for sz, _, _ in pieces)
                self.pack = (fmt, cmd, tuple(t for _, t, _ in pieces[1:]))
                self.addr = pieces[1][1] if len(pieces) > 1 else None
                if pieces[0][0] == 1 and cmd is None:
                    raise Undecided('the command byte of the download at line {} is not a constant the rules can fold: {}'.format(
                        getattr(node, 'lineno', '?'), show(pieces[0][1])[:60]))
                if cmd == oracle.DFU['dfuse']['DFUSE_CMD_ERASE_PAGE']:
                    self.kind = 'ERASE'
                elif cmd == oracle.DFU['dfuse']['DFUSE_CMD_SET_ADDRESS']:
                    self.kind = 'SETADDR'
                else:
                    self.kind = 'DNLOAD?'
            else:
                d = strip(self.data) if self.data is not None else None
                if d is not None and ((d[0] == 'call' and d[1] in ('struct.pack', 'struct.pack_into')) or (d[0] == 'mcall' and d[2] in ('pack', 'to_bytes'))
                                      or (d[0] == 'bin' and d[1] in ('+', '%', '*'))):
                    raise Undecided('the payload of the download at line {} is built in a way the rules cannot read: {}'.format(
                        getattr(node, 'lineno', '?'), show(d)[:80]))
                self.kind = 'DATA'
                self.payload = self.data

    @property
    def line(self):
        return getattr(self.site, 'lineno', getattr(self.node, 'lineno', None))


def is_ctrl(v):
    return isinstance(v, tuple) and len(v) > 2 and v[0] == 'mcall' and v[2] == 'ctrl_transfer'


_BARE = {}


def bare_ctrl(v):
    """Does the value contain a ctrl_transfer call that is not the (possibly converted) content of a bound result?  Bound results
    are requests in their own right (their `value` event); a bare call sits inside an expression the rules do not take apart."""
    if not isinstance(v, tuple) or not v:
        return False
    hit = _BARE.get(id(v))
    if hit is not None and hit[0] is v:
        return hit[1]
    if v[0] == 'res' and is_ctrl(unwrap(v)):
        r = any(bare_ctrl(x) for x in unwrap(v)[1:])
    elif is_ctrl(v):
        r = True
    else:
        r = any(bare_ctrl(x) for x in v)
    _BARE[id(v)] = (v, r)
    return r


def request_of(ev, idx, path, consts):
    """Request for an event that is a ctrl_transfer call (statement or assigned), else None."""
    if ev[0] == 'mcall' and ev[2] == 'ctrl_transfer':
        recv, args, kwargs, node = ev[1], ev[3], ev[4], ev[5]
        raw = ('mcall', recv, 'ctrl_transfer', args, kwargs)
    elif ev[0] in ('value', 'expr'):
        raw = ev[1]
        v = unwrap(raw)
        if not is_ctrl(v):
            return None
        recv, args, kwargs, node = v[1], v[3], v[4], ev[2]
    else:
        return None
    params = {}
    for n, a in zip(PYUSB_PARAMS, args):
        params[n] = a
    for k, a in kwargs:
        params[k] = a
    if any(a[0] == 'star' for a in args) or any(k is None for k, _ in kwargs):
        raise Undecided('control transfer at line {} is called with unpacked arguments'.format(getattr(node, 'lineno', '?')))
    return Request(idx, node, path.sites.get(idx, node), recv, params, raw, consts)


def main_paths(facts):
    fn = facts.funcs.get('cli_main')
    if fn is None:
        raise AnalysisError('anchor vanished: dfu.cli_main')
    w = Walker(facts, name_results=True, inline='all', exits_end_paths=True, guard_effects=True)
    w.opaque = {'cli_main'}
    _BARE.clear()
    _RV.clear()
    _UNBOUND.clear()
    _DM_TERMS.clear()
    paths = w.run(fn.body, PathState())
    consts = module_consts(facts)
    paths = end_at_unbound_locals(fn, facts, paths)
    return fn, [p for p in paths if feasible(p, consts)]


_UNBOUND = {}


def unbound_name(v, names):
    """The first of `names` that the value reads as a bare ('name', x) term: a local variable that has no value on this path."""
    if not isinstance(v, tuple) or not v:
        return None
    if v[0] == 'name' and len(v) == 2:
        return v[1] if v[1] in names else None
    if v[0] in ('const', 'lambda', 'closure', 'opaque'):
        return None
    hit = _UNBOUND.get(id(v))
    if hit is not None and hit[0] is v:
        return hit[1]
    r = None
    for x in v[1:]:
        if isinstance(x, tuple):
            r = unbound_name(x, names)
            if r is not None:
                break
    _UNBOUND[id(v)] = (v, r)
    return r


def end_at_unbound_locals(fn, facts, paths):
    """A path that reads a local variable of cli_main before any assignment to it on that path (page_size for a device that is not a
    GD32 part) ends there with UnboundLocalError: nothing after that point happens.  The symbolic walk carries such a read as the
    bare name; here the path is cut at the first event that contains one, and paths that become equal are merged."""
    import builtins
    local = {n.id for n in ast.walk(fn) if isinstance(n, ast.Name) and isinstance(n.ctx, ast.Store)}
    local |= {a.arg for a in fn.args.args + fn.args.kwonlyargs}
    for n in ast.walk(fn):
        if isinstance(n, (ast.Global, ast.Nonlocal)):
            local -= set(n.names)
    # a name that also exists at module level may be a helper's global of the same spelling: left alone
    module_names = set(facts.assign_nodes) | set(facts.funcs) | set(facts.classes) | set(dir(builtins))
    for st in facts.tree.body:
        if isinstance(st, (ast.Import, ast.ImportFrom)):
            module_names |= {(a.asname or a.name).split('.')[0] for a in st.names}
    local -= module_names
    if not local:
        return paths
    out, seen = [], set()
    for p in paths:
        cut = None
        for i, ev in enumerate(p.events):
            for x in ev[1:]:
                if isinstance(x, tuple):
                    nm = unbound_name(x, local)
                    if nm is not None:
                        cut = (i, nm, ev[-1])
                        break
            if cut:
                break
        if cut is None:
            out.append(p)
            continue
        i, nm, node = cut
        key = tuple(id(e) for e in p.events[:i]) + (nm,)
        if key in seen:
            continue
        seen.add(key)
        p.events = p.events[:i] + [('raise', ('call', 'UnboundLocalError', (C(nm),), ()), node)]
        p.conds = [(e[1], e[2], e[3]) for e in p.events if e[0] == 'cond']
        p.sites = {k: v for k, v in p.sites.items() if k < i}
        p.end = 'raise'
        p.end_node = node
        out.append(p)
    return out


def path_divmods(p, sym):
    """The Euclidean divisions a path computes and what its branch conditions say about their remainders (see DivMod).  The terms
    are looked for where the rules need them: in the iterables of the loops, in the branch conditions and in bound divmod results."""
    cache = p.__dict__.setdefault('_divmods', {})
    if id(sym.raw) in cache and cache[id(sym.raw)][0] is sym.raw:
        return cache[id(sym.raw)][1]
    found = {}
    bound = {}

    def of_divmod(t, k):
        """t is part k of a divmod(a, b) result: by unpacking (`q, r = divmod(..)`) or by index (`d = divmod(..); d[0]`)."""
        if not ((t[0] == 'unpack' and t[2] == str(k) and len(t) > 3 and t[3] == 2) or (t[0] == 'sub' and t[2] in (C(k), C(k - 2)))):
            return False
        src = strip(t[1])
        return src[0] == 'call' and src[1] == 'divmod' and len(src[2]) == 2 and not src[3]

    def is_q(t):
        return of_divmod(t, 0) or (t[0] == 'bin' and t[1] == '//')

    def is_r(t):
        return of_divmod(t, 1) or (t[0] == 'bin' and t[1] == '%' and not (is_const(t[2]) and isinstance(t[2][1], (str, bytes))))

    def operands(t):
        return tuple(strip(t[1])[2]) if t[0] in ('unpack', 'sub') else (t[2], t[3])

    def parts_in(v):
        hit = _DM_TERMS.get(id(v))
        if hit is None or hit[0] is not v:
            hit = (v, find_all(v, lambda t: is_q(t) or is_r(t)))
            _DM_TERMS[id(v)] = hit
        return hit[1]

    def note(v):
        for t in parts_in(v):
            a, b = operands(t)
            d = found.setdefault((a, b), DivMod(a, b, None, None))
            # `divmod` gives both parts; `a // b` and `a % b` are paired by their operands.  Of two spellings of the same part
            # (divmod and //) the first one seen names it; the other one stays an opaque term (no verdict rather than a guess).
            if is_q(t) and d.q is None:
                d.q = t
            elif is_r(t) and d.r is None:
                d.r = t
    for ev in p.events:
        if ev[0] in ('loop', 'loop0', 'cond', 'while', 'endwhile', 'endwhile0'):
            note(ev[1])
        elif ev[0] == 'value' and strip(ev[1])[0] == 'call' and strip(ev[1])[1] == 'divmod' and len(strip(ev[1])[2]) == 2 and not strip(ev[1])[3]:
            a, b = strip(ev[1])[2]
            bound.setdefault((a, b), ev[1])
    out = []
    for key, res in bound.items():
        # a bound divmod result whose parts were not seen in a loop range or a condition: named as the unpacked parts
        d = found.setdefault(key, DivMod(key[0], key[1], None, None))
        d.q = d.q or ('unpack', res, '0', 2)
        d.r = d.r or ('unpack', res, '1', 2)
    for d in found.values():
        for mine, other, k in ((d.q, 'r', 1), (d.r, 'q', 0)):
            if mine is not None and mine[0] in ('unpack', 'sub') and getattr(d, other) is None:
                # the other part of the same divmod result, spelled the same way
                setattr(d, other, ('unpack', mine[1], str(k), 2) if mine[0] == 'unpack' else ('sub', mine[1], C(k)))
        d.pa, d.pb = sym.poly(d.a), sym.poly(d.b)
        if d.r is not None:
            # what the branch conditions of the path say about the remainder: evaluated for r = 0 and for a spread of non-zero values
            zero_ok, nonzero_all = True, True
            unread = False
            samples = (1, 2, 3, 7, 255, 256, 1023, 4095, 65535)
            alive = set(samples)                  # the non-zero sample values every condition read so far allows
            for t, pol, _ in p.conds:
                if d.r not in parts_in(t):
                    continue
                r0 = eval_sym_test(t, {d.r: 0}, sym.consts)
                rn = {k: eval_sym_test(t, {d.r: k}, sym.consts) for k in samples}
                if r0 is None or any(x is None for x in rn.values()):
                    unread = True
                    continue
                zero_ok = zero_ok and (r0 == pol)
                nonzero_all = nonzero_all and all(x == pol for x in rn.values())
                alive &= {k for k, x in rn.items() if x == pol}
            if unread:
                pass
            elif zero_ok and not alive:
                d.r_zero = True
            elif not zero_ok and nonzero_all:
                d.r_zero = False
            elif zero_ok and alive:
                d.r_free = True                   # taken for r == 0 and for some r != 0 alike
        out.append(d)
    cache[id(sym.raw)] = (sym.raw, out)
    return out


_DM_TERMS = {}


def range_trips(it, sym):
    """Trip count of a range(...) value as a polynomial (None when it is not one): stop, or (stop - start) / step when exact, after
    the Euclidean divisions of the path have been put in normal form (a = q*b + r)."""
    args = it[2]
    if it[3] or not 1 <= len(args) <= 3:
        return None
    try:
        if len(args) == 1:
            return sym.normal(sym.poly(args[0]))
        start, stop = sym.poly(args[0]), sym.poly(args[1])
        step = sym.poly(args[2]) if len(args) == 3 else Poly.const(1)
        return divide(sym.normal(stop - start), step)
    except Undecided:
        return None


def loop_range(it):
    """The range(...) value a loop iterable runs over once per iteration: range itself, enumerate(X), a comprehension without
    conditions over X; None for anything else."""
    its = strip(it)
    if its[0] == 'call' and its[1] == 'range' and 1 <= len(its[2]) <= 3 and not its[3]:
        return its
    if its[0] == 'call' and its[1] == 'enumerate' and 1 <= len(its[2]) <= 2 and all(k == 'start' for k, _ in its[3]):
        return loop_range(its[2][0])
    if its[0] == 'comp' and not its[5] and its[1] in ('ListComp', 'GeneratorExp'):
        return loop_range(its[4])
    if unwrap1(its) is not None:
        return loop_range(unwrap1(its))
    return None


def feasible(p, consts=None):
    """Two loops that run once per element of range(...) values with the same trip count (the structurally identical range value,
    or the same polynomial (stop - start) / step) run the same number of times: a path on which one ran zero times and the other
    at least once does not exist; nor does a path on which a loop over range(n) with n known to be positive ran zero times."""
    trips = {}
    sym = Sym(consts or {})
    sym.divmods = path_divmods(p, sym)
    for ev in p.events:
        if ev[0] == 'cond' and sym.divmods:
            t = strip(ev[1])
            try:
                if t[0] == 'bin' and t[1] in ('+', '-', '*') and not ev[2] and sym.positive(sym.normal(sym.poly(t))):
                    return False           # `if b - r:` not taken: b - r of a Euclidean division is never zero
                g = sym.gt(t)
                if g is not None and not ev[2] and sym.positive(sym.normal(g)):
                    return False
                if t[0] == 'cmp' and t[1] in ('==', '!=') and (t[1] == '==') == ev[2] and t[2][0] != 'const' \
                        and sym.positive(sym.normal(sym.poly(t[2]) - sym.poly(t[3]))):
                    return False
            except Undecided:
                pass
        if ev[0] in ('loop', 'loop0'):
            it = loop_range(ev[1])
            if it is not None:
                n = range_trips(it, sym)
                if n is not None and ev[0] == 'loop0' and sym.positive(n):
                    return False           # range(n) with n > 0 (b - r of a Euclidean division, ...) runs at least once
                key = it if n is None else repr(n)
                got = ev[0] == 'loop'
                if trips.setdefault(key, got) != got:
                    return False
    return True


def protocol_events(path, consts):
    """Ordered protocol-level events of a path: (kind, idx, node, payload)
       REQ payload = Request ; COND payload = (test, pol) ; WHILE/ENDWHILE/ENDWHILE0 payload = test ; LOOP/LOOP0/ENDLOOP payload =
       iterable ; RAISE payload = exception value ; EXIT payload = args ; SLEEP payload = arg.   node is the outermost call site
       in cli_main when the event happened inside an inlined helper."""
    cached = getattr(path, '_proto', None)
    if cached is not None:
        return cached
    out = []
    for i, ev in enumerate(path.events):
        r = request_of(ev, i, path, consts)
        if r is not None:
            if any(bare_ctrl(x) for x in r.params.values()):
                raise Undecided('a control transfer is nested in the arguments of the one at line {}'.format(r.line))
            out.append(('REQ', i, r.site, r))
            continue
        if any(bare_ctrl(x) for x in ev[1:] if isinstance(x, tuple)):
            raise Undecided('a control transfer sits inside an expression the rules do not take apart (line {}): {}'.format(
                getattr(ev[-1], 'lineno', '?'), ' '.join(show(x)[:70] for x in ev[1:] if isinstance(x, tuple))[:120]))
        site = path.sites.get(i)
        if ev[0] == 'cond':
            out.append(('COND', i, site or ev[3], (ev[1], ev[2])))
        elif ev[0] in ('while', 'endwhile', 'endwhile0', 'loop', 'loop0', 'endloop'):
            out.append((ev[0].upper(), i, ev[2], ev[1]))
        elif ev[0] == 'raise':
            out.append(('RAISE', i, site or ev[2], ev[1]))
        elif ev[0] == 'expr':
            v = strip(ev[1])
            if v[0] == 'call' and v[1] in ('sys.exit', 'exit', 'quit', 'os._exit'):
                out.append(('EXIT', i, site or ev[2], v[2]))
            elif v[0] == 'call' and v[1] in ('time.sleep', 'sleep'):
                out.append(('SLEEP', i, site or ev[2], v[2][0] if v[2] else None))
        elif ev[0] == 'guarded':
            # a call made only when a condition holds (the walk did not fork on it): a conditional sleep is ('GSLEEP', .., (arg, test, pol))
            inner = ev[3]
            if inner[0] == 'mcall' and inner[2] == 'ctrl_transfer':
                raise Undecided('a control transfer is issued under a condition the walk did not fork on (line {})'.format(getattr(ev[-1], 'lineno', '?')))
            v = strip(inner[1]) if inner[0] == 'expr' else None
            if v is not None and v[0] == 'call' and v[1] in ('time.sleep', 'sleep'):
                out.append(('GSLEEP', i, site or ev[4], (v[2][0] if v[2] else None, ev[1], ev[2])))
    path._proto = out
    return out


# -- the GETSTATUS reply --------------------------------------------------------------------------------------------------------
def unpack_layout(fmt, sized=False):
    """[(byte offset, size, code)] per field of a struct format with explicit byte order, or None (pad bytes: code 'x'); with
    `sized` the pair (that list, total size)."""
    if sized:
        lay = unpack_layout(fmt)
        if lay is None:
            return None
        return lay, max([o + sz for o, sz, _ in lay] or [0])
    if not isinstance(fmt, str) or not fmt or fmt[0] not in '<>=!':
        return None
    out = []
    off = 0
    i = 1
    while i < len(fmt):
        n = ''
        while i < len(fmt) and fmt[i].isdigit():
            n += fmt[i]
            i += 1
        if i >= len(fmt):
            return None
        c = fmt[i]
        i += 1
        cnt = int(n) if n else 1
        if c in 'sp':
            out.append((off, cnt, 's'))
            off += cnt
        elif c == 'x':
            out.append((off, cnt, 'x'))
            off += cnt
        elif c.isspace():
            continue
        elif c in oracle.STRUCT_SIZES:
            for _ in range(cnt):
                out.append((off, oracle.STRUCT_SIZES[c], c))
                off += oracle.STRUCT_SIZES[c]
        else:
            return None
    return out


def _is_reply(v):
    return is_ctrl(unwrap(v))


def subst_vars(v, env):
    """The symbolic value with the comprehension variables ('var', name) replaced by the values in env."""
    if not isinstance(v, tuple) or not v:
        return v
    if v[0] == 'var' and len(v) == 2 and v[1] in env:
        return env[v[1]]
    if v[0] in ('rv', 'const'):
        return v
    return tuple(subst_vars(x, env) for x in v)


def _int(weights, const, reply):
    return ('int', {k: w for k, w in weights.items() if w}, const, reply)


def _same_reply(a, b):
    """The reply two values are made of (None for constants); False when they come from different replies."""
    if a is None:
        return b
    if b is None or a == b:
        return a
    return False


def _as_seq(val):
    """A bytes value seen as the sequence of its bytes (iteration / indexing / tuple(..) give ints)."""
    if val[0] == 'seq':
        return val
    if val[0] == 'bytes':
        return ('seq', [_int({c[1]: 1}, 0, val[2]) if c[0] == 'r' else _int({}, c[1], None) for c in val[1]], val[2])
    return None


_RV = {}


def reply_value(v, consts):
    if not isinstance(v, tuple) or not v:
        return None
    hit = _RV.get(id(v))
    if hit is not None and hit[0] is v:
        return hit[1]
    r = _reply_value(v, consts)
    _RV[id(v)] = (v, r)
    return r


def _reply_value(v, consts):
    """How a value is made of the bytes of ONE GETSTATUS reply (and constants):
         ('int', {offset: weight}, constant, reply)        the integer  sum(reply[offset] * weight) + constant
         ('bytes', [('r', offset) | ('c', byte)], reply)   a byte string, cell by cell
         ('seq', [values], reply)                          a tuple / list of such values (struct.unpack result, list(reply), ..)
       `reply` is the bound ctrl_transfer result (None for pure constants).  None for anything else."""
    if not isinstance(v, tuple) or not v:
        return None
    if v[0] == 'rv':
        return v[1]
    if v[0] == 'res':
        if _is_reply(v):
            return ('bytes', [('r', k) for k in range(oracle.DFU['getstatus_len'])], v)
        return reply_value(v[3], consts)
    if is_const(v):
        if isinstance(v[1], bool):
            return None
        if isinstance(v[1], int):
            return _int({}, v[1], None)
        if isinstance(v[1], (bytes, bytearray)):
            return ('bytes', [('c', b) for b in v[1]], None)
        if isinstance(v[1], tuple) and all(isinstance(x, int) and not isinstance(x, bool) for x in v[1]):
            return ('seq', [_int({}, x, None) for x in v[1]], None)
        return None
    k = v[0]
    if k == 'name':
        c = consts.get(v[1])
        return reply_value(C(c), consts) if isinstance(c, (int, bytes)) and not isinstance(c, bool) else None
    if is_ctrl(v):
        return ('bytes', [('r', i) for i in range(oracle.DFU['getstatus_len'])], v)
    if k in ('tuple', 'list'):
        vals = [reply_value(e, consts) for e in v[1]]
        if any(x is None for x in vals):
            return None
        reply = None
        for x in vals:
            reply = _same_reply(reply, x[-1])
            if reply is False:
                return None
        return ('seq', vals, reply)
    if k == 'unpack':
        src = reply_value(v[1], consts)
        seq = _as_seq(src) if src is not None else None
        if seq is None:
            return None
        n = v[3] if len(v) > 3 else None
        if isinstance(n, int) and abs(n) > len(seq[1]) + (1 if n < 0 else 0):
            return None
        if ':' in v[2]:
            lo, hi = v[2].split(':')
            try:
                part = seq[1][int(lo):(int(hi) if hi else None)]
            except ValueError:
                return None
            return ('seq', part, seq[2])
        try:
            i = int(v[2])
        except ValueError:
            return None
        return seq[1][i] if -len(seq[1]) <= i < len(seq[1]) else None
    if k == 'call' and v[1] in ('struct.unpack', 'struct.unpack_from') and 2 <= len(v[2]) <= 3 and not v[3] or \
            (k == 'mcall' and v[2] in ('unpack', 'unpack_from') and 1 <= len(v[3]) <= 2 and not v[4] and struct_format(v[1], consts) is not None):
        if k == 'call':
            fmt, rest, from_ = fold_sym(v[2][0], consts), v[2][1:], v[1].endswith('_from')
        else:
            fmt, rest, from_ = struct_format(v[1], consts), v[3], v[2].endswith('_from')
        lay = unpack_layout(fmt, sized=True)
        buf = reply_value(rest[0], consts)
        if lay is None or buf is None or buf[0] != 'bytes' or (len(rest) == 2 and not from_):
            return None
        base = fold_sym(rest[1], consts) if len(rest) == 2 else 0
        cells = buf[1]
        if not isinstance(base, int) or base < 0 or (not from_ and lay[1] != len(cells)) or base + lay[1] > len(cells):
            return None
        out = []
        for off, size, code in lay[0]:
            part = cells[base + off:base + off + size]
            if code == 'x':
                continue
            if code == 's':
                out.append(('bytes', part, buf[2]))
                continue
            if code in 'bhilq':
                return None               # signed fields: not a plain weighted sum
            w, c0 = {}, 0
            for b, cell in enumerate(part):
                wt = (1 << (8 * b)) if fmt[0] in '<=' else (1 << (8 * (size - 1 - b)))
                if cell[0] == 'r':
                    w[cell[1]] = w.get(cell[1], 0) + wt
                else:
                    c0 += cell[1] * wt
            out.append(_int(w, c0, buf[2]))
        return ('seq', out, buf[2])
    if k == 'sub':
        base = reply_value(v[1], consts)
        i = fold_sym(v[2], consts)
        seq = _as_seq(base) if base is not None else None
        if seq is None or not isinstance(i, int) or isinstance(i, bool) or not -len(seq[1]) <= i < len(seq[1]):
            return None
        return seq[1][i]
    if k == 'slice':
        base = reply_value(v[1], consts)
        if base is None or base[0] not in ('bytes', 'seq') or v[4] != C(None):
            return None
        lo = None if v[2] == C(None) else fold_sym(v[2], consts)
        hi = None if v[3] == C(None) else fold_sym(v[3], consts)
        if not all(x is None or (isinstance(x, int) and not isinstance(x, bool)) for x in (lo, hi)):
            return None
        return (base[0], base[1][lo:hi], base[2])
    inner = unwrap1(v)
    if inner is not None:
        val = reply_value(inner, consts)
        if val is None or val[0] == 'int':
            return None
        if (k == 'call' and v[1] in ('list', 'tuple')) or (k == 'mcall' and v[2] == 'tolist'):
            return _as_seq(val)
        if val[0] == 'seq':
            # bytes([a, b, c]) of one-byte values
            cells = []
            for x in val[1]:
                if x[0] == 'int' and not x[2] and len(x[1]) == 1 and list(x[1].values()) == [1]:
                    cells.append(('r', next(iter(x[1]))))
                elif x[0] == 'int' and not x[1] and 0 <= x[2] < 256:
                    cells.append(('c', x[2]))
                else:
                    return None
            return ('bytes', cells, val[2])
        return val
    if k == 'mcall' and v[1] == ('name', 'int') and v[2] == 'from_bytes' and v[3]:
        buf = reply_value(v[3][0], consts)
        kw = dict(v[4])
        order = v[3][1] if len(v[3]) > 1 else kw.get('byteorder')
        order = fold_sym(order, consts) if order is not None else 'big'
        if buf is None or buf[0] != 'bytes' or order not in ('little', 'big') or kw.get('signed', C(False)) != C(False):
            return None
        w, c0 = {}, 0
        size = len(buf[1])
        for b, cell in enumerate(buf[1]):
            wt = (1 << (8 * b)) if order == 'little' else (1 << (8 * (size - 1 - b)))
            if cell[0] == 'r':
                w[cell[1]] = w.get(cell[1], 0) + wt
            else:
                c0 += cell[1] * wt
        return _int(w, c0, buf[2])
    if k == 'bin' and v[1] in ('|', '+', '-'):
        a, b = reply_value(v[2], consts), reply_value(v[3], consts)
        if a is None or b is None:
            return None
        reply = _same_reply(a[-1], b[-1])
        if reply is False:
            return None
        if a[0] == 'bytes' and b[0] == 'bytes' and v[1] == '+':
            return ('bytes', a[1] + b[1], reply)
        if a[0] == 'seq' and b[0] == 'seq' and v[1] == '+':
            return ('seq', a[1] + b[1], reply)
        if a[0] != 'int' or b[0] != 'int':
            return None
        if v[1] == '|':
            # a | b is a + b when no bit can be set in both: every byte of the reply occupies the 8 bits above its weight
            spans = []
            for x in (a, b):
                for w in x[1].values():
                    if w <= 0 or w & (w - 1):
                        return None
                    spans.append((w, w << 8))
                if x[2] < 0:
                    return None
                if x[2]:
                    spans.append((x[2] & -x[2], 1 << x[2].bit_length()))
            spans.sort()
            if any(spans[i][1] > spans[i + 1][0] for i in range(len(spans) - 1)):
                return None
        sign = -1 if v[1] == '-' else 1
        w = dict(a[1])
        for o, wt in b[1].items():
            w[o] = w.get(o, 0) + sign * wt
        return _int(w, a[2] + sign * b[2], reply)
    if k == 'bin' and v[1] in ('<<', '*'):
        for x, y in ((v[2], v[3]), (v[3], v[2])):
            n = fold_sym(y, consts)
            if n is None:
                ny = reply_value(y, consts)
                n = ny[2] if ny is not None and ny[0] == 'int' and not ny[1] else None
            a = reply_value(x, consts)
            if isinstance(n, int) and not isinstance(n, bool) and a is not None and a[0] == 'int' and (v[1] == '*' or x is v[2]):
                if v[1] == '<<':
                    if not 0 <= n <= 64:
                        return None
                    n = 1 << n
                return _int({o: w * n for o, w in a[1].items()}, a[2] * n, a[3])
        return None
    if k == 'call' and v[1] == 'int' and len(v[2]) == 1 and not v[3]:
        a = reply_value(v[2][0], consts)
        return a if a is not None and a[0] == 'int' else None
    if k == 'call' and v[1] == 'sum' and 1 <= len(v[2]) <= 2 and not v[3]:
        start = reply_value(v[2][1], consts) if len(v[2]) == 2 else _int({}, 0, None)
        elems = reply_elements(v[2][0], consts)
        if elems is None or start is None or start[0] != 'int':
            return None
        total = start
        for e in elems:
            if e is None or e[0] != 'int':
                return None
            reply = _same_reply(total[3], e[3])
            if reply is False:
                return None
            w = dict(total[1])
            for o, wt in e[1].items():
                w[o] = w.get(o, 0) + wt
            total = _int(w, total[2] + e[2], reply)
        return total
    if k == 'comp':
        elems = reply_elements(v, consts)
        if elems is None or any(e is None for e in elems):
            return None
        reply = None
        for e in elems:
            reply = _same_reply(reply, e[-1])
            if reply is False:
                return None
        return ('seq', elems, reply)
    return None


def reply_elements(v, consts):
    """The values a comprehension / sequence expression produces, in order, when what it runs over is a sequence made of reply
    bytes: [value | None], or None when the iterable is not understood."""
    s = strip(v)
    if s[0] != 'comp':
        val = reply_value(v, consts)
        seq = _as_seq(val) if val is not None else None
        return None if seq is None else list(seq[1])
    _, kind, elt, names, it, ifs = s
    if ifs or kind == 'SetComp':
        return None
    names = names.split(',')
    its = strip(it)
    rows = None
    if its[0] == 'call' and its[1] == 'enumerate' and 1 <= len(its[2]) <= 2 and len(names) == 2:
        start = fold_sym(its[2][1], consts) if len(its[2]) == 2 else fold_sym(dict(its[3]).get('start', C(0)), consts)
        inner = reply_elements(its[2][0], consts)
        if inner is None or not isinstance(start, int) or (its[3] and [k_ for k_, _ in its[3]] != ['start']):
            return None
        rows = [{names[0]: C(start + i), names[1]: ('rv', x)} for i, x in enumerate(inner)]
    elif its[0] == 'call' and its[1] == 'zip' and len(its[2]) == len(names) and not its[3]:
        cols = [reply_elements(a, consts) for a in its[2]]
        if any(c is None for c in cols):
            return None
        rows = [{n: ('rv', x) for n, x in zip(names, row)} for row in zip(*cols)]
    elif its[0] == 'call' and its[1] == 'range' and len(names) == 1 and not its[3]:
        args = [fold_sym(a, consts) for a in its[2]]
        if not args or len(args) > 3 or not all(isinstance(a, int) and not isinstance(a, bool) for a in args) or (len(args) == 3 and args[2] == 0):
            return None
        r = range(*args)
        if len(r) > 64:
            return None
        rows = [{names[0]: C(i)} for i in r]
    elif len(names) == 1:
        inner = reply_elements(it, consts)
        if inner is None:
            return None
        rows = [{names[0]: ('rv', x)} for x in inner]
    if rows is None or any(x is None for row in rows for x in row.values()):
        return None
    return [reply_value(subst_vars(elt, row), consts) for row in rows]


def reply_bytes(v, consts):
    """{'weights': {offset: weight}, 'reply': reply value} when v is an integer made of the bytes of one GETSTATUS reply and nothing
    else (no constant part), {'cells': [...], 'reply': ..} when it is a byte string cut out of a reply; None for anything else."""
    val = reply_value(v, consts)
    if val is None or val[-1] is None:
        return None
    if val[0] == 'int' and val[2] == 0 and val[1]:
        return {'weights': dict(val[1]), 'reply': val[3]}
    if val[0] == 'bytes':
        return {'cells': list(val[1]), 'reply': val[2]}
    return None


def reply_uid(reply):
    return reply[4] if isinstance(reply, tuple) and reply and reply[0] == 'res' and len(reply) > 4 else None


def reply_terms(v, consts, out=None):
    """All maximal sub-terms of v that are integer functions of a GETSTATUS reply: [(term, weights, reply uid)]."""
    out = [] if out is None else out
    if not isinstance(v, tuple) or not v:
        return out
    rb = reply_bytes(v, consts)
    if rb is not None and 'weights' in rb:
        out.append((v, rb['weights'], reply_uid(rb['reply'])))
        return out
    for x in v[1:] if v[0] != 'res' else (v[3],):
        if isinstance(x, tuple):
            if x and isinstance(x[0], str):
                reply_terms(x, consts, out)
            else:
                for y in x:
                    if isinstance(y, tuple):
                        if y and isinstance(y[0], str):
                            reply_terms(y, consts, out)
                        else:
                            for z in y:
                                reply_terms(z, consts, out)
    return out


def unread_reply_use(v, uid, consts):
    """Does the value use the GETSTATUS reply `uid` (or a loop-carried value the walk lost track of) in a way that reply_terms does
    not account for: through a call, a lookup, an object, ... ?  Such a test may well constrain the state or the status."""
    if not isinstance(v, tuple) or not v:
        return False
    if v[0] == 'havoc':
        return True
    rb = reply_bytes(v, consts)
    if rb is not None and 'weights' in rb:
        return False
    if v[0] == 'res' and _is_reply(v):
        return reply_uid(v) == uid
    return any(unread_reply_use(x, uid, consts) for x in v[1:])


def eval_sym_test(test, subst, consts):
    """Truth of a symbolic test with the values in `subst` ({term: int}) plugged in; None if it cannot be evaluated."""
    if test in subst:
        return bool(subst[test])
    if is_const(test):
        return bool(test[1])
    k = test[0]
    if k == 'res':
        return eval_sym_test(test[3], subst, consts)
    if k == 'bin':
        # truthiness of a number computed from the substituted terms: `if poll_timeout:` with poll_timeout = ms / 1000
        r = eval_sym_test(('cmp', '!=', test, C(0)), subst, consts)
        return r
    if k == 'un' and test[1] == 'not':
        r = eval_sym_test(test[2], subst, consts)
        return None if r is None else not r
    if k == 'bool':
        vals = [eval_sym_test(t, subst, consts) for t in test[2]]
        if test[1] == 'and':
            if any(v is False for v in vals):
                return False
            return None if any(v is None for v in vals) else True
        if any(v is True for v in vals):
            return True
        return None if any(v is None for v in vals) else False
    if k == 'ifexp':
        c = eval_sym_test(test[1], subst, consts)
        return None if c is None else eval_sym_test(test[2] if c else test[3], subst, consts)
    if k == 'cmp':
        def val(x):
            if x in subst:
                return subst[x]
            sx = strip(x)
            if sx in subst:
                return subst[sx]
            if sx[0] in ('list', 'tuple', 'set'):
                vs = [val(e) for e in sx[1]]
                return None if any(e is None for e in vs) else vs
            if sx[0] == 'bin' and sx[1] in ('+', '-', '*', '/', '//', '%', '<<', '>>', '|', '&', '^'):
                a_, b_ = val(sx[2]), val(sx[3])
                if isinstance(a_, (int, float)) and isinstance(b_, (int, float)) and not isinstance(a_, bool) and not isinstance(b_, bool):
                    try:
                        return {'+': lambda: a_ + b_, '-': lambda: a_ - b_, '*': lambda: a_ * b_, '/': lambda: a_ / b_, '//': lambda: a_ // b_,
                                '%': lambda: a_ % b_, '<<': lambda: a_ << b_ if 0 <= b_ < 64 else None, '>>': lambda: a_ >> b_, '|': lambda: a_ | b_,
                                '&': lambda: a_ & b_, '^': lambda: a_ ^ b_}[sx[1]]()
                    except (TypeError, ValueError, ZeroDivisionError):
                        return None
                return None
            if sx[0] == 'un' and sx[1] == '-':
                a_ = val(sx[2])
                return -a_ if isinstance(a_, (int, float)) and not isinstance(a_, bool) else None
            if sx[0] == 'name' and isinstance(consts.get(sx[1]), (set, frozenset, dict)):
                return consts[sx[1]]
            return fold_sym(sx, consts)
        a, b = val(test[2]), val(test[3])
        if a is None or b is None:
            return None
        try:
            return {'==': lambda: a == b, '!=': lambda: a != b, '<': lambda: a < b, '<=': lambda: a <= b, '>': lambda: a > b,
                    '>=': lambda: a >= b, 'in': lambda: a in b, 'not in': lambda: a not in b, 'is': lambda: a == b,
                    'is not': lambda: a != b}[test[1]]()
        except (TypeError, KeyError):
            return None
    return None


def status_test(test, consts):
    """('bad'|'ok', tested value, weights or None, reply uid) if the test compares something with STATUS_OK: by name, or by value
    when the other side is byte 0 of a GETSTATUS reply."""
    if test[0] == 'un' and test[1] == 'not':
        r = status_test(test[2], consts)
        if r:
            return ('ok' if r[0] == 'bad' else 'bad',) + r[1:]
        return None
    if test[0] == 'res':
        return status_test(test[3], consts)
    if test[0] != 'cmp' or test[1] not in ('!=', '==', 'is not', 'is'):
        # bare truthiness of the status byte: `if status:` is `status != 0`
        rb = reply_bytes(test, consts)
        if rb is not None and rb.get('weights') == {0: 1} and consts.get('STATUS_OK') == 0:
            return ('bad', test, rb['weights'], reply_uid(rb['reply']))
        return status_test_by_value(test, consts)
    r = status_test_named(test, consts)
    return r if r is not None else status_test_by_value(test, consts)


def status_test_by_value(test, consts):
    """Any other test over bStatus (byte 0 of one reply) and constants, decided by evaluating it for every value of the byte: it is a
    status check when it separates 0 (OK) from all the error values ('bad' / 'ok' says which outcome the errors take); 'unclear'
    when the test mentions the byte but cannot be evaluated; None when it is not about the status or singles out some errors only."""
    terms = [(t, w, uid) for t, w, uid in reply_terms(test, consts) if w == {0: 1}]
    if not terms or len({uid for _, _, uid in terms}) != 1:
        return None
    uid = terms[0][2]
    outcomes = []
    for k in range(256):
        r = eval_sym_test(test, {t: k for t, _, _ in terms}, consts)
        if r is None:
            return ('unclear', terms[0][0], {0: 1}, uid)
        outcomes.append(r)
    if not outcomes[0] and all(outcomes[1:]):
        return ('bad', terms[0][0], {0: 1}, uid)
    if outcomes[0] and not any(outcomes[1:]):
        return ('ok', terms[0][0], {0: 1}, uid)
    return None


def status_test_named(test, consts):
    a, b = test[2], test[3]
    ok_val = consts.get('STATUS_OK')
    for x, y in ((a, b), (b, a)):
        named = y == ('name', 'STATUS_OK')
        rb = reply_bytes(x, consts)
        w = rb.get('weights') if rb else None
        valued = is_const(y) and ok_val is not None and y[1] == ok_val and not isinstance(y[1], bool) and w == {0: 1}
        if named or valued:
            return ('bad' if test[1] in ('!=', 'is not') else 'ok', x, w, reply_uid(rb['reply']) if rb else None)
    return None


# -- polynomials over the derived quantities ----------------------------------------------------------------------------------------
BUFFER_COPIES = ('bytes', 'bytearray', 'memoryview')


def buffer_copy(v):
    """The operand of bytes(x) / bytearray(x) / memoryview(x) when x is itself a buffer expression (not a length, not a list)."""
    if v[0] == 'call' and v[1] in BUFFER_COPIES and len(v[2]) == 1 and not v[3] and isinstance(v[2][0], tuple):
        a = v[2][0]
        if a[0] in ('res', 'accum', 'mcall') or (a[0] == 'call' and a[1] in BUFFER_COPIES):
            return a
        if a[0] == 'bin' and a[1] == '+' and (_leaf_in_sum(a)):
            return a                  # bytes(buffer + padding); bytes(n + 1) is n + 1 zero bytes
    return None


def _leaf_in_sum(a):
    """Is one operand of the (nested) sum a buffer: a bound value, an accumulation, a byte-string constant, a copy of one?"""
    if a[0] == 'bin' and a[1] == '+':
        return _leaf_in_sum(a[2]) or _leaf_in_sum(a[3])
    if a[0] in ('res',):
        return strip(a)[0] not in ('const', 'bin', 'un', 'unpack') and not (strip(a)[0] == 'call' and strip(a)[1] in ('len', 'int'))
    return a[0] == 'accum' or (is_const(a) and isinstance(a[1], (bytes, bytearray))) or (a[0] == 'call' and a[1] in BUFFER_COPIES) \
        or (a[0] == 'bin' and a[1] == '*' and any(is_const(x) and isinstance(x[1], bytes) for x in (a[2], a[3])))


def buffer_leaf(v):
    """The value read from the file that a buffer expression extends (its `res` leaf), or None."""
    if v[0] == 'res':
        inner = v[3]
        while buffer_copy(inner) is not None:
            inner = buffer_copy(inner)
        if inner[0] in ('res', 'accum') or (inner[0] == 'bin' and inner[1] == '+') or (inner[0] == 'mcall' and inner[2] == 'ljust'):
            return buffer_leaf(inner)            # a bound copy / view of a buffer built earlier: the same leaf
        return v
    if v[0] == 'accum':
        return buffer_leaf(v[1])
    if v[0] == 'bin' and v[1] == '+':
        return buffer_leaf(v[2]) or buffer_leaf(v[3])
    if buffer_copy(v) is not None:
        return buffer_leaf(buffer_copy(v))
    if v[0] == 'mcall' and v[2] in ('ljust',) and v[3]:
        return buffer_leaf(v[1])
    return None


def classify_read(raw):
    """What a bound buffer is with respect to the file: ('whole', '') for `f.read()` / `f.read(-1)` / `f.read(None)` /
    `path.read_bytes()` (possibly copied into bytes / bytearray / memoryview); ('capped', text) for `f.read(n)`; ('stripped', method)
    for x.rstrip(..) / strip / lstrip / removesuffix / removeprefix of a read; ('slice', text) for a slice of what was read;
    (None, why) for anything else."""
    v = strip(raw)
    while buffer_copy_of_read(v) is not None:
        v = strip(buffer_copy_of_read(v))
    if v[0] == 'slice':
        return 'slice', show(v)[:60]
    if v[0] != 'mcall':
        return None, 'the firmware buffer is not the result of a read call: {}'.format(show(v)[:60])
    meth, args, kwargs = v[2], v[3], v[4] if len(v) > 4 else ()
    if meth in ('rstrip', 'strip', 'lstrip', 'removesuffix', 'removeprefix') and strip(v[1])[0] == 'mcall' and strip(v[1])[2] in ('read', 'read_bytes'):
        return 'stripped', meth
    if meth == 'read_bytes' and not args:
        return 'whole', ''
    if meth == 'read':
        if kwargs:
            return None, 'read() with keyword arguments'
        if not args:
            return 'whole', ''
        if len(args) == 1 and is_const(args[0]) and (args[0][1] is None or (isinstance(args[0][1], int) and args[0][1] < 0)):
            return 'whole', ''
        if len(args) == 1:
            return 'capped', show(v)[-60:]
    return None, 'the firmware buffer comes from {}()'.format(meth)


def whole_file_read(raw):
    """Is the value the image length is taken from the whole content of the file?  (True, '') ; (False, why) for a read that is
    capped (`f.read(n)`: its length is min(file size, n), so a guard on it says nothing about the file), stripped or sliced;
    (None, why) for anything else."""
    kind, text = classify_read(raw)
    if kind == 'whole':
        return True, ''
    if kind == 'slice':
        return False, 'the firmware buffer is a slice of what was read ({}): the length that is guarded is not the length of the file'.format(text)
    if kind == 'stripped':
        return False, ('the firmware is {}()-ed after reading and the size guard looks at what is left: a file larger than the flash whose tail is stripped '
                       'is accepted, although it is the file that must fit').format(text)
    if kind == 'capped':
        return False, 'the firmware is read with {}: at most that many bytes arrive, so a file larger than that is cut short and its real size is never seen'.format(text)
    return None, text


def flashed_image_is_file(raw):
    """Is the buffer that is padded and written the content of the firmware file?  (True, '') / (False, what it is instead) /
    (None, why it is not known)."""
    kind, text = classify_read(raw)
    if kind == 'whole':
        return True, ''
    if kind == 'slice':
        return False, 'a slice of what was read ({})'.format(text)
    if kind == 'stripped':
        return False, 'what is left of the file after {}(): the bytes taken off are not written, and the zero padding starts where they began'.format(text)
    if kind == 'capped':
        return False, 'at most the first bytes of the file ({})'.format(text)
    return None, text


def buffer_copy_of_read(v):
    """bytes(f.read()) / bytearray(f.read()) / memoryview(f.read()): as long as the file content itself."""
    if v[0] == 'call' and v[1] in BUFFER_COPIES and len(v[2]) == 1 and not v[3] and isinstance(v[2][0], tuple) and v[2][0][0] in ('mcall', 'call'):
        return v[2][0]
    return None


def file_read_of(v):
    """Is the bound value the content of a file (a read call, possibly copied into bytes / bytearray / memoryview)?"""
    if not (isinstance(v, tuple) and v and v[0] == 'res'):
        return False
    x = strip(v)
    while buffer_copy_of_read(x) is not None:
        x = strip(buffer_copy_of_read(x))
    return x[0] == 'mcall' and x[2] in ('read', 'read_bytes', 'readall')


class DivMod:
    """One Euclidean division on a path: a = q*b + r with 0 <= r < b, from `q, r = divmod(a, b)` or `a // b` and `a % b`."""

    def __init__(self, a, b, q, r):
        self.a, self.b, self.q, self.r = a, b, q, r       # symbolic terms (q or r may be None when only one of them is used)
        self.pa = self.pb = None                          # polynomials of a and b
        self.r_zero = None                                # True: the path has r == 0 ; False: r != 0 ; None: not known
        self.r_free = False                               # the branch conditions were read and allow r == 0 as well as some r != 0


class Sym:
    """Polynomial view of the symbolic values of one path."""

    def __init__(self, consts, page_vars=(), raw=None):
        self.consts = consts
        self.page_vars = set(page_vars)     # havoc symbols standing for the page index
        self.page_values = {}               # havoc symbol of a loop variable -> its value as a polynomial in PAGE
        self.var_values = {}                # comprehension variable name -> polynomial
        self.raw = raw                      # the `res` value read from the file: len(raw) is LEN
        self.divmods = []                   # DivMod relations of the path (see PathModel.arith)

    # -- Euclidean divisions -----------------------------------------------------------------------------------------------
    def normal(self, p):
        """p with every dividend a that is a single symbol replaced by q*b + r (and r by 0 where the path has r == 0)."""
        for d in self.divmods:
            if d.pa is None or d.q is None or d.r is None:
                continue
            if len(d.pa.terms) == 1:
                (mono, c), = d.pa.terms.items()
                if len(mono) == 1 and c == 1:
                    p = p.subst(mono[0], Poly.sym(d.q) * d.pb + Poly.sym(d.r))
            if d.r_zero:
                p = p.subst(d.r, Poly.const(0))
        return p

    def mod(self, x, y, v):
        """x % y for polynomials (v: the term itself, returned as an opaque symbol when nothing better is known)."""
        x = self.normal(x)
        rest = {}
        for k, c in x.terms.items():
            if divide(Poly({k: c}), y) is None:
                rest[k] = c
        rest = Poly(rest)
        if rest.is_zero():
            return Poly.const(0)
        for d in self.divmods:
            if d.r is None or d.pb is None or not (d.pb == y):
                continue
            R = Poly.sym(d.r)
            if rest == R:
                return R                                   # 0 <= r < b
            if rest == -R:
                if d.r_zero is False:
                    return y - R                           # 0 < b - r < b
                if d.r_zero:
                    return Poly.const(0)
        return Poly.sym(v)

    def length(self, v):
        """len(v) of a bytes expression."""
        if self.raw is not None and v == self.raw:
            return Poly.sym(LEN)
        if v[0] == 'res':
            leaf = buffer_leaf(v)
            if leaf is not None and leaf is not v and leaf != v:
                inner = v[3]
                while buffer_copy(inner) is not None:
                    inner = buffer_copy(inner)
                return self.length(inner)
            return Poly.sym(('len', v))
        if is_const(v) and isinstance(v[1], (bytes, str)):
            return Poly.const(len(v[1]))
        if v[0] == 'name' and isinstance(self.consts.get(v[1]), (bytes, str)):
            return Poly.const(len(self.consts[v[1]]))
        if v[0] == 'accum':
            init, it, elem, meth = v[1], strip(v[2]), v[3], v[4]
            if it[0] == 'call' and it[1] == 'range' and len(it[2]) == 1:
                return self.length(init) + self.poly(it[2][0]) * self.length(elem)
            raise Undecided('padding loop does not run over range(n): {}'.format(show(it)[:60]))
        if v[0] == 'bin' and v[1] == '+':
            return self.length(v[2]) + self.length(v[3])
        if v[0] == 'bin' and v[1] == '*':
            for a, b in ((v[2], v[3]), (v[3], v[2])):
                ca = self.byte_const(a)
                if ca is not None:
                    return self.poly(b) * Poly.const(len(ca))
        if buffer_copy(v) is not None:
            return self.length(buffer_copy(v))
        if v[0] == 'call' and v[1] in ('bytes', 'bytearray') and len(v[2]) == 1 and not v[3]:
            a = v[2][0]
            if self.byte_const(a) is not None:
                return Poly.const(len(self.byte_const(a)))
            if a[0] in ('list', 'tuple') and not any(e[0] == 'star' for e in a[1]):
                return Poly.const(len(a[1]))
            if a[0] in ('const', 'name', 'bin', 'un', 'unpack') or (a[0] == 'res' and strip(a)[0] in ('const', 'bin', 'un', 'unpack')):
                return self.poly(a)           # bytes(n): n zero bytes
        if v[0] == 'mcall' and v[2] == 'ljust' and 1 <= len(v[3]) <= 2 and not v[4]:
            # x.ljust(n, fill) is max(len(x), n) bytes long: n when n - len(x) is known not to be negative on this path
            have, want = self.length(v[1]), self.poly(v[3][0])
            gap = self.normal(want - have)
            if self.nonneg(gap):
                return want
            if self.nonneg(-gap):
                return have
            raise Undecided('x.ljust(n): whether n exceeds len(x) is not known: n - len(x) = {}'.format(gap))
        raise Undecided('buffer expression outside the padding fragment: {}'.format(show(v)[:80]))

    def nonneg(self, p):
        """Is the polynomial known to be >= 0 on this path?  Constants, r, b - r, and sums of such with non-negative factors."""
        if p.is_zero():
            return True
        if all(k == () for k in p.terms):
            return p.terms[()] >= 0
        for d in self.divmods:
            if d.r is None or d.pb is None:
                continue
            R = Poly.sym(d.r)
            for q in (R, d.pb - R):
                if p == q:
                    return True
        return False

    def positive(self, p):
        """Is the polynomial known to be > 0 on this path?  Positive constants, b - r of a Euclidean division, r where the path has
        r != 0."""
        if p.terms and all(k == () for k in p.terms):
            return p.terms[()] > 0
        for d in self.divmods:
            if d.r is None or d.pb is None:
                continue
            R = Poly.sym(d.r)
            if p == d.pb - R or (d.r_zero is False and p == R):
                return True
        return False

    def byte_const(self, v):
        """bytes value of a byte-string constant (literal or module-level name), else None."""
        if is_const(v) and isinstance(v[1], bytes):
            return v[1]
        if v[0] == 'name' and isinstance(self.consts.get(v[1]), bytes):
            return self.consts[v[1]]
        return None

    def zero_extension(self, v):
        """True if v is its leaf extended only by zero bytes at the end, False if a byte that is not zero is added, None when the
        construction is not understood."""
        if v[0] == 'res':
            leaf = buffer_leaf(v)
            if leaf is not None and leaf != v:
                inner = v[3]
                while buffer_copy(inner) is not None:
                    inner = buffer_copy(inner)
                return self.zero_extension(inner)
            return True
        if v[0] == 'accum':
            return and3(self.zero_extension(v[1]), self.zeros(v[3]))
        if v[0] == 'bin' and v[1] == '+':
            return and3(self.zero_extension(v[2]), self.zeros(v[3]))
        if buffer_copy(v) is not None:
            return self.zero_extension(buffer_copy(v))
        if v[0] == 'mcall' and v[2] == 'ljust' and 1 <= len(v[3]) <= 2 and not v[4]:
            fill = self.zeros(v[3][1]) if len(v[3]) == 2 else False       # the default fill byte is a space
            return and3(self.zero_extension(v[1]), fill)
        return None

    def zeros(self, v):
        """True: only zero bytes; False: a constant with another byte in it; None: not understood."""
        c = self.byte_const(v)
        if c is not None:
            return set(c) <= {0}
        if v[0] == 'bin' and v[1] == '*':
            for a, b in ((v[2], v[3]), (v[3], v[2])):
                if self.byte_const(a) is not None:
                    return set(self.byte_const(a)) <= {0}
            return None
        if v[0] == 'bin' and v[1] == '+':
            return and3(self.zeros(v[2]), self.zeros(v[3]))
        if v[0] == 'call' and v[1] in ('bytes', 'bytearray') and len(v[2]) == 1 and not v[3]:
            a = v[2][0]
            if self.byte_const(a) is not None:
                return set(self.byte_const(a)) <= {0}
            if a[0] in ('list', 'tuple'):
                vals = [fold_sym(e, self.consts) for e in a[1]]
                return None if any(not isinstance(x, int) for x in vals) else all(x == 0 for x in vals)
            if buffer_leaf(a) is None and (a[0] in ('const', 'name', 'bin', 'un', 'unpack') or (a[0] == 'res' and strip(a)[0] in ('const', 'bin', 'un', 'unpack'))):
                return True                   # bytes(n)
            return None
        if v[0] == 'accum':
            return and3(self.zeros(v[1]), self.zeros(v[3]))
        return None

    def poly(self, v):
        if v in self.page_values:
            return self.page_values[v]
        if v in self.page_vars:
            return Poly.sym(PAGE)
        if v[0] == 'var' and len(v) == 2 and v[1] in self.var_values:
            return self.var_values[v[1]]
        if is_const(v):
            if isinstance(v[1], int) and not isinstance(v[1], bool):
                return Poly.const(v[1])
            return Poly.sym(v)
        if v[0] == 'res':
            inner = strip(v)
            if is_const(inner) or inner[0] in ('bin', 'name', 'un') or (inner[0] == 'call' and inner[1] in ('len', 'int')):
                return self.poly(inner)
            return Poly.sym(v)
        if v[0] == 'name':
            c = self.consts.get(v[1])
            if isinstance(c, int) and not isinstance(c, bool):
                return Poly.const(c)
            return Poly.sym(v)
        if v[0] == 'bin' and v[1] in ('+', '-', '*'):
            a, b = self.poly(v[2]), self.poly(v[3])
            return a + b if v[1] == '+' else (a - b if v[1] == '-' else a * b)
        if v[0] == 'bin' and v[1] == '<<':
            k = fold_sym(v[3], self.consts)
            if isinstance(k, int) and 0 <= k < 64:
                return self.poly(v[2]) * Poly.const(1 << k)
        if v[0] == 'bin' and v[1] in ('//', '%'):
            for d in self.divmods:
                if v == d.q or v == d.r:
                    return Poly.sym(v)
            x, y = self.poly(v[2]), self.poly(v[3])
            if v[1] == '//':
                q = divide(self.normal(x), y)
                return q if q is not None else Poly.sym(v)
            return self.mod(x, y, v)
        if v[0] == 'un' and v[1] == '-':
            return -self.poly(v[2])
        if v[0] == 'un' and v[1] == '+':
            return self.poly(v[2])
        if v[0] == 'call' and v[1] == 'len' and len(v[2]) == 1:
            try:
                return self.length(v[2][0])
            except Undecided:
                return Poly.sym(v)
        if v[0] == 'call' and v[1] == 'int' and len(v[2]) == 1 and not v[3]:
            return self.poly(v[2][0])
        return Poly.sym(v)

    def gt(self, test):
        """A comparison between integer expressions as P > 0; Poly or None."""
        if test[0] == 'res':
            return self.gt(test[3])
        if test[0] == 'un' and test[1] == 'not':
            inner = strip(test[2])
            if inner[0] == 'cmp' and inner[1] in ('<', '<=', '>', '>='):
                neg = {'<': '>=', '<=': '>', '>': '<=', '>=': '<'}[inner[1]]
                return self.gt(('cmp', neg, inner[2], inner[3]))
            return None
        if test[0] != 'cmp' or test[1] not in ('<', '<=', '>', '>='):
            return None
        a, b = self.poly(test[2]), self.poly(test[3])
        return {'>': a - b, '>=': a - b + Poly.const(1), '<': b - a, '<=': b - a + Poly.const(1)}[test[1]]


def and3(a, b):
    """Three-valued and: False wins, then None."""
    if a is False or b is False:
        return False
    if a is None or b is None:
        return None
    return True


def split_by(poly, sym):
    """poly = A + sym*B (+ higher): returns (A, B, has_higher)."""
    a, b, high = {}, {}, False
    for k, c in poly.terms.items():
        n = sum(1 for s in k if s == sym)
        if n == 0:
            a[k] = c
        elif n == 1:
            kk = list(k)
            kk.remove(sym)
            b[tuple(kk)] = c
        else:
            high = True
    return Poly(a), Poly(b), high


def mentions(poly, sym):
    return any(sym in k for k in poly.terms)


def divide(r, s):
    """q with q*s == r for a polynomial r and a constant or single-monomial s; None if s does not divide r that way."""
    if len(s.terms) != 1:
        return None
    (mono, c), = s.terms.items()
    out = {}
    for k, v in r.terms.items():
        kk = list(k)
        for sym in mono:
            if sym not in kk:
                return None
            kk.remove(sym)
        if v % c:
            return None
        out[tuple(kk)] = v // c
    return Poly(out)


def calls_something(v):
    """Does evaluating the expression call anything but a handful of pure builtins?  Bound results ('res') are values already."""
    if not isinstance(v, tuple) or not v or v[0] in ('res', 'const'):
        return False
    if v[0] in ('mcall', 'callv') or (v[0] == 'call' and v[1] not in ('len', 'range', 'int', 'bytes', 'bytearray', 'min', 'max', 'divmod')):
        return True
    return any(calls_something(x) for x in v[1:])


class PageLoop:
    """A `for` loop that runs once per page: idx (LOOP event), node (ast.For), rng (the range(...) value it runs over), values
    ({havoc symbol of a loop variable: its value as a polynomial in PAGE})."""

    def __init__(self, idx, node, rng, values, terms=None):
        self.idx, self.node, self.rng, self.values = idx, node, rng, values
        self.terms = terms or {}       # havoc symbol of a loop variable -> (element expression of the comprehension, {its variable: polynomial})


class PathModel:
    """Everything the rules need to know about one path of cli_main."""

    def __init__(self, path, consts):
        self.p = path
        self.consts = consts
        self.evs = protocol_events(path, consts)
        self.reqs = [e[3] for e in self.evs if e[0] == 'REQ']
        # enclosing loops of every request: (LOOP / WHILE event idx, node, iterable or None for a while loop)
        self.loops_of = {}
        self.loop_end = {}
        stack = []
        for kind, idx, node, payload in self.evs:
            if kind == 'LOOP':
                stack.append((idx, node, payload))
            elif kind == 'WHILE':
                stack.append((idx, node, None))
            elif kind in ('ENDLOOP', 'ENDWHILE', 'ENDWHILE0'):
                for j in range(len(stack) - 1, -1, -1):
                    if stack[j][1] is node:
                        self.loop_end[stack[j][0]] = idx
                        del stack[j:]
                        break
            elif kind == 'REQ':
                self.loops_of[payload.idx] = list(stack)
        self.sends = [r for r in self.reqs if r.kind in DNLOAD_KINDS or r.kind in ('CLR', 'DNLOAD?')]
        self._raw = False

    def for_loops_of(self, req):
        return [lp for lp in self.loops_of.get(req.idx, []) if lp[2] is not None]

    def raw(self):
        """The bound value read from the firmware file on this path (len() of it is LEN): the leaf of the buffer the data download
        slices when the path gets that far, else the one bound file read of the path; None when there is none (or several)."""
        if self._raw is not False:
            return self._raw
        self._raw = None
        for r in self.reqs:
            if r.kind == 'DATA':
                try:
                    shape = self.data_shape(r, probe=True)
                except Undecided:
                    shape = None
                if shape is not None and not isinstance(shape, str) and shape[4] is not None:
                    self._raw = shape[4]
                break
        if self._raw is None:
            reads = []
            for ev in self.p.events:
                if ev[0] == 'value' and file_read_of(ev[1]) and ev[1] not in reads:
                    reads.append(ev[1])
            if len(reads) == 1:
                self._raw = reads[0]
        return self._raw

    def loop_values(self, node, it, sym):
        """({havoc symbol: polynomial in PAGE}, range value) for the targets of a loop over range(..) / enumerate(..) / a
        comprehension over such, or None."""
        tag = 'loop@{}'.format(node.lineno)
        terms = {}

        def shape(target, it):
            """(values, range value, polynomial of the element bound to `target` or None when target is a pattern)."""
            its = strip(it)
            if unwrap1(its) is not None and loop_range(its) is not None:
                return shape(target, unwrap1(its))
            if its[0] == 'call' and its[1] == 'range' and 1 <= len(its[2]) <= 3 and not its[3] and isinstance(target, ast.Name):
                args = its[2]
                start = sym.poly(args[0]) if len(args) >= 2 else Poly.const(0)
                step = sym.poly(args[2]) if len(args) == 3 else Poly.const(1)
                val = start + Poly.sym(PAGE) * step
                return {('havoc', target.id, tag): val}, its, val
            if (its[0] == 'call' and its[1] == 'enumerate' and 1 <= len(its[2]) <= 2 and all(k == 'start' for k, _ in its[3])
                    and isinstance(target, (ast.Tuple, ast.List)) and len(target.elts) == 2 and isinstance(target.elts[0], ast.Name)):
                first = its[2][1] if len(its[2]) == 2 else dict(its[3]).get('start', C(0))
                inner = shape(target.elts[1], its[2][0])
                if inner is None:
                    return None
                vals = dict(inner[0])
                vals[('havoc', target.elts[0].id, tag)] = Poly.sym(PAGE) + sym.poly(first)
                return vals, inner[1], None
            if its[0] == 'comp' and not its[5] and its[1] in ('ListComp', 'GeneratorExp') and isinstance(target, ast.Name) and ',' not in its[3]:
                # for T in [E(v) for v in X]: T is E(v) for the v of that iteration (E is a pure arithmetic expression or the value
                # is not understood as a polynomial and stays opaque)
                inner = shape(ast.Name(id=its[3], ctx=ast.Store()), its[4])
                if inner is None or inner[2] is None:
                    return None
                sub = Sym(sym.consts, [], sym.raw)
                sub.divmods = sym.divmods
                sub.var_values = {its[3]: inner[2]}
                if calls_something(its[2]):
                    return None                       # the element expression calls something: evaluated once, before the loop
                val = sub.poly(its[2])
                terms[('havoc', target.id, tag)] = (its[2], {its[3]: inner[2]})
                return {('havoc', target.id, tag): val}, inner[1], val
            return None
        got = shape(node.target, it)
        return None if got is None else (got[0], got[1], terms)

    def page_loop(self, req, raw=None):
        """PageLoop of the innermost loop enclosing the request.  None when the request is not inside any loop; no verdict when it
        is inside a loop the rules cannot follow (a `while`, a `for` over something that is not a range / enumerate / comprehension
        over a range)."""
        loops = self.loops_of.get(req.idx, [])
        if not loops:
            return None
        idx, node, it = loops[-1]
        if it is None:
            raise Undecided('the {} request at line {} is issued from a `while` loop: which page an iteration works on is not followed'.format(req.kind, req.line))
        sym = self.base_sym(raw)
        got = self.loop_values(node, it, sym)
        if got is None:
            raise Undecided('the {} request at line {} sits in a loop over {} which is not a range(..) the rules can follow'.format(
                req.kind, req.line, show(it)[:80]))
        return PageLoop(idx, node, got[1], got[0], got[2])

    def base_sym(self, raw=None):
        sym = Sym(self.consts, [], raw)
        sym.divmods = path_divmods(self.p, sym)
        return sym

    def sym_for(self, req, raw=None):
        """Polynomial view for a request: the variables of the enclosing page loop stand for their values in terms of PAGE."""
        sym = self.base_sym(raw)
        pl = self.page_loop(req, raw) if req is not None else None
        if pl:
            sym.page_values.update(pl.values)
        return sym

    def trip_count(self, rng, sym):
        """Number of iterations N of range(...) as a polynomial: stop for range(stop), (stop - start) / step when that division is
        exact as polynomials (start + N*step == stop); None otherwise."""
        return range_trips(rng, sym)

    # the data download fixes S, FW and the raw image
    def data_shape(self, req, probe=False):
        """(FW, lo poly, hi poly, S poly, raw) for a DATA request, or a string saying why the payload is positively not a page-sized
        slice; no verdict when the chunk is not followed back to the firmware buffer."""
        def peel(code):
            code = strip(code)
            while buffer_copy(code) is not None or (code[0] == 'call' and code[1] in BUFFER_COPIES and len(code[2]) == 1 and strip(code[2][0])[0] in ('slice', 'havoc')):
                code = strip(code[2][0])
            return code
        code = peel(req.payload)
        var_values = {}
        if code[0] == 'havoc':
            # the chunk is the variable of a loop over a list of chunks written as a comprehension: the element expression, with the
            # comprehension variable standing for its value in that iteration
            pl = self.page_loop(req)
            if pl is not None and code in pl.terms:
                elt, var_values = pl.terms[code]
                code = peel(elt)
        if code[0] != 'slice':
            if buffer_leaf(code) is not None and code[0] in ('res', 'accum', 'bin'):
                return 'the payload {} is the whole buffer, not a page-sized slice of it'.format(show(code)[:60])
            if is_const(code):
                return 'the payload {} is a constant, not a slice of the firmware buffer'.format(show(code)[:60])
            # a chunk that comes out of a loop over something else (a generator of pages, a pre-split list), out of a helper that is
            # not followed, ...
            raise Undecided('the chunk sent by the data download ({}) is not followed back to the firmware buffer'.format(show(code)[:60]))
        if code[4] != C(None):
            step = fold_sym(code[4], self.consts)
            if step != 1:
                if isinstance(step, int):
                    return 'the slice has a step'
                raise Undecided('the slice sent by the data download has a step that is not a constant')
        fw = code[1]
        raw = buffer_leaf(fw)
        if probe:
            return fw, None, None, None, raw
        sym = self.sym_for(req, raw)
        sym.var_values.update(var_values)
        lo = sym.poly(code[2]) if code[2] != C(None) else Poly.const(0)
        if code[3] == C(None):
            if strip(fw)[0] == 'slice':
                raise Undecided('the chunk is a slice of a slice')
            return 'the slice has no upper bound'
        hi = sym.poly(code[3])
        return fw, lo, hi, hi - lo, raw

    def capacity(self, sym, before_idx):
        """[(COND idx, node, pol, CAP poly)] for the size guards (comparisons involving LEN) before event index `before_idx`."""
        out = []
        for kind, idx, node, payload in self.evs:
            if kind == 'COND' and idx < before_idx:
                g = sym.gt(payload[0])
                if g is not None and mentions(g, LEN):
                    out.append((idx, node, payload[1], g))
        return out

    def unread_inequalities(self, sym, before_idx, lengths=False):
        """Branch conditions before `before_idx` that compare sizes the rules cannot relate to the firmware length (an inequality
        whose terms are calls / lookups that are not followed): a size guard may hide in them.  With `lengths` a comparison of
        the length of a bound buffer counts as read."""
        out = []
        for kind, idx, node, payload in self.evs:
            if kind == 'COND' and idx < before_idx:
                g = sym.gt(payload[0])
                if g is None or mentions(g, LEN):
                    continue
                syms = [s_ for k in g.terms for s_ in k]
                if lengths and any(isinstance(s_, tuple) and s_ and s_[0] == 'len' for s_ in syms):
                    continue
                if any(opaque_symbol(s_) for s_ in syms):
                    out.append((idx, node, payload[0]))
        return out

    def gd32_letter(self):
        """Serial-number letter this path is specialised to by an `sn[2] == 'X'` test (or any other test from which the walk learnt
        that sn[2] equals one letter: `sn[2] in ('X',)`, a membership test forked per element), or None."""
        for t, pol, node in self.p.conds:
            t = strip(t)
            if pol and t[0] == 'cmp' and t[1] == '==':
                for x, y in ((t[2], t[3]), (t[3], t[2])):
                    sx = strip(x)
                    if is_const(y) and isinstance(y[1], str) and len(y[1]) == 1 and sx[0] == 'sub' and sx[2] == C(2):
                        return y[1], node
            if pol and t[0] == 'cmp' and t[1] == 'in' and strip(t[2])[0] == 'sub' and strip(t[2])[2] == C(2) and t[3][0] in ('tuple', 'list', 'set') \
                    and len(t[3][1]) == 1 and is_const(t[3][1][0]) and isinstance(t[3][1][0][1], str) and len(t[3][1][0][1]) == 1:
                return t[3][1][0][1], node
        return None


def opaque_symbol(s_):
    """A polynomial symbol whose value the rules do not know anything about: the result of a call / method call / subscript /
    attribute (as opposed to a plain variable such as an unbound `page_size`, a constant, LEN, PAGE or a divmod part)."""
    if not isinstance(s_, tuple) or not s_:
        return False
    if s_ in (LEN, PAGE):
        return False
    t = strip(s_)
    if t[0] in ('call', 'mcall', 'callv', 'sub', 'attr', 'havoc', 'opaque', 'ifexp', 'slice', 'comp', 'var'):
        return not (t[0] == 'call' and t[1] == 'len')
    if t[0] == 'bin':
        return True
    if s_[0] == 'len':
        return False
    return False


def understood(poly, sym, extra=()):
    """Are all symbols of a residue quantities the rules know: LEN, PAGE, the parts of the path's Euclidean divisions, plain
    variables and the symbols in `extra`?  A residue over anything else (the result of a call, a lookup, ...) proves nothing."""
    known = set(extra)
    for d in sym.divmods:
        if d.q is not None and d.r is not None:
            known.update((d.q, d.r))
    for mono in poly.terms:
        for s_ in mono:
            if s_ in known:
                continue
            if opaque_symbol(s_):
                return False
    return True


def table_values(poly, consts):
    """{key: integer value of the polynomial} when its only symbols are lookups TABLE[k] / TABLE.get(k) of one module-level constant
    dict with integer values, all with the same key expression k; (None, None) otherwise.  Returns (values, key expression)."""
    lookups = {}
    for mono in poly.terms:
        for s_ in mono:
            tl = table_lookup(s_, consts) if isinstance(s_, tuple) else None
            if tl is None:
                return None, None
            lookups[s_] = tl
    if not lookups:
        return None, None
    names = {tl[0] for tl in lookups.values()}
    keys = {tl[2] for tl in lookups.values()}
    if len(names) != 1 or len(keys) != 1:
        return None, None
    dct = next(iter(lookups.values()))[1]
    if not all(isinstance(x, int) and not isinstance(x, bool) for x in dct.values()):
        return None, None
    out = {}
    for k_, val in dct.items():
        p = poly
        for s_ in lookups:
            p = p.subst(s_, Poly.const(val))
        if any(m != () for m in p.terms):
            return None, None
        out[k_] = p.terms.get((), 0)
    return out, next(iter(keys))


def table_lookup(v, consts):
    """(dict name, dict, key value) if v is NAME.get(key) / NAME[key] on a module-level constant dict."""
    s = strip(v)
    if s[0] == 'mcall' and s[2] == 'get' and s[1][0] == 'name' and isinstance(consts.get(s[1][1]), dict) and s[3]:
        return s[1][1], consts[s[1][1]], s[3][0]
    if s[0] == 'sub' and s[1][0] == 'name' and isinstance(consts.get(s[1][1]), dict):
        return s[1][1], consts[s[1][1]], s[2]
    return None
