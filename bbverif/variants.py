"""Self-test variants: text edits of the analysed sources.  BREAKING variants change behaviour so that the named
properties are violated (while the file still compiles); PRESERVING variants change the text but not the behaviour
and must leave every listed check silent."""

A = 'bronzebeard/asm.py'
D = 'bronzebeard/dfu.py'
R = 'docs/instruction_reference.rst'

BREAKING = [
    # ---- C01 --------------------------------------------------------------------------------------------------
    ('c01-btype-swap-bits', ['C01'], [(A, "    code |= imm_11 << 7\n    code |= imm_4_1 << 8\n    code |= funct3 << 12\n    code |= rs1 << 15\n    code |= rs2 << 20\n    code |= imm_10_5 << 25\n    code |= imm_12 << 31",
                                       "    code |= imm_12 << 7\n    code |= imm_4_1 << 8\n    code |= funct3 << 12\n    code |= rs1 << 15\n    code |= rs2 << 20\n    code |= imm_10_5 << 25\n    code |= imm_11 << 31")]),
    ('c01-itype-mask-short', ['C01'], [(A, "    imm = c_uint32(imm).value & 0b111111111111\n\n    code = 0\n    code |= opcode\n    code |= rd << 7\n    code |= funct3 << 12\n    code |= rs1 << 15\n    code |= imm << 20\n\n    return code\n\n\n# i-type variation",
                                        "    imm = c_uint32(imm).value & 0b11111111111\n\n    code = 0\n    code |= opcode\n    code |= rd << 7\n    code |= funct3 << 12\n    code |= rs1 << 15\n    code |= imm << 20\n\n    return code\n\n\n# i-type variation")]),
    ('c01-rtype-rs1-shift', ['C01'], [(A, "    code |= rs1 << 15\n    code |= rs2 << 20\n    code |= funct7 << 25", "    code |= rs1 << 14\n    code |= rs2 << 20\n    code |= funct7 << 25")]),
    ('c01-bltu-funct3', ['C01'], [(A, "BLTU       = partial(b_type,   opcode=0b1100011, funct3=0b110)", "BLTU       = partial(b_type,   opcode=0b1100011, funct3=0b100)")]),
    ('c01-jtype-drop-even', ['C01', 'C06'], [(A, "    if imm % 2 != 0:\n        raise ValueError('20-bit MO2 immediate must be a muliple of 2: {}'.format(imm))\n", "")]),
    ('c01-stype-args-order', ['C01'], [(A, "        return [self.rs1, self.rs2, self.imm]\n\n\nclass BTypeInstruction", "        return [self.rs2, self.rs1, self.imm]\n\n\nclass BTypeInstruction")]),
    ('c01-reg-s10', ['C01', 'C13'], [(A, "'s10':  26,", "'s10':  27,")]),
    ('c01-pack-big-endian', ['C01'], [(A, "            fmt = '<I'", "            fmt = '>I'")]),
    ('c01-jtype-bit-scatter', ['C01'], [(A, "    imm_19_12 = (imm >> 11) & 0b11111111\n    imm_11 = (imm >> 10) & 0b1", "    imm_19_12 = (imm >> 12) & 0b11111111\n    imm_11 = (imm >> 10) & 0b1")]),
    ('c01-amo-aq-rl-swap', ['C01'], [(A, "funct7 = funct5 << 2 | aq << 1 | rl", "funct7 = funct5 << 2 | rl << 1 | aq")]),
    ('c01-fence-swap', ['C01'], [(A, "imm = (fm << 8) | (pred << 4) | succ", "imm = (fm << 8) | (succ << 4) | pred")]),
    ('c01-parse-s-paren', ['C01', 'C13'], [(A, "            name, rs2, offset, _, rs1, _ = tokens\n            imm = [offset]\n        else:\n            name, rs1, rs2, *imm = tokens\n        name = name.lower()\n        imm = parse_immediate(imm, line)\n        return STypeInstruction",
                                              "            name, rs1, offset, _, rs2, _ = tokens\n            imm = [offset]\n        else:\n            name, rs1, rs2, *imm = tokens\n        name = name.lower()\n        imm = parse_immediate(imm, line)\n        return STypeInstruction")]),
    ('c01-itype-ctor-swap', ['C01'], [(A, "        return ITypeInstruction(line, name, rd, rs1, imm)", "        return ITypeInstruction(line, name, rs1, rd, imm)")]),
    ('c01-utype-init-order', ['C01'], [(A, "class UTypeInstruction(Instruction):\n\n    def __init__(self, line, name, rd, imm):\n        super().__init__(line)\n        self.name = name\n        self.rd = rd\n        self.imm = imm",
                                         "class UTypeInstruction(Instruction):\n\n    def __init__(self, line, name, rd, imm):\n        super().__init__(line)\n        self.name = name\n        self.imm = imm\n        self.rd = rd")]),
    ('c01-mulh-funct7', ['C01'], [(A, "MULH       = partial(r_type,   opcode=0b0110011, funct3=0b001, funct7=0b0000001)", "MULH       = partial(r_type,   opcode=0b0110011, funct3=0b001, funct7=0b0000000)")]),
    ('c01-lrw-funct5', ['C01'], [(A, "funct5=0b00010, rs2=0)", "funct5=0b00011, rs2=0)")]),
    ('c01-itype-bound-loose', ['C01', 'C06'], [(A, "    if imm < -0x800 or imm > 0x7ff:\n        raise ValueError('12-bit immediate must be between -0x800 (-2048) and 0x7ff (2047): {}'.format(imm))\n\n    imm = c_uint32(imm).value & 0b111111111111\n\n    code = 0\n    code |= opcode\n    code |= rd << 7",
                                                 "    if imm < -0x800 or imm > 0xfff:\n        raise ValueError('12-bit immediate must be between -0x800 (-2048) and 0x7ff (2047): {}'.format(imm))\n\n    imm = c_uint32(imm).value & 0b111111111111\n\n    code = 0\n    code |= opcode\n    code |= rd << 7", 0)]),
    ('c01-table-wrong-binding', ['C01'], [(A, "    'sra':        SRA,", "    'sra':        SRL,")]),
    ('c01-amo-kw-swap', ['C01'], [(A, "code = encode_func(*args, aq=aq, rl=rl)", "code = encode_func(*args, aq=rl, rl=aq)")]),
    # ---- C02 / C06 --------------------------------------------------------------------------------------------
    ('c02-cj-scatter', ['C02'], [(A, "    code |= imm_10 << 8\n    code |= imm_9_8 << 9", "    code |= imm_10 << 9\n    code |= imm_9_8 << 7")]),
    ('c02-drop-constraint', ['C02', 'C06'], [(A, "C_LUI      = partial(ciu_type, opcode=0b01, funct3=0b011, cs=[RegRdRs1NotZero, RegRdRs1NotTwo, ImmNotZero])", "C_LUI      = partial(ciu_type, opcode=0b01, funct3=0b011, cs=[RegRdRs1NotZero, ImmNotZero])")]),
    ('c02-creg-offbyone', ['C02', 'C06'], [(A, "        if reg < 8 or reg > 15:", "        if reg < 8 or reg > 16:")]),
    ('c02-creg-no-sub', ['C02'], [(A, "        reg -= 8\n", "        pass\n")]),
    ('c02-cbeqz-unguarded', ['C02', 'C06', 'C04'], [(A, "    if imm < -256 or imm > 255:\n        raise ValueError('8-bit MO2 immediate must be between -0x100 (-256) and 0xff (255): {}'.format(imm))\n    if imm % 2 != 0:\n        raise ValueError('8-bit MO2 immediate must be a multiple of 2: {}'.format(imm))\n", "")]),
    ('c02-shamt-bit5', ['C02', 'C06'], [(A, "cs=[ImmNotZero, ShamtBit5Zero])", "cs=[ImmNotZero])", 0)]),
    ('c02-cswsp-funct3', ['C02'], [(A, "C_SWSP     = partial(css_type, opcode=0b10, funct3=0b110)", "C_SWSP     = partial(css_type, opcode=0b10, funct3=0b111)")]),
    ('c02-caddi4spn-lo', ['C02', 'C06'], [(A, "    if imm < 0 or imm > 1023:\n       raise", "    if imm < 0 or imm > 1027:\n       raise")]),
    ('c02-pack-h', ['C02'], [(A, "            fmt = '<H'", "            fmt = '<h'")]),
    ('c02-cl-parse-paren', ['C02', 'C13'], [(A, "            name, rd, offset, _, rs1, _ = tokens\n            imm = [offset]\n        else:\n            name, rd, rs1, *imm = tokens\n        name = name.lower()\n        imm = parse_immediate(imm, line)\n        return CLTypeInstruction",
                                              "            name, rs1, offset, _, rd, _ = tokens\n            imm = [offset]\n        else:\n            name, rd, rs1, *imm = tokens\n        name = name.lower()\n        imm = parse_immediate(imm, line)\n        return CLTypeInstruction")]),
    ('c06-btype-bound-tight', ['C06'], [(A, "    if imm < -0x1000 or imm > 0x0fff:", "    if imm < -0x1000 or imm >= 0x0ffe:")]),
    ('c06-guard-and', ['C06', 'C01'], [(A, "    if imm < -0x100000 or imm > 0x0fffff:", "    if imm < -0x100000 and imm > 0x0fffff:")]),
    ('c06-utype-window', ['C06'], [(A, "    if imm >= 0x80000 and imm <= 0xfffff:", "    if imm >= 0x80000 and imm <= 0x1fffff:")]),
    ('c06-guard-after-mask', ['C06', 'C01'], [(A, "    if imm < -0x800 or imm > 0x7ff:\n        raise ValueError('12-bit immediate must be between -0x800 (-2048) and 0x7ff (2047): {}'.format(imm))\n\n    imm = c_uint32(imm).value & 0b111111111111\n\n    imm_11_5",
                                                "    imm = c_uint32(imm).value & 0b111111111111\n\n    if imm < -0x800 or imm > 0x7ff:\n        raise ValueError('12-bit immediate must be between -0x800 (-2048) and 0x7ff (2047): {}'.format(imm))\n\n    imm_11_5")]),
    ('c06-fence-range', ['C06'], [(A, "    if pred < 0b0000 or pred > 0b1111:", "    if pred < 0b0000 or pred > 0b11111:")]),
    ('c06-ciu-window', ['C06', 'C02'], [(A, "    if imm >= 0xfffe0 and imm <= 0xfffff:", "    if imm >= 0xffff0 and imm <= 0xfffff:")]),
    ('c06-cia-mult', ['C06', 'C02'], [(A, "    if imm % 16 != 0:", "    if imm % 8 != 0:")]),
    # ---- C07 --------------------------------------------------------------------------------------------------
    ('c07-hi-bit', ['C07'], [(A, "    if imm & 0x800:\n        imm += 2**12", "    if imm & 0x400:\n        imm += 2**12")]),
    ('c07-hi-mask', ['C07'], [(A, "return sign_extend((imm >> 12) & 0x000fffff, 20)", "return sign_extend((imm >> 12) & 0x0007ffff, 20)")]),
    ('c07-signext-bits', ['C07'], [(A, "    sign_bit = 1 << (bits - 1)", "    sign_bit = 1 << bits")]),
    ('c07-lo-mask', ['C07'], [(A, "return sign_extend(imm & 0x00000fff, 12)", "return sign_extend(imm & 0x000007ff, 12)")]),
    ('c07-lo-width', ['C07'], [(A, "return sign_extend(imm & 0x00000fff, 12)", "return sign_extend(imm & 0x00001fff, 13)")]),
    ('c07-no-carry', ['C07'], [(A, "    if imm & 0x800:\n        imm += 2**12\n", "")]),
    ('c07-carry-13', ['C07'], [(A, "        imm += 2**12", "        imm += 2**13")]),
    ('c07-parse-swap', ['C07'], [(A, "        return Hi(parse_immediate(imm, line))", "        return Lo(parse_immediate(imm, line))")]),
    ('c07-hi-eval', ['C07'], [(A, "        value = self.expr.eval(position, env, line)\n        return relocate_hi(value)", "        value = self.expr.eval(position, env, line)\n        return relocate_lo(value)")]),
    ('c07-shift-11', ['C07'], [(A, "return sign_extend((imm >> 12) & 0x000fffff, 20)", "return sign_extend((imm >> 11) & 0x000fffff, 20)")]),
    # ---- C09 / C03 layout -------------------------------------------------------------------------------------
    ('c09-seq-table', ['C09'], [(A, "            'longs': 4,\n", "            'longs': 8,\n")]),
    ('c09-align-continue-early', ['C09', 'C03'], [(A, "        shrink = item.size() - padding \n\n        # shrink subsequent labels\n        new_labels = {k: v - shrink for k, v in labels.items() if v > position}\n        labels.update(new_labels)\n\n        # skip if already aligned\n        if padding == 0:\n            continue\n",
                                                    "        shrink = item.size() - padding \n\n        # skip if already aligned\n        if padding == 0:\n            continue\n\n        # shrink subsequent labels\n        new_labels = {k: v - shrink for k, v in labels.items() if v > position}\n        labels.update(new_labels)\n")]),
    ('c09-align-ff', ['C09'], [(A, "b'\\x00' * padding", "b'\\xff' * padding")]),
    ('c09-align-off', ['C09'], [(A, "        if padding == self.alignment:\n            return 0", "        if padding == self.alignment:\n            return padding")]),
    ('c09-insert', ['C09'], [(A, "        blob = Blob(item.line, item.value.encode('utf-8'))\n        new_items.append(blob)", "        blob = Blob(item.line, item.value.encode('utf-8'))\n        new_items.insert(0, blob)")]),
    ('c09-shorthand-fmt', ['C09'], [(A, "        'dw': 'I',\n        'dd': 'Q',", "        'dw': 'H',\n        'dd': 'Q',")]),
    ('c09-inst-size', ['C09', 'C03'], [(A, "class CompressedInstruction(Instruction):\n\n    def size(self):\n        return 2", "class CompressedInstruction(Instruction):\n\n    def size(self):\n        return 4")]),
    ('c09-drop-string', ['C09'], [(A, "        blob = Blob(item.line, item.value.encode('utf-8'))\n        new_items.append(blob)", "        blob = Blob(item.line, item.value.encode('utf-8'))\n        if len(blob.data) > 0:\n            new_items.append(blob)")]),
    ('c09-blobs-skip', ['C09'], [(A, "        output.extend(item.data)", "        output.extend(item.data[1:])")]),
    ('c09-pseudo-size', ['C09', 'C03'], [(A, "        if self.name in ['li', 'call', 'tail']:\n            return 8", "        if self.name in ['li', 'call']:\n            return 8")]),
    ('c09-align-at-start', ['C09'], [(A, "        padding = item.resolution_size(position)", "        padding = item.resolution_size(position + 1)")]),
    ('c09-labels-late', ['C09', 'C03'], [(A, "        blob = Blob(item.line, code)\n        new_items.append(blob)", "        blob = Blob(item.line, code)\n        new_items.append(blob)\n        new_items.append(Blob(item.line, b''  + bytes(0) + b'\\x00'))")]),
    ('c03-shrink-4', ['C03', 'C09'], [(A, "new_labels = {k: v - 2 for k, v in labels.items() if v > position}", "new_labels = {k: v - 4 for k, v in labels.items() if v > position}")]),
    ('c03-shrink-ge', ['C03'], [(A, "new_labels = {k: v - 2 for k, v in labels.items() if v > position}", "new_labels = {k: v - 2 for k, v in labels.items() if v >= position}")]),
    ('c03-pos-before-shrink', ['C03'], [(A, "            new_labels = {k: v - 2 for k, v in labels.items() if v > position}\n            labels.update(new_labels)\n\n            # add compressed inst to items and break the search loop\n            position += inst.size()",
                                          "            position += inst.size()\n            new_labels = {k: v - 2 for k, v in labels.items() if v > position}\n            labels.update(new_labels)\n\n            # add compressed inst to items and break the search loop")]),
    ('c03-li-no-shrink', ['C03', 'C09'], [(A, "                inst = ITypeInstruction(item.line, 'addi', rd=rd, rs1='x0', imm=Lo(imm))\n                # shrink all subsequent labels by 4\n                new_labels = {k: v - 4 for k, v in labels.items() if v > position}\n                labels.update(new_labels)",
                                               "                inst = ITypeInstruction(item.line, 'addi', rd=rd, rs1='x0', imm=Lo(imm))")]),
    # ---- C03 / C08 -----------------------------------------------------------------------------------------------
    ('c03-offset-sign', ['C03', 'C08'], [(A, "        dest = env[self.reference]\n        return dest - position", "        dest = env[self.reference]\n        return position - dest")]),
    ('c03-eval-after-advance', ['C03', 'C08'], [(A, "        imm = eval_immediate(item, position, env)", "        imm = eval_immediate(item, position + item.size(), env)")]),
    ('c03-rebind-labels', ['C03'], [(A, "def resolve_aligns(items, labels):\n    position = 0", "def resolve_aligns(items, labels):\n    labels = dict(labels)\n    position = 0")]),
    ('c03-near-call-lo', ['C03', 'C05', 'C07'], [(A, "inst = JTypeInstruction(item.line, 'jal', rd='x1', imm=imm)", "inst = JTypeInstruction(item.line, 'jal', rd='x1', imm=Lo(imm))", 1)]),
    # (since fix 075cc1d ImmEquals no longer goes through eval_immediate; the predicate that decides c.jr / c.jalr evaluating
    #  against the live label table again is the reverse of that fix)
    ('c03-pred-raw-eval', ['C03', 'C04'], [(A, "            if not isinstance(i.imm, Arithmetic):\n                return False\n            try:\n                imm = i.imm.eval(p, constants, i.line)\n            except AssemblerError:\n                return False\n            return imm == value",
                                             "            imm = i.imm.eval(p, e, i.line)\n            return imm == value")]),
    ('c03-auipc-post-adjust', ['C03'], [(A, "    if getattr(item, 'is_auipc_jump', False):\n        position = position - 4\n    return item.imm.eval(position, env, item.line)", "    value = item.imm.eval(position, env, item.line)\n    if getattr(item, 'is_auipc_jump', False):\n        value = value + 4\n    return value")]),
    ('c03-auipc-wrong-origin', ['C03'], [(A, "        position = position - 4\n    return item.imm.eval", "        position = position - 2\n    return item.imm.eval")]),
    ('c03-aligns-late', ['C03', 'C08'], [(A, "    items = resolve_aligns(items, labels)\n    items = resolve_immediates(items, constants, labels)", "    items = resolve_immediates(items, constants, labels)\n    items = resolve_aligns(items, labels)")]),
    ('c03-label-after-advance', ['C03'], [(A, "        labels[item.name] = position", "        labels[item.name] = position + 4")]),
    ('c03-parse-branch-raw', ['C03'], [(A, "            # behavior is \"offset\" for branches to labels\n            imm = ['%offset', reference]", "            # behavior is \"offset\" for branches to labels\n            imm = [reference]")]),
    ('c03-call-hi-lo-mismatch', ['C03', 'C07'], [(A, "inst = ITypeInstruction(item.line, 'jalr', rd='x1', rs1='x1', imm=Lo(imm), is_auipc_jump=True)", "inst = ITypeInstruction(item.line, 'jalr', rd='x1', rs1='x6', imm=Lo(imm), is_auipc_jump=True)")]),
    ('c03-position-eval-base', ['C03', 'C08'], [(A, "        return base + dest", "        return base - dest")]),
    ('c03-call-guard-wide', ['C03'], [(A, "            if value >= (-2**20) and value <= (2**20 - 1):\n                inst = JTypeInstruction(item.line, 'jal', rd='x1'", "            if value >= (-2**21) and value <= (2**21 - 1):\n                inst = JTypeInstruction(item.line, 'jal', rd='x1'")]),
    # ---- C08 --------------------------------------------------------------------------------------------------
    ('c08-bake-in-pseudo', ['C08'], [(A, "                inst = ITypeInstruction(item.line, 'addi', rd=rd, rs1='x0', imm=Lo(imm))\n                # shrink", "                inst = ITypeInstruction(item.line, 'addi', rd=rd, rs1='x0', imm=value)\n                # shrink")]),
    ('c08-env-order', ['C08'], [(A, "        # resolve the immediate field\n        env = ChainMap(constants, labels)", "        # resolve the immediate field\n        env = ChainMap(labels, constants)")]),
    ('c08-pack-field', ['C08'], [(A, "class Pack(Item):\n\n    def __init__(self, line, fmt, imm):\n        super().__init__(line)\n        self.fmt = fmt\n        self.imm = imm", "class Pack(Item):\n\n    def __init__(self, line, fmt, imm):\n        super().__init__(line)\n        self.fmt = fmt\n        self.value = imm")]),
    ('c08-compress-after-imm', ['C08', 'C03'], [(A, "    items = resolve_aligns(items, labels)\n    items = resolve_immediates(items, constants, labels)\n", "    items = resolve_aligns(items, labels)\n    items = resolve_immediates(items, constants, labels)\n    if compress:\n        items = transform_compressible(items, constants, labels)\n")]),
    # ---- C04 / C12 / C20 -----------------------------------------------------------------------------------------
    ('c04-csub-rs1', ['C04'], [(A, "            elif compressed == 'c.sub':\n                inst = CATypeInstruction(item.line, compressed, item.rd, item.rs2)", "            elif compressed == 'c.sub':\n                inst = CATypeInstruction(item.line, compressed, item.rd, item.rs1)")]),
    ('c04-caddi-no-match', ['C04'], [(A, "            RegNotEquals('rs1', 0),\n            RegsMatch('rd', 'rs1'),\n            ImmNotEquals(0),\n            ImmBetween(-2**5, 2**5 - 1),", "            RegNotEquals('rs1', 0),\n            ImmNotEquals(0),\n            ImmBetween(-2**5, 2**5 - 1),")]),
    ('c04-clw-range', ['C04', 'C12'], [(A, "            RegBetween('rs1', 8, 15),\n            ImmDivisibleBy(4),\n            ImmBetween(0, 2**5 * 4 - 1),\n        ],\n        'c.sw'", "            RegBetween('rs1', 8, 15),\n            ImmDivisibleBy(4),\n            ImmBetween(0, 2**6 * 4 - 1),\n        ],\n        'c.sw'")]),
    ('c04-clwsp-rs1', ['C04'], [(A, "            elif compressed == 'c.lwsp':\n                inst = CITypeInstruction(item.line, compressed, item.rd, item.imm)", "            elif compressed == 'c.lwsp':\n                inst = CITypeInstruction(item.line, compressed, item.rs1, item.imm)")]),
    ('c04-cli-no-rs1', ['C04'], [(A, "        'c.li': [\n            NameEquals('addi'),\n            RegNotEquals('rd', 0),\n            RegEquals('rs1', 0),", "        'c.li': [\n            NameEquals('addi'),\n            RegNotEquals('rd', 0),")]),
    ('c04-cjalr-rd0', ['C04'], [(A, "        'c.jalr': [\n            NameEquals('jalr'),\n            RegEquals('rd', 1),", "        'c.jalr': [\n            NameEquals('jalr'),\n            RegEquals('rd', 0),")]),
    ('c04-cswsp-no-div', ['C04', 'C12'], [(A, "        'c.swsp': [\n            NameEquals('sw'),\n            RegEquals('rs1', 2),\n            ImmDivisibleBy(4),", "        'c.swsp': [\n            NameEquals('sw'),\n            RegEquals('rs1', 2),")]),
    ('c04-factory-between', ['C20'], [(A, "            return reg >= lo and reg <= hi", "            return reg > lo and reg <= hi")]),
    ('c04-factory-imm-ne', ['C04'], [(A, "            return imm is not None and imm != value", "            return imm is not None and imm == value")]),
    ('c04-shrink-wrong-pass-order', ['C04', 'C20'], [(A, "    items = resolve_register_aliases(items, constants)\n    if compress:\n        items = transform_compressible(items, constants, labels)\n    items = resolve_aligns(items, labels)", "    items = resolve_register_aliases(items, constants)\n    items = resolve_aligns(items, labels)")]),
    ('c04-mv-alt-wrong', ['C04'], [(A, "                inst = CRTypeInstruction(item.line, compressed, item.rd, item.rs1)", "                inst = CRTypeInstruction(item.line, compressed, item.rs1, item.rd)")]),
    ('c04-candi-shamt', ['C12'], [(A, "            elif compressed == 'c.andi':\n                inst = CBTypeInstruction(item.line, compressed, item.rd, item.imm)", "            elif compressed == 'c.andi':\n                inst = CBTypeInstruction(item.line, compressed, item.rd, Arithmetic(item.imm))")]),
    ('c12-region-wide', ['C12', 'C04'], [(A, "        'c.andi': [\n            NameEquals('andi'),\n            RegBetween('rd', 8, 15),\n            RegBetween('rs1', 8, 15),\n            RegsMatch('rd', 'rs1'),\n            ImmBetween(-2**5, 2**5 - 1),", "        'c.andi': [\n            NameEquals('andi'),\n            RegBetween('rd', 8, 15),\n            RegBetween('rs1', 8, 15),\n            RegsMatch('rd', 'rs1'),\n            ImmBetween(-2**5, 2**5),")]),
    ('c12-shamt-raw', ['C12'], [(A, "inst = CITypeInstruction(item.line, compressed, item.rd, Arithmetic(str(lookup_register(item.rs2))))", "inst = CITypeInstruction(item.line, compressed, item.rd, Arithmetic(item.rs2))")]),
    ('c12-clui-rs1', ['C12'], [(A, "                compressed = 'c.lui'\n                inst = CITypeInstruction(item.line, compressed, item.rd, item.imm)", "                compressed = 'c.lui'\n                inst = CITypeInstruction(item.line, compressed, item.rs1, item.imm)")]),
    ('c12-name-not-first', ['C12'], [(A, "        'c.swsp': [\n            NameEquals('sw'),\n            RegEquals('rs1', 2),", "        'c.swsp': [\n            RegEquals('rs1', 2),\n            NameEquals('sw'),")]),
    ('c20-between-tight', ['C20'], [(A, "        'c.li': [\n            NameEquals('addi'),\n            RegNotEquals('rd', 0),\n            RegEquals('rs1', 0),\n            ImmBetween(-2**5, 2**5 - 1),", "        'c.li': [\n            NameEquals('addi'),\n            RegNotEquals('rd', 0),\n            RegEquals('rs1', 0),\n            ImmBetween(-2**5, 2**5 - 2),")]),
    ('c20-reg-tight', ['C20'], [(A, "        'c.sub': [\n            NameEquals('sub'),\n            RegBetween('rd', 8, 15),", "        'c.sub': [\n            NameEquals('sub'),\n            RegBetween('rd', 8, 14),")]),
    ('c20-cswsp-extra', ['C20'], [(A, "        'c.swsp': [\n            NameEquals('sw'),\n            RegEquals('rs1', 2),", "        'c.swsp': [\n            NameEquals('sw'),\n            RegEquals('rs1', 2),\n            RegNotEquals('rs2', 0),")]),
    ('c20-no-second-round', ['C20', 'C04'], [(A, "    items = resolve_register_aliases(items, constants)\n    if compress:\n        items = transform_compressible(items, constants, labels)\n    items = resolve_aligns(items, labels)", "    items = resolve_register_aliases(items, constants)\n    if False:\n        items = transform_compressible(items, constants, labels)\n    items = resolve_aligns(items, labels)")]),
    ('c20-drop-rule', ['C20'], [(A, "        'c.ebreak': [\n            NameEquals('ebreak'),\n        ],\n", "")]),
    ('c20-rule-order', ['C12', 'C04'], [(A, "        'c.mv_alt': [\n            NameEquals('addi'),\n            RegNotEquals('rd', 0),\n            RegNotEquals('rs1', 0),\n            ImmEquals(0),\n        ],\n", ""), (A, "        # this has to be first since it collides with c.addi\n", "        'c.mv_alt': [\n            NameEquals('addi'),\n            RegNotEquals('rd', 0),\n            ImmEquals(0),\n        ],\n        # this has to be first since it collides with c.addi\n")]),
    # ---- C05 --------------------------------------------------------------------------------------------------
    ('c05-sltz', ['C05'], [(A, "inst = RTypeInstruction(item.line, 'slt', rd=rd, rs1=rs, rs2='x0')", "inst = RTypeInstruction(item.line, 'slt', rd=rd, rs1='x0', rs2=rs)")]),
    ('c05-bleu', ['C05'], [(A, "'bgtu': 'bltu', 'bleu': 'bgeu'}", "'bgtu': 'bltu', 'bleu': 'bltu'}")]),
    ('c05-jalr-link', ['C05'], [(A, "            inst = ITypeInstruction(item.line, 'jalr', rd='x1', rs1=rs, imm=Arithmetic('0'))", "            inst = ITypeInstruction(item.line, 'jalr', rd='x0', rs1=rs, imm=Arithmetic('0'))")]),
    ('c05-tail-x5', ['C05'], [(A, "inst = UTypeInstruction(item.line, 'auipc', rd='x6', imm=Hi(imm))", "inst = UTypeInstruction(item.line, 'auipc', rd='x5', imm=Hi(imm))")]),
    ('c05-seqz-0', ['C05'], [(A, "inst = ITypeInstruction(item.line, 'sltiu', rd=rd, rs1=rs, imm=Arithmetic('1'))", "inst = ITypeInstruction(item.line, 'sltiu', rd=rd, rs1=rs, imm=Arithmetic('0'))")]),
    ('c05-not-1', ['C05'], [(A, "imm=Arithmetic('-1'))", "imm=Arithmetic('1'))")]),
    ('c05-bgt-order', ['C05'], [(A, "inst = BTypeInstruction(item.line, names[item.name], rs1=rt, rs2=rs, imm=imm)", "inst = BTypeInstruction(item.line, names[item.name], rs1=rs, rs2=rt, imm=imm)")]),
    ('c05-li-guard', ['C05', 'C03'], [(A, "            if value >= (-2**11) and value <= (2**11 - 1):", "            if value >= (-2**11) and value <= (2**11):")]),
    ('c05-li-no-wrap', ['C05'], [(A, "            value = imm.eval(position, env, item.line)\n            value = c_int32(value).value  # signed imm\n            if value >= (-2**11)", "            value = imm.eval(position, env, item.line)\n            if value >= (-2**11)")]),
    ('c05-li-addi-x0', ['C05', 'C03'], [(A, "                inst = ITypeInstruction(item.line, 'addi', rd=rd, rs1=rd, imm=Lo(imm))", "                inst = ITypeInstruction(item.line, 'addi', rd=rd, rs1='x0', imm=Lo(imm))")]),
    ('c05-ret-ra', ['C05'], [(A, "            inst = ITypeInstruction(item.line, 'jalr', rd='x0', rs1='x1', imm=Arithmetic('0'))", "            inst = ITypeInstruction(item.line, 'jalr', rd='x0', rs1='x5', imm=Arithmetic('0'))")]),
    ('c05-fence-w', ['C05'], [(A, "inst = FenceInstruction(item.line, 'fence', succ=0b1111, pred=0b1111)", "inst = FenceInstruction(item.line, 'fence', succ=0b0011, pred=0b1111)")]),
    ('c05-j-link', ['C05'], [(A, "            inst = JTypeInstruction(item.line, 'jal', rd='x0', imm=imm)\n        elif item.name == 'jal':", "            inst = JTypeInstruction(item.line, 'jal', rd='x1', imm=imm)\n        elif item.name == 'jal':")]),
    ('c05-pseudo-set-missing', ['C05'], [(A, "    'sgtz',\n\n    'beqz',", "    'beqz',")]),
    ('c05-jal-route', ['C05'], [(A, "        # check for jal PI\n        if len(tokens) == 2:", "        # check for jal PI\n        if len(tokens) == 1:")]),
    ('c05-blez-swap', ['C05'], [(A, "inst = BTypeInstruction(item.line, names[item.name], rs1='x0', rs2=rs, imm=imm)", "inst = BTypeInstruction(item.line, names[item.name], rs1=rs, rs2='x0', imm=imm)")]),
    ('c05-neg-operand', ['C05'], [(A, "inst = RTypeInstruction(item.line, 'sub', rd=rd, rs1='x0', rs2=rs)", "inst = RTypeInstruction(item.line, 'sub', rd=rd, rs1='x0', rs2=rd)")]),
    ('c05-doc-drift', ['C05'], [(R, ":code:`sltz rd, rs`          :code:`slt rd, rs, x0`", ":code:`sltz rd, rs`          :code:`slt rd, x0, rs`")]),
    # ---- C18 / C19 (dfu.py) -------------------------------------------------------------------------------------
    ('c18-drop-poll-loop', ['C18'], [(D, "        # poll state til not busy\n        status, state = dfu_get_status(dev)\n        while state == STATE_DFU_DNBUSY:\n            status, state = dfu_get_status(dev)\n\n        # write the code chunk", "        # write the code chunk")]),
    ('c18-wvalue-0', ['C18'], [(D, "        wValue=2,  # transaction = 2 for no address offset", "        wValue=0,")]),
    ('c18-pack-bh', ['C18'], [(D, "    request = struct.pack('<BI', DFUSE_CMD_ERASE_PAGE, address)", "    request = struct.pack('<BH', DFUSE_CMD_ERASE_PAGE, address)")]),
    ('c18-range-short', ['C18'], [(D, "    # write flash\n    for page in range(pages):", "    # write flash\n    for page in range(pages - 1):")]),
    ('c18-code-start', ['C18'], [(D, "        code_start = page * page_size", "        code_start = page * (page_size - 1)")]),
    ('c18-no-sleep', ['C18'], [(D, "    time.sleep(poll_timeout)\n", "")]),
    ('c18-sleep-pt0', ['C18'], [(D, "    poll_timeout = pt2 << 16 | pt1 << 8 | pt0", "    poll_timeout = pt0")]),
    ('c18-busy-const', ['C18'], [(D, "STATE_DFU_DNBUSY = 4", "STATE_DFU_DNBUSY = 5")]),
    ('c18-erase-addr', ['C18'], [(D, "        start = 0x08000000\n        addr = start + (page * page_size)", "        start = 0x08000000\n        addr = start + (page * page_size) + 4")]),
    ('c18-padding-off', ['C18'], [(D, "        for _ in range(page_size - rem):", "        for _ in range(page_size - rem - 1):")]),
    ('c18-pad-ff', ['C18'], [(D, "            firmware += b'\\x00'", "            firmware += b'\\xff'")]),
    ('c18-pages-no-inc', ['C18'], [(D, "    if rem != 0:\n        pages += 1\n", "    if rem != 0:\n")]),
    ('c18-gd32-table', ['C18'], [(D, "        elif sn[2] == '8':\n            page_count = 64", "        elif sn[2] == '8':\n            page_count = 128")]),
    ('c18-status-state-swap', ['C18'], [(D, "    return status, state", "    return state, status")]),
    ('c18-poll-loop-cond', ['C18'], [(D, "        while state not in [STATE_DFU_DNLOAD_IDLE, STATE_DFU_ERROR]:", "        while state not in [STATE_DFU_DNLOAD_IDLE, STATE_DFU_ERROR, STATE_DFU_DNBUSY]:")]),
    ('c18-setaddr-cmd', ['C18'], [(D, "DFUSE_CMD_SET_ADDRESS = 0x21", "DFUSE_CMD_SET_ADDRESS = 0x22")]),
    ('c18-write-before-erase', ['C18'], [(D, "    # erase flash\n    for page in range(pages):\n        start = 0x08000000\n        addr = start + (page * page_size)\n\n        # print progress and erase page\n        print('\\rerasing: 0x{:08x}'.format(addr), end='', flush=True)\n        dfuse_erase_page(dev, addr)",
                                            "    # erase flash\n    for page in range(pages):\n        start = 0x08000000\n        addr = start + (page * page_size)\n\n        # print progress and erase page\n        print('\\rerasing: 0x{:08x}'.format(addr), end='', flush=True)\n        dfuse_download(dev, firmware[page * page_size:page * page_size + page_size])\n        dfuse_erase_page(dev, addr)")]),
    ('c19-guard-ge', ['C19', 'C18'], [(D, "    if len(firmware) > (page_size * page_count):", "    if len(firmware) >= (page_size * page_count):")]),
    ('c19-guard-late', ['C19', 'C18'], [(D, "    # ensure firmware will fit\n    if len(firmware) > (page_size * page_count):\n        raise SystemExit('Firmware file is too large for device')\n", ""), (D, "    print()\n\n    # write flash", "    print()\n    if len(firmware) > (page_size * page_count):\n        raise SystemExit('Firmware file is too large for device')\n\n    # write flash")]),
    ('c19-status-pass', ['C19'], [(D, "            print()\n            raise SystemExit('error erasing page: {}'.format(STATUS_DESCRIPTION[status]))", "            print('error erasing page')")]),
    ('c19-exit-0', ['C19'], [(D, "            raise SystemExit('error writing page: {}'.format(STATUS_DESCRIPTION[status]))", "            raise SystemExit(0)")]),
    ('c19-check-removed', ['C19'], [(D, "        if status != STATUS_OK:\n            print()\n            raise SystemExit('error writing page: {}'.format(STATUS_DESCRIPTION[status]))\n", "")]),
    ('c19-check-state', ['C19'], [(D, "        if status != STATUS_OK:\n            print()\n            raise SystemExit('error writing page", "        if state == STATE_DFU_ERROR and False:\n            print()\n            raise SystemExit('error writing page")]),
    ('c19-guard-count', ['C19', 'C18'], [(D, "    if len(firmware) > (page_size * page_count):", "    if len(firmware) > (page_size * (page_count + 1)):")]),
    # ---- C17 --------------------------------------------------------------------------------------------------
    ('c17-open-before-asm', ['C17'], [(A, "    constants = {}\n    labels = {}\n    try:\n        input_asm = os.path.abspath(args.input_asm)", "    out_bin = open(args.output, 'wb')\n    constants = {}\n    labels = {}\n    try:\n        input_asm = os.path.abspath(args.input_asm)")]),
    ('c17-write-len', ['C17'], [(A, "        out_bin.write(binary)", "        out_bin.write(bytes(len(binary)))")]),
    ('c17-text-mode', ['C17'], [(A, "    with open(args.output, 'wb') as out_bin:", "    with open(args.output, 'w') as out_bin:")]),
    ('c17-exit-0', ['C17'], [(A, "    except AssemblerError as e:\n        raise SystemExit(e)", "    except AssemblerError as e:\n        print(e)\n        raise SystemExit(0)")]),
    ('c17-labels-fresh', ['C17'], [(A, "        lines = ['{} 0x{:08x}\\n'.format(k, v) for k, v in labels.items()]", "        lines = ['{} 0x{:08x}\\n'.format(k, v) for k, v in {}.items()]")]),
    ('c17-hex-inside-with', ['C17'], [(A, "    with open(args.output, 'wb') as out_bin:\n        out_bin.write(binary)\n", "    with open(args.output, 'wb') as out_bin:\n        out_bin.write(binary)\n        if args.hex_offset:\n            from intelhex import bin2hex\n            bin2hex(args.output, args.output + '.hex', hex_offset)\n")]),
    ('c17-hex-late-validate', ['C17'], [(A, "        bin2hex(args.output, args.output + '.hex', hex_offset)", "        if hex_offset < 0:\n            raise SystemExit('negative hex offset')\n        bin2hex(args.output, args.output + '.hex', hex_offset)")]),
    ('c17-swallow', ['C17'], [(A, "    except AssemblerError as e:\n        raise SystemExit(e)", "    except AssemblerError as e:\n        print(e)\n        binary = b''")]),
    ('c17-compress-wiring', ['C17'], [(A, "labels=labels, compress=args.compress, include_dirs=include_dirs)", "labels=labels, compress=args.verbose, include_dirs=include_dirs)")]),
    ('c17-labels-key-only', ['C17'], [(A, "        lines = ['{} 0x{:08x}\\n'.format(k, v) for k, v in labels.items()]", "        lines = ['{}\\n'.format(k) for k, v in labels.items()]")]),
    ('c17-write-twice', ['C17'], [(A, "        out_bin.write(binary)", "        out_bin.write(binary)\n        out_bin.write(binary)")]),
    # ---- C15 --------------------------------------------------------------------------------------------------
    ('c15-narrow-except', ['C15'], [(A, "        except ValueError as e:\n            raise AssemblerError(str(e), item.line)\n\n        # pack into 2 bytes", "        except KeyError as e:\n            raise AssemblerError(str(e), item.line)\n\n        # pack into 2 bytes")]),
    ('c15-line-none', ['C15'], [(A, "        except ValueError as e:\n            raise AssemblerError(str(e), item.line)\n\n        # pack into 2 bytes", "        except ValueError as e:\n            raise AssemblerError(str(e), None)\n\n        # pack into 2 bytes")]),
    ('c15-raise-valueerror', ['C15'], [(A, "        if not isinstance(item.expr, Arithmetic):\n            s = 'constants only support arithmetic expressions'\n            raise AssemblerError(s, item.line)", "        if not isinstance(item.expr, Arithmetic):\n            s = 'constants only support arithmetic expressions'\n            raise ValueError(s)")]),
    ('c15-blob-none', ['C15'], [(A, "        blob = Blob(item.line, item.value.encode('utf-8'))", "        blob = Blob(None, item.value.encode('utf-8'))")]),
    ('c15-eval-nameerror', ['C15'], [(A, "        except:\n            raise AssemblerError('other error in expr: \"{}\"'.format(self.expr), line)", "        except NameError:\n            raise AssemblerError('other error in expr: \"{}\"'.format(self.expr), line)")]),
    ('c15-line-number', ['C15'], [(A, "        line = Line(path, i, raw_line)", "        line = Line(path, i - 1, raw_line)")]),
    ('c15-enumerate-0', ['C15'], [(A, "    for i, raw_line in enumerate(source.splitlines(), start=1):", "    for i, raw_line in enumerate(source.splitlines()):")]),
    ('c15-compress-no-try', ['C15'], [(A, "        except ValueError as e:\n            raise AssemblerError(str(e), item.line)\n\n        # swap out", "        except KeyError as e:\n            raise AssemblerError(str(e), item.line)\n\n        # swap out")]),
    ('c15-pack-no-try', ['C15'], [(A, "        try:\n            data = struct.pack(item.fmt, item.imm)\n        except struct.error as e:\n            raise AssemblerError('value {} does not fit pack format \"{}\": {}'.format(item.imm, item.fmt, e), item.line)", "        data = struct.pack(item.fmt, item.imm)")]),
    ('c15-pseudo-line', ['C15'], [(A, "            inst = RTypeInstruction(item.line, 'sub', rd=rd, rs1='x0', rs2=rs)", "            inst = RTypeInstruction(None, 'sub', rd=rd, rs1='x0', rs2=rs)")]),
    ('c15-str-no-line', ['C15'], [(A, "        return '{}\\nAssemblerError: {}'.format(self.line, self.message)", "        return 'AssemblerError: {}'.format(self.message)")]),
    ('c15-line-wrong-path', ['C15'], [(A, "        path = path_or_source\n        with open(path) as f:", "        path = os.path.basename(path_or_source)\n        with open(path_or_source) as f:")]),
    ('c15-new-int', ['C15'], [(A, "        blob = Blob(item.line, item.value.encode('utf-8'))", "        blob = Blob(item.line, item.value.encode('utf-8') * int(item.value[:0] or '1', base=0))")]),
    ('c15-immediate-str-line', ['C15'], [(A, "        raise AssemblerError('empty immediate value', line)", "        raise AssemblerError('empty immediate value', str(line))")]),
    # idioms of the abstract-interpretation engine: context managers, closures, dispatch, provenance of the size token
    ('c15-ctx-wrong-type', ['C15'], [(A, 'def log_constant(pass_name, item, value):', 'import contextlib\n\n\n@contextlib.contextmanager\ndef assembler_errors(line, exc_type):\n    try:\n        yield\n    except exc_type as e:\n        raise AssemblerError(str(e), line)\n\n\ndef log_constant(pass_name, item, value):'), (A, '        try:\n            # atomic insts expect aq and rl as kwargs\n            if isinstance(item, ATypeInstruction) or isinstance(item, ALTypeInstruction):\n                *args, aq, rl = item.args()\n                code = encode_func(*args, aq=aq, rl=rl)\n            else:\n                args = item.args()\n                code = encode_func(*args)\n        except ValueError as e:\n            raise AssemblerError(str(e), item.line)\n', '        with assembler_errors(item.line, KeyError):\n            # atomic insts expect aq and rl as kwargs\n            if isinstance(item, (ATypeInstruction, ALTypeInstruction)):\n                *args, aq, rl = item.args()\n                code = encode_func(*args, aq=aq, rl=rl)\n            else:\n                code = encode_func(*item.args())\n')]),
    ('c15-ctx-line-none', ['C15'], [(A, 'def log_constant(pass_name, item, value):', 'import contextlib\n\n\n@contextlib.contextmanager\ndef assembler_errors(line, exc_type):\n    try:\n        yield\n    except exc_type as e:\n        raise AssemblerError(str(e), line)\n\n\ndef log_constant(pass_name, item, value):'), (A, '        try:\n            # atomic insts expect aq and rl as kwargs\n            if isinstance(item, ATypeInstruction) or isinstance(item, ALTypeInstruction):\n                *args, aq, rl = item.args()\n                code = encode_func(*args, aq=aq, rl=rl)\n            else:\n                args = item.args()\n                code = encode_func(*args)\n        except ValueError as e:\n            raise AssemblerError(str(e), item.line)\n', '        with assembler_errors(None, ValueError):\n            # atomic insts expect aq and rl as kwargs\n            if isinstance(item, (ATypeInstruction, ALTypeInstruction)):\n                *args, aq, rl = item.args()\n                code = encode_func(*args, aq=aq, rl=rl)\n            else:\n                code = encode_func(*item.args())\n')]),
    ('c15-ctx-relabel', ['C15'], [(A, 'def log_constant(pass_name, item, value):', 'import contextlib\n\n\n@contextlib.contextmanager\ndef assembler_errors(line, exc_type):\n    try:\n        yield\n    except exc_type as e:\n        raise AssemblerError(str(e), line)\n\n\ndef log_constant(pass_name, item, value):'), (A, '            include_lines = read_lines(include_path, include=True, include_dirs=include_dirs)\n            lines.extend(include_lines)', '            with assembler_errors(line, Exception):\n                include_lines = read_lines(include_path, include=True, include_dirs=include_dirs)\n            lines.extend(include_lines)')]),
    ('c15-closure-blob-none', ['C15'], [(A, "def resolve_strings(items):\n    new_items = []\n    for item in items:\n        if not isinstance(item, String):\n            new_items.append(item)\n            continue\n\n        blob = Blob(item.line, item.value.encode('utf-8'))\n        new_items.append(blob)\n\n        log_conversion('resolve_strings', item, blob)\n\n    return new_items\n", "def convert_items(pass_name, items, item_type, convert):\n    out = []\n    for item in items:\n        if isinstance(item, item_type):\n            new_item = convert(item)\n            out.append(new_item)\n            log_conversion(pass_name, item, new_item)\n        else:\n            out.append(item)\n    return out\n\n\ndef resolve_strings(items):\n    def encode(item):\n        return Blob(None, item.value.encode('utf-8'))\n\n    return convert_items('resolve_strings', items, String, encode)\n")]),
    ('c15-lookup-other-field', ['C15'], [(A, "                inst = CBTypeInstruction(item.line, compressed, item.rd, Arithmetic(str(lookup_register(item.rs2))))\n            elif compressed == 'c.srai':", "                inst = CBTypeInstruction(item.line, compressed, item.rd, Arithmetic(str(lookup_register(item.name))))\n            elif compressed == 'c.srai':")]),
    ('c15-lookup-undominated', ['C15'], [(A, "            RegsMatch('rd', 'rs1'),\n            RegNotEquals('rs2', 0),\n            RegBetween('rs2', 0, 2**5 - 1),\n        ],\n        'c.lwsp': [", "            RegsMatch('rd', 'rs1'),\n        ],\n        'c.lwsp': [")]),
    ('c15-size-token-first', ['C15'], [(A, '        _, path, size = tokens\n        size = int(size, base=0)\n', '        _, size, path = tokens\n        size = int(size, base=0)\n')]),
    ('c15-size-not-appended', ['C15'], [(A, "            line.contents = '{} {}'.format(raw_line, size)", "            line.contents = '{} {}'.format(raw_line, rel_path)")]),
    ('c15-align-int-unguarded', ['C15'], [(A, "        try:\n            alignment = int(alignment, base=0)\n        except ValueError:\n            raise AssemblerError('alignment must be an integer', line)", '        alignment = int(alignment, base=0)')]),
    ('c15-step-table-skips-pass', ['C15'], [(A, '    items = resolve_strings(items)\n    items = resolve_sequences(items)\n', '    for step in (resolve_sequences,):\n        items = step(items)\n')]),
    ('c15-generator-blob-none', ['C15'], [(A, "def resolve_strings(items):\n    new_items = []\n    for item in items:\n        if not isinstance(item, String):\n            new_items.append(item)\n            continue\n\n        blob = Blob(item.line, item.value.encode('utf-8'))\n        new_items.append(blob)\n\n        log_conversion('resolve_strings', item, blob)\n\n    return new_items\n", "def resolve_strings(items):\n    for item in items:\n        if not isinstance(item, String):\n            yield item\n            continue\n\n        blob = Blob(None, item.value.encode('utf-8'))\n        log_conversion('resolve_strings', item, blob)\n        yield blob\n")]),
    ('c15-generator-drops-conversion', ['C15'], [(A, "def resolve_strings(items):\n    new_items = []\n    for item in items:\n        if not isinstance(item, String):\n            new_items.append(item)\n            continue\n\n        blob = Blob(item.line, item.value.encode('utf-8'))\n        new_items.append(blob)\n\n        log_conversion('resolve_strings', item, blob)\n\n    return new_items\n", 'def resolve_strings(items):\n    for item in items:\n        yield item\n')]),
    ('c15-class-ctx-wrong-type', ['C15'], [(A, 'def log_constant(pass_name, item, value):', 'class LineErrors:\n    """re-raise the given low-level errors of the enclosed block as AssemblerErrors of a line"""\n\n    def __init__(self, line, *types):\n        self.line = line\n        self.types = types\n\n    def __enter__(self):\n        return self\n\n    def __exit__(self, exc_type, exc, tb):\n        if exc_type is not None and issubclass(exc_type, self.types):\n            raise AssemblerError(str(exc), self.line) from exc\n        return False\n\n\ndef log_constant(pass_name, item, value):'), (A, '        try:\n            # atomic insts expect aq and rl as kwargs\n            if isinstance(item, ATypeInstruction) or isinstance(item, ALTypeInstruction):\n                *args, aq, rl = item.args()\n                code = encode_func(*args, aq=aq, rl=rl)\n            else:\n                args = item.args()\n                code = encode_func(*args)\n        except ValueError as e:\n            raise AssemblerError(str(e), item.line)\n', '        with LineErrors(item.line, KeyError):\n            # atomic insts expect aq and rl as kwargs\n            if isinstance(item, (ATypeInstruction, ALTypeInstruction)):\n                *args, aq, rl = item.args()\n                code = encode_func(*args, aq=aq, rl=rl)\n            else:\n                code = encode_func(*item.args())\n')]),
    ('c15-class-ctx-no-line', ['C15'], [(A, 'def log_constant(pass_name, item, value):', 'class LineErrors:\n    """re-raise the given low-level errors of the enclosed block as AssemblerErrors of a line"""\n\n    def __init__(self, line, *types):\n        self.line = line\n        self.types = types\n\n    def __enter__(self):\n        return self\n\n    def __exit__(self, exc_type, exc, tb):\n        if exc_type is not None and issubclass(exc_type, self.types):\n            raise AssemblerError(str(exc), None) from exc\n        return False\n\n\ndef log_constant(pass_name, item, value):'), (A, '        try:\n            # atomic insts expect aq and rl as kwargs\n            if isinstance(item, ATypeInstruction) or isinstance(item, ALTypeInstruction):\n                *args, aq, rl = item.args()\n                code = encode_func(*args, aq=aq, rl=rl)\n            else:\n                args = item.args()\n                code = encode_func(*args)\n        except ValueError as e:\n            raise AssemblerError(str(e), item.line)\n', '        with LineErrors(item.line, ValueError):\n            # atomic insts expect aq and rl as kwargs\n            if isinstance(item, (ATypeInstruction, ALTypeInstruction)):\n                *args, aq, rl = item.args()\n                code = encode_func(*args, aq=aq, rl=rl)\n            else:\n                code = encode_func(*item.args())\n')]),
    ('c15-decorator-wrong-type', ['C15'], [(A, 'def resolve_instructions(items):', 'def converts_value_errors(fn):\n    def wrapper(item):\n        try:\n            return fn(item)\n        except KeyError as e:\n            raise AssemblerError(str(e), item.line)\n    return wrapper\n\n\n@converts_value_errors\ndef encode_item(item):\n    encode_func = INSTRUCTIONS[item.name]\n    if isinstance(item, (ATypeInstruction, ALTypeInstruction)):\n        *args, aq, rl = item.args()\n        return encode_func(*args, aq=aq, rl=rl)\n    return encode_func(*item.args())\n\n\ndef resolve_instructions(items):'), (A, '        encode_func = INSTRUCTIONS[item.name]\n        try:\n            # atomic insts expect aq and rl as kwargs\n            if isinstance(item, ATypeInstruction) or isinstance(item, ALTypeInstruction):\n                *args, aq, rl = item.args()\n                code = encode_func(*args, aq=aq, rl=rl)\n            else:\n                args = item.args()\n                code = encode_func(*args)\n        except ValueError as e:\n            raise AssemblerError(str(e), item.line)\n', '        code = encode_item(item)\n')]),
    ('c15-registry-misses-pass', ['C15'], [(A, 'def resolve_strings(items):', 'LATE_PASSES = []\n\n\ndef late_pass(fn):\n    LATE_PASSES.append(fn)\n    return fn\n\n\n@late_pass\ndef resolve_strings(items):'), (A, 'def resolve_sequences(items):', '@late_pass\ndef resolve_sequences(items):'), (A, 'def transform_shorthand_packs(items):', '@late_pass\ndef transform_shorthand_packs(items):'), (A, 'def resolve_include_bytes(items):', '@late_pass\ndef resolve_include_bytes(items):'), (A, '    items = resolve_strings(items)\n    items = resolve_sequences(items)\n    items = transform_shorthand_packs(items)\n    items = resolve_packs(items)\n    items = resolve_include_bytes(items)\n', '    for late in LATE_PASSES:\n        items = late(items)\n')]),
    # white-box round: reshaped handlers, guards that are sufficient, numbering pipelines
    ('c15-handler-filter-wrong-type', ['C15'], [(A, '        except ValueError as e:\n            raise AssemblerError(str(e), item.line)\n\n        # pack into 2 bytes', '        except Exception as e:\n            if not isinstance(e, KeyError):\n                raise\n            raise AssemblerError(str(e), item.line)\n\n        # pack into 2 bytes')]),
    ('c15-is-int-guard-other-value', ['C15'], [(A, "        try:\n            alignment = int(alignment, base=0)\n        except ValueError:\n            raise AssemblerError('alignment must be an integer', line)\n", "        if not is_int(tokens[0] or alignment):\n            raise AssemblerError('alignment must be an integer', line)\n        alignment = int(alignment, base=0)\n")]),
    ('c15-enumerate-list-copy-zero', ['C15'], [(A, '    for i, raw_line in enumerate(source.splitlines(), start=1):\n', '    for i, raw_line in enumerate(list(source.splitlines()), start=0):\n')]),
    ('c15-zip-count-zero', ['C15'], [(A, 'import abc\n', 'import abc\nimport itertools\n'), (A, '    for i, raw_line in enumerate(source.splitlines(), start=1):\n', '    for i, raw_line in zip(itertools.count(0), source.splitlines()):\n')]),
    ('c15-isdigit-guard', ['C15'], [(A, "        try:\n            alignment = int(alignment, base=0)\n        except ValueError:\n            raise AssemblerError('alignment must be an integer', line)\n", "        if alignment.isdigit() and not alignment.startswith('0'):\n            alignment = int(alignment)\n        else:\n            try:\n                alignment = int(alignment, base=0)\n            except ValueError:\n                raise AssemblerError('alignment must be an integer', line)\n")]),
    ('c15-range-index-off-by-one', ['C15'], [(A, '    for i, raw_line in enumerate(source.splitlines(), start=1):\n', '    rows = source.splitlines()\n    for i in range(1, len(rows) + 1):\n        raw_line = rows[i - 1]\n'), (A, '        line = Line(path, i, raw_line)\n', '        line = Line(path, i + 1, raw_line)\n')]),
    ('c15-blobs-any-guard-skips-pass', ['C15'], [(A, "    output = bytearray()\n    for item in items:\n        if not isinstance(item, Blob):\n            raise ValueError('expected only blobs at this point')\n\n        output.extend(item.data)\n", "    if any(not isinstance(item, Blob) for item in items):\n        raise ValueError('expected only blobs at this point')\n\n    output = bytearray()\n    for item in items:\n        output.extend(item.data)\n"), (A, '    items = resolve_strings(items)\n', '')]),
    ('c15-range-guard-one-side', ['C15'], [(A, "        blob = Blob(item.line, data)\n        new_items.append(blob)\n\n        log_conversion('resolve_include_bytes', item, blob)", "        size = item.fsize\n        if size < 0:\n            raise AssemblerError('bad size', item.line)\n        log.info('size field: {}'.format(struct.pack('<I', size).hex()))\n        blob = Blob(item.line, data)\n        new_items.append(blob)\n\n        log_conversion('resolve_include_bytes', item, blob)")]),
    ('c15-none-line-before-opaque-code', ['C15'], [(A, "            raise AssemblerError('alignment must be an integer', line)\n", "            raise AssemblerError('alignment must be an integer', None)\n"), (A, 'def resolve_blobs(items):\n', "def resolve_blobs(items):\n    exec('pass')\n")]),
    # round 7: table lookups with user keys, conversions behind the repository's own predicate, elements read back
    ('c15-sequence-constants-keyerror', ['C15'], [(A, 'def resolve_sequences(items):', 'def resolve_sequences(items, constants):'), (A, '    items = resolve_sequences(items)\n', '    items = resolve_sequences(items, constants)\n'), (A, '        try:\n            values = [int(value, base=0) for value in item.values]\n        except ValueError as e:\n            raise AssemblerError(str(e), item.line)\n', '        try:\n            values = [int(value, base=0) if is_int(value) else constants[value] for value in item.values]\n        except ValueError as e:\n            raise AssemblerError(str(e), item.line)\n')]),
    ('c15-size-is-int-other-arg', ['C15'], [(A, "        if self.name in ['li', 'call', 'tail']:\n            return 8\n", "        if self.name == 'li' and len(self.args) == 2 and is_int(self.args[0]):\n            value = c_int32(int(self.args[1], base=0)).value\n            return 8 if value != value else 8\n        if self.name in ['li', 'call', 'tail']:\n            return 8\n")]),
    ('c15-lookup-before-handler', ['C15'], [(A, '        # check if any set of criteria is all true for this item\n        compressed = None\n', "        if isinstance(item, RTypeInstruction) and item.name == 'slli' and lookup_register(item.rd) == 0:\n            log.debug('shift into x0')\n        # check if any set of criteria is all true for this item\n        compressed = None\n")]),
    ('c15-byte-fastpath-unguarded', ['C15'], [(A, '            try:\n                value = struct.pack(fmt, value)\n', "            if item.name == 'bytes' and value >= 0:\n                data.extend(bytes([value]))\n                continue\n            try:\n                value = struct.pack(fmt, value)\n")]),
    ('c15-error-builder-wrong-attr', ['C15'], [(A, "    def __init__(self, message, line):\n        super().__init__(message)\n        self.message = message\n        self.line = line\n\n    def __str__(self):\n        return '{}\\nAssemblerError: {}'.format(self.line, self.message)\n", "    def __init__(self, message, line):\n        super().__init__(message)\n        self.message = message\n        self.line = line\n\n    def at(self, line):\n        self.where = line\n        return self\n\n    def __str__(self):\n        return '{}\\nAssemblerError: {}'.format(self.line, self.message)\n"), (A, "            raise AssemblerError('alignment must be an integer', line)\n", "            raise AssemblerError('alignment must be an integer', None).at(line)\n")]),
    ('c15-error-no-str-message-only', ['C15'], [(A, "    def __init__(self, message, line):\n        super().__init__(message)\n        self.message = message\n        self.line = line\n\n    def __str__(self):\n        return '{}\\nAssemblerError: {}'.format(self.line, self.message)\n", '    def __init__(self, message, line):\n        super().__init__(message)\n        self.message = message\n        self.line = line\n')]),
    ('c15-error-str-alias-no-line', ['C15'], [(A, "    def __str__(self):\n        return '{}\\nAssemblerError: {}'.format(self.line, self.message)\n", "    def describe(self):\n        return 'AssemblerError: {}'.format(self.message)\n\n    __str__ = describe\n")]),
    ('c15-lines-iter-zero', ['C15'], [(A, '    for i, raw_line in enumerate(source.splitlines(), start=1):\n', '    rows = iter(source.splitlines())\n    for i, raw_line in enumerate(rows, start=0):\n')]),
    ('c15-lines-genexp-filtered', ['C15'], [(A, '    for i, raw_line in enumerate(source.splitlines(), start=1):\n', '    for i, raw_line in enumerate((row for row in source.splitlines() if row.strip()), start=1):\n')]),
    ('c15-error-tuple-assign-none', ['C15'], [(A, "    def __init__(self, message, line):\n        super().__init__(message)\n        self.message = message\n        self.line = line\n\n    def __str__(self):\n        return '{}\\nAssemblerError: {}'.format(self.line, self.message)\n", "    def __init__(self, message, line):\n        super().__init__(message)\n        self.message, self.line = message, None\n\n    def __str__(self):\n        return '{}\\nAssemblerError: {}'.format(self.line, self.message)\n")]),
    ('c15-local-rule-class-no-try', ['C15'], [(A, '    position = 0\n    new_items = []\n    for item in items:\n        # skip non-instructions and pseudo-instructions\n', '    class Rule:\n        def __init__(self, form, checks):\n            self.form = form\n            self.checks = checks\n\n        def matches(self, item, position, env):\n            return all(check(item, position, env) for check in self.checks)\n\n    rules = [Rule(form, checks) for form, checks in criteria.items()]\n\n    position = 0\n    new_items = []\n    for item in items:\n        # skip non-instructions and pseudo-instructions\n', 0), (A, '        try:\n            for name, preds in criteria.items():\n                if all(pred(item, position, env) for pred in preds):\n                    compressed = name\n                    break\n        except ValueError as e:\n            raise AssemblerError(str(e), item.line)\n', '        for rule in rules:\n            if rule.matches(item, position, env):\n                compressed = rule.form\n                break\n')]),
    ('c15-while-index-zero-based', ['C15'], [(A, '    for i, raw_line in enumerate(source.splitlines(), start=1):\n', '    rows = source.splitlines()\n    i = -1\n    while i + 1 < len(rows):\n        i += 1\n        raw_line = rows[i]\n')]),
    ('c15-to-bytes-overflow', ['C15'], [(A, '                value = struct.pack(fmt, value)\n', "                value = value.to_bytes(struct.calcsize(fmt), 'little', signed=value < 0)\n")]),
    ('c15-bytearray-append-user-int', ['C15'], [(A, '            try:\n                value = struct.pack(fmt, value)\n            except struct.error as e:\n                raise AssemblerError(\'value {} does not fit "{}": {}\'.format(value, item.name, e), item.line)\n            data.extend(value)', '            if item.name == \'bytes\':\n                data.append(value)\n                continue\n            try:\n                value = struct.pack(fmt, value)\n            except struct.error as e:\n                raise AssemblerError(\'value {} does not fit "{}": {}\'.format(value, item.name, e), item.line)\n            data.extend(value)')]),
    ('c15-reduce-misses-pass', ['C15'], [(A, '    items = resolve_strings(items)\n    items = resolve_sequences(items)\n    items = transform_shorthand_packs(items)\n    items = resolve_packs(items)\n    items = resolve_include_bytes(items)\n', '    import functools\n    late = [resolve_strings, resolve_sequences, transform_shorthand_packs, resolve_include_bytes]\n    items = functools.reduce(lambda acc, step: step(acc), late, items)\n')]),
    ('c15-callable-pass-no-line', ['C15'], [(A, "def resolve_strings(items):\n    new_items = []\n    for item in items:\n        if not isinstance(item, String):\n            new_items.append(item)\n            continue\n\n        blob = Blob(item.line, item.value.encode('utf-8'))\n        new_items.append(blob)\n\n        log_conversion('resolve_strings', item, blob)\n\n    return new_items\n", "class StringResolver:\n    def __init__(self, encoding):\n        self.encoding = encoding\n\n    def __call__(self, items):\n        new_items = []\n        for item in items:\n            if isinstance(item, String):\n                blob = Blob(None, item.value.encode(self.encoding))\n                log_conversion('resolve_strings', item, blob)\n                new_items.append(blob)\n            else:\n                new_items.append(item)\n        return new_items\n\n\nresolve_strings = StringResolver('utf-8')\n")]),
    ('c15-located-wrong-type', ['C15'], [(A, 'def resolve_instructions(items):', 'def located(fn, line, *args, **kwargs):\n    try:\n        return fn(*args, **kwargs)\n    except KeyError as e:\n        raise AssemblerError(str(e), line)\n\n\ndef resolve_instructions(items):'), (A, '        try:\n            # atomic insts expect aq and rl as kwargs\n            if isinstance(item, ATypeInstruction) or isinstance(item, ALTypeInstruction):\n                *args, aq, rl = item.args()\n                code = encode_func(*args, aq=aq, rl=rl)\n            else:\n                args = item.args()\n                code = encode_func(*args)\n        except ValueError as e:\n            raise AssemblerError(str(e), item.line)\n', '        # atomic insts expect aq and rl as kwargs\n        if isinstance(item, (ATypeInstruction, ALTypeInstruction)):\n            *args, aq, rl = item.args()\n            code = located(encode_func, item.line, *args, aq=aq, rl=rl)\n        else:\n            code = located(encode_func, item.line, *item.args())\n')]),
    # ---- C16 --------------------------------------------------------------------------------------------------
    ('c16-mutable-default', ['C16'], [(A, "def assemble(path_or_source, *, constants=None, labels=None, compress=False, include_dirs=None):", "def assemble(path_or_source, *, constants={}, labels={}, compress=False, include_dirs=None):")]),
    ('c16-registers-alias', ['C16'], [(A, "        constants[item.name] = value\n", "        constants[item.name] = value\n        REGISTERS[item.name] = value\n")]),
    ('c16-keywords-add', ['C16'], [(A, "        labels[item.name] = position\n", "        labels[item.name] = position\n        KEYWORDS.add(item.name)\n")]),
    ('c16-lru-cache', ['C16'], [(A, "def lex_tokens(line):", "import functools\n\n\n@functools.lru_cache(maxsize=None)\ndef lex_tokens(line):")]),
    ('c16-module-cache', ['C16'], [(A, "def resolve_labels(items, labels):\n    position = 0", "_LABEL_CACHE = {}\n\n\ndef resolve_labels(items, labels):\n    labels.update(_LABEL_CACHE)\n    _LABEL_CACHE.update(labels)\n    position = 0")]),
    ('c16-chainmap-order', ['C16'], [(A, "        env = ChainMap(constants, REGISTERS)", "        env = ChainMap(REGISTERS, constants)")]),
    ('c16-eval-builtins', ['C16', 'C11'], [(A, "            result = eval(self.expr, {'__builtins__': None}, env)", "            result = eval(self.expr, {}, env)")]),
    ('c16-getcwd', ['C16', 'C14'], [(A, "    if is_path:\n        base_path = os.path.dirname(os.path.abspath(path_or_source))\n    else:\n        base_path = os.getcwd()", "    base_path = os.getcwd()")]),
    ('c16-time', ['C16'], [(A, "    items = resolve_constants(items, constants)\n", "    import time\n    constants.setdefault('BUILD_TIME', int(time.time()))\n    items = resolve_constants(items, constants)\n")]),
    ('c16-global', ['C16'], [(A, "def resolve_labels(items, labels):\n    position = 0", "_last_position = 0\n\n\ndef resolve_labels(items, labels):\n    global _last_position\n    position = _last_position")]),
    ('c16-pseudo-set-join', ['C16'], [(A, "            raise AssemblerError('no translation for pseudo-instruction: {}'.format(item.name), item.line)", "            raise AssemblerError('no translation for pseudo-instruction: {} (known: {})'.format(item.name, ' '.join(PSEUDO_INSTRUCTIONS)), item.line)")]),
    # ---- C10 / C14 --------------------------------------------------------------------------------------------
    ('c10-shorts-fmt', ['C10', 'C09'], [(A, "        'shorts': 'H',", "        'shorts': 'I',")]),
    ('c10-big-endian', ['C10'], [(A, "def transform_shorthand_packs(items):\n    endianness = '<'", "def transform_shorthand_packs(items):\n    endianness = '>'")]),
    ('c10-mask-value', ['C10'], [(A, "                value = struct.pack(fmt, value)", "                value = struct.pack(fmt, value & 0xffffffff)")]),
    ('c10-sign-le', ['C10'], [(A, "            if value < 0:\n                fmt = fmt.lower()", "            if value <= 0:\n                fmt = fmt.lower()")]),
    ('c10-string-ascii', ['C10', 'C09'], [(A, "        blob = Blob(item.line, item.value.encode('utf-8'))", "        blob = Blob(item.line, item.value.encode('ascii', 'ignore'))")]),
    ('c10-no-size-assert', ['C10'], [(A, "        # defense against the dark race conditions\n        assert len(data) == item.fsize\n", "")]),
    ('c10-string-utf8-escape', ['C10'], [(A, "value = value.encode('latin-1', 'backslashreplace').decode('unicode_escape')", "value = value.encode('utf-8').decode('unicode_escape')")]),
    ('c10-raw-path', ['C10', 'C14'], [(A, "        return IncludeBytes(line, line.include_path, size)", "        return IncludeBytes(line, path, size)")]),
    ('c10-sign-always-lower', ['C10'], [(A, "        fmt = endianness + formats[item.name]\n        if item.imm < 0:\n            fmt = fmt.lower()", "        fmt = (endianness + formats[item.name]).lower()\n        if item.imm < 0:\n            fmt = fmt.lower()")]),
    ('c10-doc-width', ['C10'], [('docs/assembly_language.rst', ":code:`longs`      4", ":code:`longs`      8")]),
    ('c10-text-mode', ['C10'], [(A, "        with open(item.path, 'rb') as f:", "        with open(item.path, 'r') as f:")]),
    ('c10-pack-swap', ['C10'], [(A, "            data = struct.pack(item.fmt, item.imm)", "            data = struct.pack(item.fmt.lower(), item.imm)")]),
    ('c10-size-of-raw', ['C10', 'C14'], [(A, "            size = os.path.getsize(include_path)", "            size = os.path.getsize(rel_path)")]),
    ('c14-lookup-cwd', ['C14'], [(A, "            try_path = os.path.join(dir, path)", "            try_path = os.path.join(os.getcwd(), path)")]),
    ('c14-recursion-rel', ['C14'], [(A, "            include_lines = read_lines(include_path, include=True, include_dirs=include_dirs)", "            include_lines = read_lines(rel_path, include=True, include_dirs=include_dirs)")]),
    ('c14-append-after', ['C14'], [(A, "            include_lines = read_lines(include_path, include=True, include_dirs=include_dirs)\n            lines.extend(include_lines)", "            include_lines = read_lines(include_path, include=True, include_dirs=include_dirs)\n            lines = include_lines + lines")]),
    ('c14-cli-no-abspath', ['C14'], [(A, "        include_dirs.append(os.path.abspath(inc_dir))", "        include_dirs.append(inc_dir)")]),
    ('c14-dirs-in-place', ['C14'], [(A, "    current_dirs = copy.deepcopy(include_dirs or [])", "    current_dirs = include_dirs if include_dirs is not None else []")]),
    ('c14-base-cwd', ['C14', 'C16'], [(A, "        base_path = os.path.dirname(os.path.abspath(path_or_source))\n    else:", "        base_path = os.getcwd()\n    else:")]),
    ('c14-include-flag', ['C14'], [(A, "read_lines(include_path, include=True, include_dirs=include_dirs)", "read_lines(include_path, include=True, include_dirs=None)")]),
    ('c14-cli-input-rel', ['C14'], [(A, "        input_asm = os.path.abspath(args.input_asm)", "        input_asm = args.input_asm")]),
    # ---- C11 / C13 ----------------------------------------------------------------------------------------------
    ('c11-no-int-check', ['C11'], [(A, "        if type(result) != int:\n            s = 'result \"{}\" is not an integer from expr: \"{}\"'\n            s = s.format(result, self.expr)\n            raise AssemblerError(s, line)\n", "")]),
    ('c11-regs-missing', ['C11'], [(A, "    REGS = {'rd', 'rs1', 'rs2', 'rd_rs1'}", "    REGS = {'rd', 'rs1', 'rs2'}")]),
    ('c11-const-late-store', ['C11'], [(A, "        value = item.expr.eval(None, env, item.line)\n        constants[item.name] = value", "        value = item.expr.eval(None, env, item.line)\n        constants[item.name] = value + 0 if False else item.expr")]),
    ('c11-shadow-allowed', ['C11'], [(A, "        if item.name in REGISTERS:\n            s = 'constant name cannot shadow a register name \"{}\"'\n            s = s.format(item.name)\n            raise AssemblerError(s, item.line)\n", "")]),
    ('c11-alias-after-compress', ['C11'], [(A, "    items = resolve_labels(items, labels)\n    items = resolve_register_aliases(items, constants)\n    if compress:\n        items = transform_compressible(items, constants, labels)", "    items = resolve_labels(items, labels)\n    if compress:\n        items = transform_compressible(items, constants, labels)\n    items = resolve_register_aliases(items, constants)")]),
    ('c11-hi-env', ['C11'], [(A, "class Hi(Expr):\n\n    def __init__(self, expr):\n        self.expr = expr\n\n    def __repr__(self):\n        s = '{}({!r})'\n        s = s.format(type(self).__name__, self.expr)\n        return s\n\n    def __str__(self):\n        s = '%hi({})'\n        s = s.format(self.expr)\n        return s\n\n    def eval(self, position, env, line):\n        value = self.expr.eval(position, env, line)",
                                "class Hi(Expr):\n\n    def __init__(self, expr):\n        self.expr = expr\n\n    def __repr__(self):\n        s = '{}({!r})'\n        s = s.format(type(self).__name__, self.expr)\n        return s\n\n    def __str__(self):\n        s = '%hi({})'\n        s = s.format(self.expr)\n        return s\n\n    def eval(self, position, env, line):\n        value = self.expr.eval(position, {}, line)")]),
    ('c13-fp-dropped', ['C13', 'C01'], [(A, "'s0':   8, 'fp': 8,", "'s0':   8,")]),
    ('c13-s1', ['C13', 'C01'], [(A, "'s1':   9,", "'s1':   8,")]),
    ('c13-lhu-missing', ['C13'], [(A, "    'lbu',\n    'lhu',\n    'sb',", "    'lbu',\n    'sb',")]),
    ('c13-split-ws-only', ['C13'], [(A, "    tokens = re.split(r'[\\s,]+', contents)", "    tokens = re.split(r'\\s+', contents)")]),
    ('c13-comment-after-split', ['C13'], [(A, "    # strip comments\n    contents = re.sub(r'#.*$', r'', line.contents)\n\n    # pad parens before split\n    contents = contents.replace", "    # pad parens before split\n    contents = line.contents.replace")]),
    ('c13-split-semicolon', ['C13'], [(A, "    tokens = re.split(r'[\\s,]+', contents)", "    tokens = re.split(r'[\\s,;]+', contents)")]),
    ('c13-comment-pattern', ['C13'], [(A, "    contents = re.sub(r'#.*$', r'', line.contents)", "    contents = re.sub(r'#.$', r'', line.contents)")]),
    ('c13-numbering-filtered', ['C13', 'C15'], [(A, "    for i, raw_line in enumerate(source.splitlines(), start=1):", "    for i, raw_line in enumerate([l for l in source.splitlines() if l.strip()], start=1):")]),
    # ---- C17: event-based rules (helpers, templates, conversions) ------------------------------------------------
    ('c17-hex-convert-late', ['C17'], [(A, "    hex_offset = None\n    if args.hex_offset:\n        try:\n            hex_offset = int(args.hex_offset, base=0)\n        except:\n            raise SystemExit('invalid hex offset: {}'.format(args.hex_offset))\n", ""),
                                       (A, "        bin2hex(args.output, args.output + '.hex', hex_offset)", "        bin2hex(args.output, args.output + '.hex', int(args.hex_offset, base=0))")]),
    ('c17-helper-open-before-asm', ['C17'], [(A, "def cli_main():\n", "def prepare_output(path):\n    return open(path, 'wb')\n\n\ndef cli_main():\n"),
                                             (A, "    constants = {}\n    labels = {}\n    try:\n        input_asm = os.path.abspath(args.input_asm)", "    sink = prepare_output(args.output)\n    sink.close()\n    constants = {}\n    labels = {}\n    try:\n        input_asm = os.path.abspath(args.input_asm)")]),
    ('c17-labels-append-mode', ['C17'], [(A, "        with open(args.labels, 'w') as f:", "        with open(args.labels, 'a') as f:")]),
    ('c17-hex-base16', ['C17'], [(A, "            hex_offset = int(args.hex_offset, base=0)", "            hex_offset = int(args.hex_offset, base=16)")]),
    ('c17-labels-wrong-dict', ['C17'], [(A, "        lines = ['{} 0x{:08x}\\n'.format(k, v) for k, v in labels.items()]", "        lines = ['{} 0x{:08x}\\n'.format(k, v) for k, v in constants.items()]")]),
    ('c17-sys-exit-0', ['C17'], [(A, "    except AssemblerError as e:\n        raise SystemExit(e)", "    except AssemblerError as e:\n        print(e)\n        sys.exit(0)")]),
    ('c17-labels-no-newline', ['C17'], [(A, "        lines = ['{} 0x{:08x}\\n'.format(k, v) for k, v in labels.items()]", "        lines = [f'{k} 0x{v:08x}' for k, v in labels.items()]")]),
    ('c17-labels-loop-value-only', ['C17'], [(A, "        lines = ['{} 0x{:08x}\\n'.format(k, v) for k, v in labels.items()]\n        with open(args.labels, 'w') as f:\n            f.writelines(lines)",
                                             "        with open(args.labels, 'w') as f:\n            for k, v in labels.items():\n                f.write('0x%08x\\n' % v)")]),
    ('c17-helper-write-len', ['C17'], [(A, "def cli_main():\n", "def write_binary(path, data):\n    with open(path, 'wb') as handle:\n        handle.write(data[:-1])\n\n\ndef cli_main():\n"),
                                       (A, "    with open(args.output, 'wb') as out_bin:\n        out_bin.write(binary)\n", "    write_binary(args.output, binary)\n")]),
    # ---- C16: per-call tables ---------------------------------------------------------------------------------------
    ('c16-shared-fallback', ['C16'], [(A, "def assemble(path_or_source, *, constants=None, labels=None, compress=False, include_dirs=None):", "_DEFAULT_CONSTANTS = {}\n\n\ndef assemble(path_or_source, *, constants=None, labels=None, compress=False, include_dirs=None):"),
                                      (A, "    constants = constants if constants is not None else {}", "    constants = constants if constants is not None else _DEFAULT_CONSTANTS")]),
    ('c16-shared-fallback-helper', ['C16'], [(A, "def assemble(path_or_source, *, constants=None, labels=None, compress=False, include_dirs=None):", "_SHARED_LABELS = {}\n\n\ndef _table(given):\n    if given is None:\n        return _SHARED_LABELS\n    return given\n\n\ndef assemble(path_or_source, *, constants=None, labels=None, compress=False, include_dirs=None):"),
                                             (A, "    labels = labels if labels is not None else {}", "    labels = _table(labels)")]),
    ('c16-eval-globals-shared-unpinned', ['C16', 'C11'], [(A, "# basic arithmetic expression\n", "EVAL_GLOBALS = {}\n\n\n# basic arithmetic expression\n"),
                                                          (A, "            result = eval(self.expr, {'__builtins__': None}, env)", "            result = eval(self.expr, EVAL_GLOBALS, env)")]),
    # ---- C11: dataflow rules ----------------------------------------------------------------------------------------------
    ('c11-hi-raw', ['C11'], [(A, "        return Hi(parse_immediate(imm, line))", "        return Hi(' '.join(imm))")]),
    ('c11-shift-raw-field', ['C11', 'C12'], [(A, "                inst = CITypeInstruction(item.line, compressed, item.rd, Arithmetic(str(lookup_register(item.rs2))))", "                inst = CITypeInstruction(item.line, compressed, item.rd, Arithmetic(item.rs2))")]),
    ('c11-isinstance-int-only', ['C11'], [(A, "        if type(result) != int:", "        if not isinstance(result, int):")]),
    ('c11-env-order', ['C11'], [(A, "        # resolve the immediate field\n        env = ChainMap(constants, labels)", "        # resolve the immediate field\n        env = ChainMap(labels, constants)")]),
    ('c11-constants-late', ['C11'], [(A, "    items = resolve_constants(items, constants)\n    items = resolve_labels(items, labels)\n    items = resolve_register_aliases(items, constants)\n", "    items = resolve_labels(items, labels)\n    items = resolve_register_aliases(items, constants)\n    items = resolve_constants(items, constants)\n")]),
    ('c11-loop-alias-after-compress', ['C11'], [(A, "    items = resolve_constants(items, constants)\n    items = resolve_labels(items, labels)\n    items = resolve_register_aliases(items, constants)\n    if compress:\n        items = transform_compressible(items, constants, labels)\n    items = transform_pseudo_instructions(items, constants, labels)\n    items = resolve_register_aliases(items, constants)\n    if compress:\n        items = transform_compressible(items, constants, labels)\n",
                                                 "    squeeze = [lambda its: transform_compressible(its, constants, labels)] if compress else []\n    steps = [lambda its: resolve_constants(its, constants), lambda its: resolve_labels(its, labels), lambda its: resolve_register_aliases(its, constants)]\n    steps += squeeze\n    steps.append(lambda its: transform_pseudo_instructions(its, constants, labels))\n    steps += squeeze\n    steps.append(lambda its: resolve_register_aliases(its, constants))\n    for step in steps:\n        items = step(items)\n")]),
    ('c11-regs-module-missing', ['C11'], [(A, "def resolve_register_aliases(items, constants):\n    REGS = {'rd', 'rs1', 'rs2', 'rd_rs1'}\n", "REGISTER_FIELDS = frozenset({'rd', 'rs1', 'rd_rs1'})\n\n\ndef resolve_register_aliases(items, constants):\n    REGS = REGISTER_FIELDS\n")]),
    ('c11-eval-other-field', ['C11'], [(A, "            result = eval(self.expr, {'__builtins__': None}, env)", "            result = eval(self.expr, {'__builtins__': None}, {})")]),
    ('c11-alias-dictcomp-truthy', ['C11'], [(A, "    REGS = {'rd', 'rs1', 'rs2', 'rd_rs1'}\n\n    new_items = []\n    for item in items:\n        d = copy.deepcopy(vars(item))\n\n        # skip items without any register fields\n        if not set(d.keys()) & REGS:\n            new_items.append(item)\n            continue\n\n        # resolve all fields that are registers\n        modified = False\n        resolved_regs = {}\n        for key, value in d.items():\n            # skip if item field is not a register\n            if key not in REGS:\n                continue\n            # skip if reg is not a constant\n            if value not in constants:\n                continue\n            # reg IS a constant\n            modified = True\n            reg = constants[value]\n            resolved_regs[key] = reg\n\n        if not modified:\n            new_items.append(item)\n            continue\n\n        d.update(resolved_regs)\n", "    REGS = ('rd', 'rs1', 'rs2', 'rd_rs1')\n\n    new_items = []\n    for item in items:\n        d = copy.deepcopy(vars(item))\n\n        # register fields that name a constant\n        resolved_regs = {key: constants.get(value) for key, value in d.items() if key in REGS and constants.get(value)}\n        if not resolved_regs:\n            new_items.append(item)\n            continue\n\n        d.update(resolved_regs)\n")]),
    ('c16-loop-pass-module-write', ['C16'], [(A, "    items = resolve_instructions(items)\n    items = resolve_strings(items)\n    items = resolve_sequences(items)\n    items = transform_shorthand_packs(items)\n    items = resolve_packs(items)\n    items = resolve_include_bytes(items)\n",
                                             "    for step in (resolve_instructions, resolve_strings, resolve_sequences, transform_shorthand_packs, resolve_packs, resolve_include_bytes):\n        items = step(items)\n"),
                                            (A, "def resolve_strings(items):\n    new_items = []", "def resolve_strings(items):\n    KEYWORDS.add('string')\n    new_items = []")]),
]

PRESERVING = [
    ('p-guard-spelling', None, [(A, "    if imm < -0x800 or imm > 0x7ff:\n        raise ValueError('12-bit immediate must be between -0x800 (-2048) and 0x7ff (2047): {}'.format(imm))\n\n    imm = c_uint32(imm).value & 0b111111111111\n\n    imm_11_5",
                                 "    if not (-2048 <= imm <= 2047):\n        raise ValueError('12-bit immediate must be between -0x800 (-2048) and 0x7ff (2047): {}'.format(imm))\n\n    imm = c_uint32(imm).value & 0xfff\n\n    imm_11_5")]),
    ('p-or-order', None, [(A, "    code |= opcode\n    code |= rd << 7\n    code |= funct3 << 12\n    code |= rs1 << 15\n    code |= rs2 << 20\n    code |= funct7 << 25",
                           "    code |= funct7 << 25\n    code |= rs2 << 20\n    code = code | (rs1 << 15)\n    code |= funct3 << 12\n    code |= rd << 7\n    code |= opcode")]),
    ('p-extra-docstring', None, [(A, "def r_type(rd, rs1, rs2, *, opcode, funct3, funct7):\n", "def r_type(rd, rs1, rs2, *, opcode, funct3, funct7):\n    \"\"\"Encode an R-type instruction.\"\"\"\n")]),
    ('p-rename-local', None, [(A, "    imm_11_5 = (imm >> 5) & 0b1111111\n    imm_4_0 = imm & 0b11111\n\n    code = 0\n    code |= opcode\n    code |= imm_4_0 << 7\n    code |= funct3 << 12\n    code |= rs1 << 15\n    code |= rs2 << 20\n    code |= imm_11_5 << 25",
                               "    hi7 = (imm >> 5) & 0b1111111\n    lo5 = imm & 0b11111\n\n    code = 0\n    code |= opcode\n    code |= lo5 << 7\n    code |= funct3 << 12\n    code |= rs1 << 15\n    code |= rs2 << 20\n    code |= hi7 << 25")]),
    ('p-hoist-constant', None, [(A, "def sign_extend(value, bits):", "TWELVE_BITS = 0b111111111111\n\n\ndef sign_extend(value, bits):"),
                                 (A, "    imm = c_uint32(imm).value & 0b111111111111\n\n    code = 0\n    code |= opcode\n    code |= rd << 7\n    code |= funct3 << 12\n    code |= rs1 << 15\n    code |= imm << 20\n\n    return code\n\n\n# i-type variation",
                                  "    imm = c_uint32(imm).value & TWELVE_BITS\n\n    code = 0\n    code |= opcode\n    code |= rd << 7\n    code |= funct3 << 12\n    code |= rs1 << 15\n    code |= imm << 20\n\n    return code\n\n\n# i-type variation")]),
    ('p-comment-churn', None, [(A, "# low-level funcs just return value errors", "# low-level functions only raise ValueError\n#\n# (reformatted comment block)")]),
    ('p-hi-carry-2048', None, [(A, "        imm += 2**12", "        imm += 2**11")]),
    ('p-hi-carry-hex', None, [(A, "        imm += 2**12", "        imm = imm + 0x1000")]),
    ('p-signext-spelling', None, [(A, "    return (value & (sign_bit - 1)) - (value & sign_bit)", "    low = value & (sign_bit - 1)\n    top = value & sign_bit\n    return low - top")]),
    ('p-align-neg-mod', None, [(A, "        padding = self.alignment - (position % self.alignment)\n        if padding == self.alignment:\n            return 0\n        else:\n            return padding", "        return (-position) % self.alignment")]),
    ('p-align-double-mod', None, [(A, "        padding = self.alignment - (position % self.alignment)\n        if padding == self.alignment:\n            return 0\n        else:\n            return padding", "        return (self.alignment - position % self.alignment) % self.alignment")]),
    ('p-align-rem-first', None, [(A, "        padding = self.alignment - (position % self.alignment)\n        if padding == self.alignment:\n            return 0\n        else:\n            return padding", "        rem = position % self.alignment\n        if rem == 0:\n            return 0\n        return self.alignment - rem")]),
    ('p-shrink-inline', None, [(A, "            new_labels = {k: v - 2 for k, v in labels.items() if v > position}\n            labels.update(new_labels)", "            labels.update({name: off - 2 for name, off in labels.items() if position < off})")]),
    ('p-offset-spelling', None, [(A, "        dest = env[self.reference]\n        return dest - position", "        return -position + env[self.reference]")]),
    ('p-inline-helper', None, [(A, "        imm = eval_immediate(item, position, env)", "        if getattr(item, 'is_auipc_jump', False):\n            imm = item.imm.eval(position - 4, env, item.line)\n        else:\n            imm = item.imm.eval(position, env, item.line)")]),
    ('p-criteria-spelling', None, [(A, "            ImmBetween(-2**5 * 16, 2**5 * 16 - 1),", "            ImmBetween(-512, 511),")]),
    ('p-factory-spelling', None, [(A, "            return reg >= lo and reg <= hi", "            return lo <= reg <= hi")]),
    ('p-extra-rule-order', None, [(A, "        'c.xor': [\n            NameEquals('xor'),\n            RegBetween('rd', 8, 15),\n            RegBetween('rs1', 8, 15),\n            RegsMatch('rd', 'rs1'),\n            RegBetween('rs2', 8, 15),\n        ],\n        'c.or': [\n            NameEquals('or'),\n            RegBetween('rd', 8, 15),\n            RegBetween('rs1', 8, 15),\n            RegsMatch('rd', 'rs1'),\n            RegBetween('rs2', 8, 15),\n        ],\n",
                                      "        'c.or': [\n            NameEquals('or'),\n            RegBetween('rd', 8, 15),\n            RegBetween('rs1', 8, 15),\n            RegsMatch('rd', 'rs1'),\n            RegBetween('rs2', 8, 15),\n        ],\n        'c.xor': [\n            NameEquals('xor'),\n            RegBetween('rd', 8, 15),\n            RegBetween('rs1', 8, 15),\n            RegsMatch('rd', 'rs1'),\n            RegBetween('rs2', 8, 15),\n        ],\n")]),
    ('p-dfu-guard-spelling', None, [(D, "    if len(firmware) > (page_size * page_count):", "    if not (len(firmware) <= page_count * page_size):")]),
    ('p-dfu-pad-mult', None, [(D, "        for _ in range(page_size - rem):\n            firmware += b'\\x00'", "        firmware = firmware + b'\\x00' * (page_size - rem)")]),
    ('p-dfu-addr-spelling', None, [(D, "        addr_start = 0x08000000\n        addr = addr_start + (page * page_size)", "        addr = page_size * page + 0x8000000")]),
    ('p-dfu-sysexit', None, [(D, "            raise SystemExit('error writing page: {}'.format(STATUS_DESCRIPTION[status]))", "            sys.exit('error writing page: ' + STATUS_DESCRIPTION[status])")]),
    ('p-cli-labels-loop', None, [(A, "        lines = ['{} 0x{:08x}\\n'.format(k, v) for k, v in labels.items()]", "        lines = ['%s 0x%08x\\n' % (name, addr) for name, addr in labels.items()]")]),
    ('p-except-exception', None, [(A, "        except ValueError as e:\n            raise AssemblerError(str(e), item.line)\n\n        # pack into 2 bytes", "        except Exception as e:\n            raise AssemblerError(str(e), item.line)\n\n        # pack into 2 bytes")]),
    ('p-line-local', None, [(A, "        except ValueError as e:\n            raise AssemblerError(str(e), item.line)\n\n        # pack into 2 bytes", "        except ValueError as e:\n            where = item.line\n            raise AssemblerError(str(e), where)\n\n        # pack into 2 bytes")]),
    ('p-sorted-set', None, [(A, "            raise AssemblerError('no translation for pseudo-instruction: {}'.format(item.name), item.line)", "            raise AssemblerError('no translation for pseudo-instruction: {} (known: {})'.format(item.name, ' '.join(sorted(PSEUDO_INSTRUCTIONS))), item.line)")]),
    ('p-local-dict-write', None, [(A, "    criteria = {\n", "    seen_names = {}\n    seen_names['x'] = 1\n    criteria = {\n")]),
    ('p-string-ascii-escape', None, [(A, "value = value.encode('latin-1', 'backslashreplace').decode('unicode_escape')", "value = value.encode('ascii', errors='backslashreplace').decode('unicode-escape')")]),
    ('p-dirs-copy-list', None, [(A, "    current_dirs = copy.deepcopy(include_dirs or [])", "    current_dirs = list(include_dirs or [])")]),
    ('p-split-class-order', None, [(A, "    tokens = re.split(r'[\\s,]+', contents)", "    tokens = re.split(r'[,\\s]+', contents)")]),
    ('p-int-check-isinstance', None, [(A, "        if type(result) != int:", "        if not type(result) == int:")]),
    ('p-clui-sign-extend', None, [(A, "    if imm >= 0xfffe0 and imm <= 0xfffff:\n        imm = imm - 2**20", "    if imm >= 0xfffe0 and imm <= 0xfffff:\n        imm = sign_extend(imm, 20)")]),
    ('p-alias-get-none', None, [(A, "            if value not in constants:\n                continue\n            # reg IS a constant\n            modified = True\n            reg = constants[value]", "            reg = constants.get(value)\n            if reg is None:\n                continue\n            # reg IS a constant\n            modified = True")]),
    ('p-hi-fast-path', None, [(A, "def relocate_hi(imm):\n    if imm & 0x800:", "def relocate_hi(imm):\n    if imm >= 0 and imm < 0x800:\n        return 0\n    if imm & 0x800:")]),
    ('p-shrink-helper', None, [(A, "def resolve_aligns(items, labels):", "def shrink_labels(labels, start, amount):\n    moved = {k: v - amount for k, v in labels.items() if v > start}\n    labels.update(moved)\n\n\ndef resolve_aligns(items, labels):"),
                               (A, "            new_labels = {k: v - 2 for k, v in labels.items() if v > position}\n            labels.update(new_labels)", "            shrink_labels(labels, position, 2)"),
                               (A, "        # shrink subsequent labels\n        new_labels = {k: v - shrink for k, v in labels.items() if v > position}\n        labels.update(new_labels)", "        # shrink subsequent labels\n        shrink_labels(labels, position, shrink)")]),
    ('p-rename-position', None, [(A, "def resolve_aligns(items, labels):\n    position = 0\n    new_items = []\n    for item in items:\n        if not isinstance(item, Align):\n            position += item.size()\n            new_items.append(item)\n            continue\n\n        # determine actual padding and amount to shrink subsequent labels\n        padding = item.resolution_size(position)\n        shrink = item.size() - padding \n\n        # shrink subsequent labels\n        new_labels = {k: v - shrink for k, v in labels.items() if v > position}\n        labels.update(new_labels)\n\n        # skip if already aligned\n        if padding == 0:\n            continue\n\n        position += padding",
                                 "def resolve_aligns(items, labels):\n    offset = 0\n    new_items = []\n    for item in items:\n        if not isinstance(item, Align):\n            offset += item.size()\n            new_items.append(item)\n            continue\n\n        # determine actual padding and amount to shrink subsequent labels\n        padding = item.resolution_size(offset)\n        shrink = item.size() - padding \n\n        # shrink subsequent labels\n        new_labels = {k: v - shrink for k, v in labels.items() if v > offset}\n        labels.update(new_labels)\n\n        # skip if already aligned\n        if padding == 0:\n            continue\n\n        offset += padding")]),
    ('p-extra-mnemonic', None, [(A, "C_SWSP     = partial(css_type, opcode=0b10, funct3=0b110)\n", "C_SWSP     = partial(css_type, opcode=0b10, funct3=0b110)\nC_FSWSP    = partial(css_type, opcode=0b10, funct3=0b111)\n"),
                                (A, "CSS_TYPE_INSTRUCTIONS = {\n    'c.swsp':     C_SWSP,\n}", "CSS_TYPE_INSTRUCTIONS = {\n    'c.swsp':     C_SWSP,\n    'c.fswsp':    C_FSWSP,\n}")]),
    # ---- C15: idioms the abstract interpretation understands (restricted to C15: other engines need not follow them) ----
    ('p15-ctx-manager', ['C15'], [(A, 'def log_constant(pass_name, item, value):', 'import contextlib\n\n\n@contextlib.contextmanager\ndef assembler_errors(line, exc_type):\n    try:\n        yield\n    except exc_type as e:\n        raise AssemblerError(str(e), line)\n\n\ndef log_constant(pass_name, item, value):'), (A, '        try:\n            # atomic insts expect aq and rl as kwargs\n            if isinstance(item, ATypeInstruction) or isinstance(item, ALTypeInstruction):\n                *args, aq, rl = item.args()\n                code = encode_func(*args, aq=aq, rl=rl)\n            else:\n                args = item.args()\n                code = encode_func(*args)\n        except ValueError as e:\n            raise AssemblerError(str(e), item.line)\n', '        with assembler_errors(item.line, ValueError):\n            # atomic insts expect aq and rl as kwargs\n            if isinstance(item, (ATypeInstruction, ALTypeInstruction)):\n                *args, aq, rl = item.args()\n                code = encode_func(*args, aq=aq, rl=rl)\n            else:\n                code = encode_func(*item.args())\n')]),
    ('p15-ctx-manager-tuple', ['C15'], [(A, 'def log_constant(pass_name, item, value):', 'import contextlib\n\n\n@contextlib.contextmanager\ndef assembler_errors(line, exc_type):\n    try:\n        yield\n    except exc_type as e:\n        raise AssemblerError(str(e), line)\n\n\ndef log_constant(pass_name, item, value):'), (A, '        try:\n            # atomic insts expect aq and rl as kwargs\n            if isinstance(item, ATypeInstruction) or isinstance(item, ALTypeInstruction):\n                *args, aq, rl = item.args()\n                code = encode_func(*args, aq=aq, rl=rl)\n            else:\n                args = item.args()\n                code = encode_func(*args)\n        except ValueError as e:\n            raise AssemblerError(str(e), item.line)\n', '        with assembler_errors(item.line, (KeyError, ValueError)):\n            # atomic insts expect aq and rl as kwargs\n            if isinstance(item, (ATypeInstruction, ALTypeInstruction)):\n                *args, aq, rl = item.args()\n                code = encode_func(*args, aq=aq, rl=rl)\n            else:\n                code = encode_func(*item.args())\n')]),
    ('p15-higher-order-pass', ['C15'], [(A, "def resolve_strings(items):\n    new_items = []\n    for item in items:\n        if not isinstance(item, String):\n            new_items.append(item)\n            continue\n\n        blob = Blob(item.line, item.value.encode('utf-8'))\n        new_items.append(blob)\n\n        log_conversion('resolve_strings', item, blob)\n\n    return new_items\n", "def convert_items(pass_name, items, item_type, convert):\n    out = []\n    for item in items:\n        if isinstance(item, item_type):\n            new_item = convert(item)\n            out.append(new_item)\n            log_conversion(pass_name, item, new_item)\n        else:\n            out.append(item)\n    return out\n\n\ndef resolve_strings(items):\n    def encode(item):\n        return Blob(item.line, item.value.encode('utf-8'))\n\n    return convert_items('resolve_strings', items, String, encode)\n")]),
    ('p15-lookup-via-local', ['C15'], [(A, "                inst = CBTypeInstruction(item.line, compressed, item.rd, Arithmetic(str(lookup_register(item.rs2))))\n            elif compressed == 'c.srai':", "                shamt = lookup_register(item.rs2)\n                amount = Arithmetic(str(shamt))\n                inst = CBTypeInstruction(item.line, compressed, item.rd, amount)\n            elif compressed == 'c.srai':")]),
    ('p15-lookup-via-closure', ['C15'], [(A, "                inst = CBTypeInstruction(item.line, compressed, item.rd, Arithmetic(str(lookup_register(item.rs2))))\n            elif compressed == 'c.srai':", "                def shamt_of(inst):\n                    return Arithmetic(str(lookup_register(getattr(inst, 'rs2'))))\n                inst = CBTypeInstruction(item.line, compressed, item.rd, shamt_of(item))\n            elif compressed == 'c.srai':")]),
    ('p15-size-token-index', ['C15'], [(A, '        _, path, size = tokens\n        size = int(size, base=0)\n', '        nbytes = int(tokens[2], base=0)\n        size = nbytes\n')]),
    ('p15-size-token-renamed', ['C15'], [(A, '        _, path, size = tokens\n        size = int(size, base=0)\n', '        keyword, where, byte_count = tokens\n        size = int(byte_count, base=0)\n')]),
    ('p15-size-fstring', ['C15'], [(A, "            line.contents = '{} {}'.format(raw_line, size)", "            line.contents = f'{raw_line} {size}'")]),
    ('p15-size-concat', ['C15'], [(A, "            line.contents = '{} {}'.format(raw_line, size)", "            line.contents = raw_line + ' ' + str(size)")]),
    ('p15-line-keywords', ['C15'], [(A, '        line = Line(path, i, raw_line)', '        line = Line(file=path, number=i, contents=raw_line)')]),
    ('p15-enumerate-plus-one', ['C15'], [(A, '    for i, raw_line in enumerate(source.splitlines(), start=1):', '    for i, raw_line in enumerate(source.splitlines()):'), (A, '        line = Line(path, i, raw_line)', '        line = Line(path, i + 1, raw_line)')]),
    ('p15-reraise-same-line', ['C15'], [(A, '            include_lines = read_lines(include_path, include=True, include_dirs=include_dirs)\n            lines.extend(include_lines)', '            try:\n                include_lines = read_lines(include_path, include=True, include_dirs=include_dirs)\n            except AssemblerError as e:\n                raise AssemblerError(e.message, e.line)\n            lines.extend(include_lines)')]),
    ('p15-reraise-bare', ['C15'], [(A, '            include_lines = read_lines(include_path, include=True, include_dirs=include_dirs)\n            lines.extend(include_lines)', "            try:\n                include_lines = read_lines(include_path, include=True, include_dirs=include_dirs)\n            except AssemblerError:\n                log.info('error in included file')\n                raise\n            lines.extend(include_lines)")]),
    ('p15-step-table', ['C15'], [(A, '    items = resolve_strings(items)\n    items = resolve_sequences(items)\n', '    for step in (resolve_strings, resolve_sequences):\n        items = step(items)\n')]),
    ('p15-blob-check-tuple', ['C15'], [(A, "        if not isinstance(item, Blob):\n            raise ValueError('expected only blobs at this point')", "        if not isinstance(item, (Blob,)):\n            raise ValueError('expected only blobs at this point')")]),
    ('p15-lookup-get', ['C15'], [(A, "    try:\n        reg = REGISTERS[reg]\n    except KeyError:\n        raise ValueError('register must be a valid integer, name, or alias: {}'.format(reg))", "    number = REGISTERS.get(reg)\n    if number is None:\n        raise ValueError('register must be a valid integer, name, or alias: {}'.format(reg))\n    reg = number")]),
    ('p15-generator-pass', ['C15'], [(A, "def resolve_strings(items):\n    new_items = []\n    for item in items:\n        if not isinstance(item, String):\n            new_items.append(item)\n            continue\n\n        blob = Blob(item.line, item.value.encode('utf-8'))\n        new_items.append(blob)\n\n        log_conversion('resolve_strings', item, blob)\n\n    return new_items\n", "def resolve_strings(items):\n    for item in items:\n        if not isinstance(item, String):\n            yield item\n            continue\n\n        blob = Blob(item.line, item.value.encode('utf-8'))\n        log_conversion('resolve_strings', item, blob)\n        yield blob\n")]),
    ('p15-generator-pass-list', ['C15'], [(A, "def resolve_strings(items):\n    new_items = []\n    for item in items:\n        if not isinstance(item, String):\n            new_items.append(item)\n            continue\n\n        blob = Blob(item.line, item.value.encode('utf-8'))\n        new_items.append(blob)\n\n        log_conversion('resolve_strings', item, blob)\n\n    return new_items\n", "def resolve_strings(items):\n    for item in items:\n        if not isinstance(item, String):\n            yield item\n            continue\n\n        blob = Blob(item.line, item.value.encode('utf-8'))\n        log_conversion('resolve_strings', item, blob)\n        yield blob\n"), (A, '    items = resolve_strings(items)\n', '    items = list(resolve_strings(items))\n')]),
    ('p15-generator-yield-from', ['C15'], [(A, "def resolve_strings(items):\n    new_items = []\n    for item in items:\n        if not isinstance(item, String):\n            new_items.append(item)\n            continue\n\n        blob = Blob(item.line, item.value.encode('utf-8'))\n        new_items.append(blob)\n\n        log_conversion('resolve_strings', item, blob)\n\n    return new_items\n", "def convert_strings(items):\n    for item in items:\n        if isinstance(item, String):\n            blob = Blob(item.line, item.value.encode('utf-8'))\n            log_conversion('resolve_strings', item, blob)\n            yield blob\n\n\ndef resolve_strings(items):\n    yield from (item for item in items if not isinstance(item, String))\n    yield from convert_strings(items)\n")]),
    ('p15-class-ctx-manager', ['C15'], [(A, 'def log_constant(pass_name, item, value):', 'class LineErrors:\n    """re-raise the given low-level errors of the enclosed block as AssemblerErrors of a line"""\n\n    def __init__(self, line, *types):\n        self.line = line\n        self.types = types\n\n    def __enter__(self):\n        return self\n\n    def __exit__(self, exc_type, exc, tb):\n        if exc_type is not None and issubclass(exc_type, self.types):\n            raise AssemblerError(str(exc), self.line) from exc\n        return False\n\n\ndef log_constant(pass_name, item, value):'), (A, '        try:\n            # atomic insts expect aq and rl as kwargs\n            if isinstance(item, ATypeInstruction) or isinstance(item, ALTypeInstruction):\n                *args, aq, rl = item.args()\n                code = encode_func(*args, aq=aq, rl=rl)\n            else:\n                args = item.args()\n                code = encode_func(*args)\n        except ValueError as e:\n            raise AssemblerError(str(e), item.line)\n', '        with LineErrors(item.line, ValueError):\n            # atomic insts expect aq and rl as kwargs\n            if isinstance(item, (ATypeInstruction, ALTypeInstruction)):\n                *args, aq, rl = item.args()\n                code = encode_func(*args, aq=aq, rl=rl)\n            else:\n                code = encode_func(*item.args())\n')]),
    ('p15-decorator-convert', ['C15'], [(A, 'def resolve_instructions(items):', 'def converts_value_errors(fn):\n    def wrapper(item):\n        try:\n            return fn(item)\n        except ValueError as e:\n            raise AssemblerError(str(e), item.line)\n    return wrapper\n\n\n@converts_value_errors\ndef encode_item(item):\n    encode_func = INSTRUCTIONS[item.name]\n    if isinstance(item, (ATypeInstruction, ALTypeInstruction)):\n        *args, aq, rl = item.args()\n        return encode_func(*args, aq=aq, rl=rl)\n    return encode_func(*item.args())\n\n\ndef resolve_instructions(items):'), (A, '        encode_func = INSTRUCTIONS[item.name]\n        try:\n            # atomic insts expect aq and rl as kwargs\n            if isinstance(item, ATypeInstruction) or isinstance(item, ALTypeInstruction):\n                *args, aq, rl = item.args()\n                code = encode_func(*args, aq=aq, rl=rl)\n            else:\n                args = item.args()\n                code = encode_func(*args)\n        except ValueError as e:\n            raise AssemblerError(str(e), item.line)\n', '        code = encode_item(item)\n')]),
    ('p15-pass-registry', ['C15'], [(A, 'def resolve_strings(items):', 'LATE_PASSES = []\n\n\ndef late_pass(fn):\n    LATE_PASSES.append(fn)\n    return fn\n\n\n@late_pass\ndef resolve_strings(items):'), (A, 'def resolve_sequences(items):', '@late_pass\ndef resolve_sequences(items):'), (A, 'def transform_shorthand_packs(items):', '@late_pass\ndef transform_shorthand_packs(items):'), (A, 'def resolve_packs(items):', '@late_pass\ndef resolve_packs(items):'), (A, 'def resolve_include_bytes(items):', '@late_pass\ndef resolve_include_bytes(items):'), (A, '    items = resolve_strings(items)\n    items = resolve_sequences(items)\n    items = transform_shorthand_packs(items)\n    items = resolve_packs(items)\n    items = resolve_include_bytes(items)\n', '    for late in LATE_PASSES:\n        items = late(items)\n')]),
    ('p15-line-dataclass', ['C15'], [(A, 'class Line:\n\n    def __init__(self, file, number, contents):\n        self.file = file\n        self.number = number\n        self.contents = contents\n        # resolved path of the file named by an include_bytes line (set by the reader)\n        self.include_path = None\n', 'import dataclasses\nimport typing\n\n\n@dataclasses.dataclass\nclass Line:\n    file: str\n    number: int\n    contents: str\n    # resolved path of the file named by an include_bytes line (set by the reader)\n    include_path: typing.Optional[str] = None\n')]),
    ('p15-linetokens-namedtuple', ['C15'], [(A, 'class LineTokens:\n\n    def __init__(self, line, tokens):\n        self.line = line\n        self.tokens = tokens\n', 'import typing\n\n\nclass LineTokens(typing.NamedTuple):\n    line: Line\n    tokens: list\n'), (A, '    line = line_tokens.line\n    tokens = line_tokens.tokens\n', '    line, tokens = line_tokens\n')]),
    ('p15-handler-filter-reraise', ['C15'], [(A, '        except ValueError as e:\n            raise AssemblerError(str(e), item.line)\n\n        # pack into 2 bytes', '        except Exception as e:\n            if not isinstance(e, ValueError):\n                raise\n            raise AssemblerError(str(e), item.line)\n\n        # pack into 2 bytes')]),
    ('p15-is-int-guard', ['C15'], [(A, "        try:\n            alignment = int(alignment, base=0)\n        except ValueError:\n            raise AssemblerError('alignment must be an integer', line)\n", "        if not is_int(alignment):\n            raise AssemblerError('alignment must be an integer', line)\n        alignment = int(alignment, base=0)\n")]),
    ('p15-enumerate-list-copy', ['C15'], [(A, '    for i, raw_line in enumerate(source.splitlines(), start=1):\n', '    for i, raw_line in enumerate(list(source.splitlines()), start=1):\n')]),
    ('p15-zip-count', ['C15'], [(A, 'import abc\n', 'import abc\nimport itertools\n'), (A, '    for i, raw_line in enumerate(source.splitlines(), start=1):\n', '    for i, raw_line in zip(itertools.count(1), source.splitlines()):\n')]),
    ('p15-line-rebuilt', ['C15'], [(A, "            line.contents = '{} {}'.format(raw_line, size)\n", "            line = Line(line.file, line.number, '{} {}'.format(raw_line, size))\n")]),
    ('p15-str-args0', ['C15'], [(A, "        return '{}\\nAssemblerError: {}'.format(self.line, self.message)", "        return '{}\\nAssemblerError: {}'.format(self.line, self.args[0])")]),
    ('p15-handler-const-tuple', ['C15'], [(A, 'def resolve_instructions(items):', 'ENCODING_ERRORS = (ValueError,)\n\n\ndef resolve_instructions(items):'), (A, '        except ValueError as e:\n            raise AssemblerError(str(e), item.line)\n\n        # pack into 2 bytes', '        except ENCODING_ERRORS as e:\n            raise AssemblerError(str(e), item.line)\n\n        # pack into 2 bytes')]),
    ('p15-reraise-helper', ['C15'], [(A, 'def resolve_instructions(items):', 'def line_error(e, line):\n    raise AssemblerError(str(e), line)\n\n\ndef resolve_instructions(items):'), (A, '        except ValueError as e:\n            raise AssemblerError(str(e), item.line)\n\n        # pack into 2 bytes', '        except ValueError as e:\n            line_error(e, item.line)\n\n        # pack into 2 bytes')]),
    ('p15-try-around-loop', ['C15'], [(A, '    new_items = []\n    for item in items:\n        if not isinstance(item, Pack):\n            new_items.append(item)\n            continue\n\n        try:\n            data = struct.pack(item.fmt, item.imm)\n        except struct.error as e:\n            raise AssemblerError(\'value {} does not fit pack format "{}": {}\'.format(item.imm, item.fmt, e), item.line)\n        blob = Blob(item.line, data)\n        new_items.append(blob)\n\n        log_conversion(\'resolve_packs\', item, blob)\n\n    return new_items\n', '    new_items = []\n    try:\n        for item in items:\n            if not isinstance(item, Pack):\n                new_items.append(item)\n                continue\n\n            data = struct.pack(item.fmt, item.imm)\n            blob = Blob(item.line, data)\n            new_items.append(blob)\n\n            log_conversion(\'resolve_packs\', item, blob)\n    except struct.error as e:\n        raise AssemblerError(\'value {} does not fit pack format "{}": {}\'.format(item.imm, item.fmt, e), item.line)\n\n    return new_items\n')]),
    ('p15-isdecimal-guard', ['C15'], [(A, "        try:\n            alignment = int(alignment, base=0)\n        except ValueError:\n            raise AssemblerError('alignment must be an integer', line)\n", "        if alignment.isdecimal() and not alignment.startswith('0'):\n            alignment = int(alignment)\n        else:\n            try:\n                alignment = int(alignment, base=0)\n            except ValueError:\n                raise AssemblerError('alignment must be an integer', line)\n")]),
    ('p15-regex-digits', ['C15'], [(A, 'def parse_item(line_tokens):', "RE_DECIMAL = re.compile(r'(\\d+)$')\n\n\ndef parse_item(line_tokens):"), (A, "        try:\n            alignment = int(alignment, base=0)\n        except ValueError:\n            raise AssemblerError('alignment must be an integer', line)\n", "        decimal = RE_DECIMAL.match(alignment)\n        if decimal is not None and not alignment.startswith('0'):\n            alignment = int(decimal.group(1))\n        else:\n            try:\n                alignment = int(alignment, base=0)\n            except ValueError:\n                raise AssemblerError('alignment must be an integer', line)\n")]),
    ('p15-range-index-minus-one', ['C15'], [(A, '    for i, raw_line in enumerate(source.splitlines(), start=1):\n', '    rows = source.splitlines()\n    for i in range(1, len(rows) + 1):\n        raw_line = rows[i - 1]\n')]),
    ('p15-items-by-index', ['C15'], [(A, '    for item in items:\n        if not isinstance(item, String):', '    for index in range(len(items)):\n        item = items[index]\n        if not isinstance(item, String):')]),
    ('p15-line-through-dict', ['C15'], [(A, "        blob = Blob(item.line, item.value.encode('utf-8'))\n", "        ctx = {'line': item.line, 'text': item.value}\n        blob = Blob(ctx['line'], ctx['text'].encode('utf-8'))\n")]),
    ('p15-blobs-any-guard', ['C15'], [(A, "    output = bytearray()\n    for item in items:\n        if not isinstance(item, Blob):\n            raise ValueError('expected only blobs at this point')\n\n        output.extend(item.data)\n", "    if any(not isinstance(item, Blob) for item in items):\n        raise ValueError('expected only blobs at this point')\n\n    output = bytearray()\n    for item in items:\n        output.extend(item.data)\n")]),
    ('p15-blobs-all-guard', ['C15'], [(A, "    output = bytearray()\n    for item in items:\n        if not isinstance(item, Blob):\n            raise ValueError('expected only blobs at this point')\n\n        output.extend(item.data)\n", "    if not all(isinstance(item, Blob) for item in items):\n        raise ValueError('expected only blobs at this point')\n\n    output = bytearray()\n    for item in items:\n        output.extend(item.data)\n")]),
    ('p15-blobs-filter-guard', ['C15'], [(A, "    output = bytearray()\n    for item in items:\n        if not isinstance(item, Blob):\n            raise ValueError('expected only blobs at this point')\n\n        output.extend(item.data)\n", "    if list(filter(lambda item: not isinstance(item, Blob), items)):\n        raise ValueError('expected only blobs at this point')\n\n    output = bytearray()\n    for item in items:\n        output.extend(item.data)\n")]),
    ('p15-range-guard-or', ['C15'], [(A, "        blob = Blob(item.line, data)\n        new_items.append(blob)\n\n        log_conversion('resolve_include_bytes', item, blob)", "        size = item.fsize\n        if size < 0 or size > 0xffffffff:\n            raise AssemblerError('file too large', item.line)\n        log.info('size field: {}'.format(struct.pack('<I', size).hex()))\n        blob = Blob(item.line, data)\n        new_items.append(blob)\n\n        log_conversion('resolve_include_bytes', item, blob)")]),
    ('p15-range-guard-chain', ['C15'], [(A, "        blob = Blob(item.line, data)\n        new_items.append(blob)\n\n        log_conversion('resolve_include_bytes', item, blob)", "        size = item.fsize\n        if not 0 <= size < 2 ** 64:\n            raise AssemblerError('file too large', item.line)\n        log.info('size field: {}'.format(size.to_bytes(8, 'little').hex()))\n        blob = Blob(item.line, data)\n        new_items.append(blob)\n\n        log_conversion('resolve_include_bytes', item, blob)")]),
    ('p15-pack-length', ['C15'], [(A, "        blob = Blob(item.line, data)\n        new_items.append(blob)\n\n        log_conversion('resolve_include_bytes', item, blob)", "        log.info('length field: {}'.format(struct.pack('<I', len(data)).hex()))\n        blob = Blob(item.line, data)\n        new_items.append(blob)\n\n        log_conversion('resolve_include_bytes', item, blob)")]),
    # round 7: table lookups with user keys, conversions behind the repository's own predicate, elements read back
    ('p15-sequence-constants-in', ['C15'], [(A, 'def resolve_sequences(items):', 'def resolve_sequences(items, constants):'), (A, '    items = resolve_sequences(items)\n', '    items = resolve_sequences(items, constants)\n'), (A, '        try:\n            values = [int(value, base=0) for value in item.values]\n        except ValueError as e:\n            raise AssemblerError(str(e), item.line)\n', "        values = []\n        for value in item.values:\n            if is_int(value):\n                values.append(int(value, base=0))\n            elif value in constants:\n                values.append(constants[value])\n            else:\n                raise AssemblerError('invalid literal: {}'.format(value), item.line)\n")]),
    ('p15-sequence-constants-not-in', ['C15'], [(A, 'def resolve_sequences(items):', 'def resolve_sequences(items, constants):'), (A, '    items = resolve_sequences(items)\n', '    items = resolve_sequences(items, constants)\n'), (A, '        try:\n            values = [int(value, base=0) for value in item.values]\n        except ValueError as e:\n            raise AssemblerError(str(e), item.line)\n', "        values = []\n        for value in item.values:\n            if is_int(value):\n                values.append(int(value, base=0))\n                continue\n            if value not in constants:\n                raise AssemblerError('invalid literal: {}'.format(value), item.line)\n            values.append(constants[value])\n")]),
    ('p15-sequence-constants-get', ['C15'], [(A, 'def resolve_sequences(items):', 'def resolve_sequences(items, constants):'), (A, '    items = resolve_sequences(items)\n', '    items = resolve_sequences(items, constants)\n'), (A, '        try:\n            values = [int(value, base=0) for value in item.values]\n        except ValueError as e:\n            raise AssemblerError(str(e), item.line)\n', "        values = []\n        for value in item.values:\n            number = int(value, base=0) if is_int(value) else constants.get(value)\n            if number is None:\n                raise AssemblerError('invalid literal: {}'.format(value), item.line)\n            values.append(number)\n")]),
    ('p15-sequence-constants-handler', ['C15'], [(A, 'def resolve_sequences(items):', 'def resolve_sequences(items, constants):'), (A, '    items = resolve_sequences(items)\n', '    items = resolve_sequences(items, constants)\n'), (A, '        try:\n            values = [int(value, base=0) for value in item.values]\n        except ValueError as e:\n            raise AssemblerError(str(e), item.line)\n', '        try:\n            values = [int(value, base=0) if is_int(value) else constants[value] for value in item.values]\n        except (ValueError, KeyError) as e:\n            raise AssemblerError(str(e), item.line)\n')]),
    ('p15-sequence-constants-lookuperror', ['C15'], [(A, 'def resolve_sequences(items):', 'def resolve_sequences(items, constants):'), (A, '    items = resolve_sequences(items)\n', '    items = resolve_sequences(items, constants)\n'), (A, '        try:\n            values = [int(value, base=0) for value in item.values]\n        except ValueError as e:\n            raise AssemblerError(str(e), item.line)\n', "        try:\n            values = [int(value, base=0) if is_int(value) else constants[value] for value in item.values]\n        except LookupError as e:\n            raise AssemblerError('undefined constant: {}'.format(e), item.line)\n")]),
    ('p15-size-is-int-literal', ['C15'], [(A, "        if self.name in ['li', 'call', 'tail']:\n            return 8\n", "        if self.name == 'li' and len(self.args) == 2 and is_int(self.args[1]):\n            value = c_int32(int(self.args[1], base=0)).value\n            return 8 if value != value else 8\n        if self.name in ['li', 'call', 'tail']:\n            return 8\n")]),
    ('p15-byte-fastpath-guarded', ['C15'], [(A, '            try:\n                value = struct.pack(fmt, value)\n            except struct.error as e:\n                raise AssemblerError(\'value {} does not fit "{}": {}\'.format(value, item.name, e), item.line)\n            data.extend(value)\n', '            if item.name == \'bytes\' and 0 <= value < 256:\n                data.extend(bytes([value]))\n                continue\n            try:\n                value = struct.pack(fmt, value)\n            except struct.error as e:\n                raise AssemblerError(\'value {} does not fit "{}": {}\'.format(value, item.name, e), item.line)\n            data.extend(value)\n')]),
    ('p15-byte-append-guarded', ['C15'], [(A, '            try:\n                value = struct.pack(fmt, value)\n            except struct.error as e:\n                raise AssemblerError(\'value {} does not fit "{}": {}\'.format(value, item.name, e), item.line)\n            data.extend(value)\n', '            if item.name == \'bytes\' and 0 <= value <= 255:\n                data.append(value)\n                continue\n            try:\n                value = struct.pack(fmt, value)\n            except struct.error as e:\n                raise AssemblerError(\'value {} does not fit "{}": {}\'.format(value, item.name, e), item.line)\n            data.extend(value)\n')]),
    ('p15-range-check-to-bytes', ['C15'], [(A, '            try:\n                value = struct.pack(fmt, value)\n            except struct.error as e:\n                raise AssemblerError(\'value {} does not fit "{}": {}\'.format(value, item.name, e), item.line)\n            data.extend(value)\n', '            width = struct.calcsize(fmt)\n            if value < 0:\n                lo, hi = -(1 << (8 * width - 1)), (1 << (8 * width - 1)) - 1\n            else:\n                lo, hi = 0, (1 << (8 * width)) - 1\n            if not lo <= value <= hi:\n                raise AssemblerError(\'value {} does not fit "{}"\'.format(value, item.name), item.line)\n            data.extend(value.to_bytes(width, \'little\', signed=value < 0))\n')]),
    ('p15-error-at-builder', ['C15'], [(A, "    def __init__(self, message, line):\n        super().__init__(message)\n        self.message = message\n        self.line = line\n\n    def __str__(self):\n        return '{}\\nAssemblerError: {}'.format(self.line, self.message)\n", "    def __init__(self, message, line):\n        super().__init__(message)\n        self.message = message\n        self.line = line\n\n    def at(self, line):\n        self.line = line\n        return self\n\n    def __str__(self):\n        return '{}\\nAssemblerError: {}'.format(self.line, self.message)\n"), (A, "            raise AssemblerError('alignment must be an integer', line)\n", "            raise AssemblerError('alignment must be an integer', None).at(line)\n")]),
    ('p15-error-built-then-set', ['C15'], [(A, "            raise AssemblerError('alignment must be an integer', line)\n", "            error = AssemblerError('alignment must be an integer', None)\n            error.line = line\n            raise error\n")]),
    ('p15-error-no-str', ['C15'], [(A, "    def __init__(self, message, line):\n        super().__init__(message)\n        self.message = message\n        self.line = line\n\n    def __str__(self):\n        return '{}\\nAssemblerError: {}'.format(self.line, self.message)\n", "    def __init__(self, message, line):\n        super().__init__('{}\\nAssemblerError: {}'.format(line, message))\n        self.message = message\n        self.line = line\n")]),
    ('p15-error-str-helper', ['C15'], [(A, 'class AssemblerError(Exception):', "def render_error(error):\n    return '{}\\nAssemblerError: {}'.format(error.line, error.message)\n\n\nclass AssemblerError(Exception):"), (A, "    def __str__(self):\n        return '{}\\nAssemblerError: {}'.format(self.line, self.message)\n", '    def __str__(self):\n        return render_error(self)\n')]),
    ('p15-error-str-alias', ['C15'], [(A, "    def __str__(self):\n        return '{}\\nAssemblerError: {}'.format(self.line, self.message)\n", "    def describe(self):\n        return '{}\\nAssemblerError: {}'.format(self.line, self.message)\n\n    __str__ = describe\n")]),
    ('p15-error-tuple-assign', ['C15'], [(A, "    def __init__(self, message, line):\n        super().__init__(message)\n        self.message = message\n        self.line = line\n\n    def __str__(self):\n        return '{}\\nAssemblerError: {}'.format(self.line, self.message)\n", "    def __init__(self, message, line):\n        super().__init__(message)\n        self.message, self.line = message, line\n\n    def __str__(self):\n        return '{}\\nAssemblerError: {}'.format(self.line, self.message)\n")]),
    ('p15-error-star-init', ['C15'], [(A, "    def __init__(self, message, line):\n        super().__init__(message)\n        self.message = message\n        self.line = line\n\n    def __str__(self):\n        return '{}\\nAssemblerError: {}'.format(self.line, self.message)\n", "    def __init__(self, *args):\n        super().__init__(args[0])\n        self.message, self.line = args\n\n    def __str__(self):\n        return '{}\\nAssemblerError: {}'.format(self.line, self.message)\n")]),
    ('p15-line-str-alias', ['C15'], [(A, '    def __str__(self):\n        s = \'File "{}", line {}\\n  {}\'\n        s = s.format(self.file, self.number, self.contents.lstrip())\n        return s\n', '    def describe(self):\n        s = \'File "{}", line {}\\n  {}\'\n        s = s.format(self.file, self.number, self.contents.lstrip())\n        return s\n\n    __str__ = describe\n')]),
    ('p15-lines-iter', ['C15'], [(A, '    for i, raw_line in enumerate(source.splitlines(), start=1):\n', '    rows = iter(source.splitlines())\n    for i, raw_line in enumerate(rows, start=1):\n')]),
    ('p15-lines-star-copy', ['C15'], [(A, '    for i, raw_line in enumerate(source.splitlines(), start=1):\n', '    for i, raw_line in enumerate([*source.splitlines()], start=1):\n')]),
    ('p15-lines-genexp-copy', ['C15'], [(A, '    for i, raw_line in enumerate(source.splitlines(), start=1):\n', '    for i, raw_line in enumerate((row for row in source.splitlines()), start=1):\n')]),
    ('p15-lines-slice-copy', ['C15'], [(A, '    for i, raw_line in enumerate(source.splitlines(), start=1):\n', '    rows = source.splitlines()\n    for i, raw_line in enumerate(rows[:], start=1):\n')]),
    ('p15-handler-keeps-assembler-error', ['C15'], [(A, '        try:\n            data = struct.pack(item.fmt, item.imm)\n        except struct.error as e:\n            raise AssemblerError(\'value {} does not fit pack format "{}": {}\'.format(item.imm, item.fmt, e), item.line)\n', '        try:\n            data = struct.pack(item.fmt, item.imm)\n        except Exception as e:\n            if isinstance(e, AssemblerError):\n                raise\n            raise AssemblerError(\'value {} does not fit pack format "{}": {}\'.format(item.imm, item.fmt, e), item.line)\n')]),
    ('p15-pack-error-alias', ['C15'], [(A, 'def resolve_packs(items):', 'PackError = struct.error\n\n\ndef resolve_packs(items):'), (A, '        try:\n            data = struct.pack(item.fmt, item.imm)\n        except struct.error as e:\n            raise AssemblerError(\'value {} does not fit pack format "{}": {}\'.format(item.imm, item.fmt, e), item.line)\n', '        try:\n            data = struct.pack(item.fmt, item.imm)\n        except PackError as e:\n            raise AssemblerError(\'value {} does not fit pack format "{}": {}\'.format(item.imm, item.fmt, e), item.line)\n')]),
    ('p15-map-partial-int', ['C15'], [(A, 'import abc\n', 'import abc\nimport functools\n'), (A, '        try:\n            values = [int(value, base=0) for value in item.values]\n        except ValueError as e:\n            raise AssemblerError(str(e), item.line)\n', '        try:\n            values = list(map(functools.partial(int, base=0), item.values))\n        except ValueError as e:\n            raise AssemblerError(str(e), item.line)\n')]),
    ('p15-lexer-findall', ['C15'], [(A, "    tokens = re.split(r'[\\s,]+', contents)\n\n    # remove empty tokens\n    while '' in tokens:\n        tokens.remove('')\n", "    tokens = re.findall(r'[^\\s,]+', contents)\n")]),
    ('p15-local-rule-class', ['C15'], [(A, '    position = 0\n    new_items = []\n    for item in items:\n        # skip non-instructions and pseudo-instructions\n', '    class Rule:\n        def __init__(self, form, checks):\n            self.form = form\n            self.checks = checks\n\n        def matches(self, item, position, env):\n            return all(check(item, position, env) for check in self.checks)\n\n    rules = [Rule(form, checks) for form, checks in criteria.items()]\n\n    position = 0\n    new_items = []\n    for item in items:\n        # skip non-instructions and pseudo-instructions\n', 0), (A, '        try:\n            for name, preds in criteria.items():\n                if all(pred(item, position, env) for pred in preds):\n                    compressed = name\n                    break\n        except ValueError as e:\n            raise AssemblerError(str(e), item.line)\n', '        try:\n            for rule in rules:\n                if rule.matches(item, position, env):\n                    compressed = rule.form\n                    break\n        except ValueError as e:\n            raise AssemblerError(str(e), item.line)\n')]),
    ('p15-map-stages', ['C15'], [(A, '    tokens = [lex_tokens(l) for l in lines]\n    tokens = [t for t in tokens if len(t) > 0]\n    items = [parse_item(t) for t in tokens]\n', '    tokens = [t for t in map(lex_tokens, lines) if len(t) > 0]\n    items = list(map(parse_item, tokens))\n')]),
    ('p15-staticmethod-attribute', ['C15'], [(A, '    def eval(self, position, env, line):\n        value = self.expr.eval(position, env, line)\n        return relocate_hi(value)\n', '    relocate = staticmethod(relocate_hi)\n\n    def eval(self, position, env, line):\n        value = self.expr.eval(position, env, line)\n        return self.relocate(value)\n')]),
    ('p15-items-view-union', ['C15'], [(A, '        env = ChainMap(constants, labels)\n        imm = eval_immediate(item, position, env)', '        env = dict(labels.items() | constants.items())\n        imm = eval_immediate(item, position, env)')]),
    ('p15-size-percent-format', ['C15'], [(A, "            line.contents = '{} {}'.format(raw_line, size)", "            line.contents = '%s %d' % (raw_line, size)")]),
    ('p15-while-index', ['C15'], [(A, '    for i, raw_line in enumerate(source.splitlines(), start=1):\n', '    rows = source.splitlines()\n    i = 0\n    while i < len(rows):\n        raw_line = rows[i]\n        i += 1\n')]),
    ('p15-range-index', ['C15'], [(A, '    for i, raw_line in enumerate(source.splitlines(), start=1):\n', '    rows = source.splitlines()\n    for pos in range(len(rows)):\n        raw_line = rows[pos]\n        i = pos + 1\n')]),
    ('p15-to-bytes-covered', ['C15'], [(A, '                value = struct.pack(fmt, value)\n', "                value = value.to_bytes(struct.calcsize(fmt), 'little', signed=value < 0)\n"), (A, '            except struct.error as e:\n                raise AssemblerError(\'value {} does not fit "{}": {}\'.format(value, item.name, e), item.line)\n            data.extend(value)', '            except (struct.error, OverflowError) as e:\n                raise AssemblerError(\'value {} does not fit "{}": {}\'.format(value, item.name, e), item.line)\n            data.extend(value)')]),
    ('p15-reader-test-helper', ['C15'], [(A, 'def read_lines(path_or_source, *, include=False, include_dirs=None):', "def has_directive(raw_line, keyword):\n    return raw_line.lower().startswith(keyword + ' ')\n\n\ndef read_lines(path_or_source, *, include=False, include_dirs=None):"), (A, "        elif raw_line.lower().startswith('include_bytes '):\n", "        elif has_directive(raw_line, 'include_bytes'):\n")]),
    ('p15-reader-annotate-helper', ['C15'], [(A, 'def read_lines(path_or_source, *, include=False, include_dirs=None):', "def annotate_size(line, size):\n    line.contents = '{} {}'.format(line.contents, size)\n\n\ndef read_lines(path_or_source, *, include=False, include_dirs=None):"), (A, "            line.contents = '{} {}'.format(raw_line, size)", '            annotate_size(line, size)')]),
    ('p15-reduce-driver', ['C15'], [(A, '    items = resolve_strings(items)\n    items = resolve_sequences(items)\n    items = transform_shorthand_packs(items)\n    items = resolve_packs(items)\n    items = resolve_include_bytes(items)\n', '    import functools\n    late = [resolve_strings, resolve_sequences, transform_shorthand_packs, resolve_packs, resolve_include_bytes]\n    items = functools.reduce(lambda acc, step: step(acc), late, items)\n')]),
    ('p15-callable-pass-object', ['C15'], [(A, "def resolve_strings(items):\n    new_items = []\n    for item in items:\n        if not isinstance(item, String):\n            new_items.append(item)\n            continue\n\n        blob = Blob(item.line, item.value.encode('utf-8'))\n        new_items.append(blob)\n\n        log_conversion('resolve_strings', item, blob)\n\n    return new_items\n", "class StringResolver:\n    def __init__(self, encoding):\n        self.encoding = encoding\n\n    def __call__(self, items):\n        new_items = []\n        for item in items:\n            if isinstance(item, String):\n                blob = Blob(item.line, item.value.encode(self.encoding))\n                log_conversion('resolve_strings', item, blob)\n                new_items.append(blob)\n            else:\n                new_items.append(item)\n        return new_items\n\n\nresolve_strings = StringResolver('utf-8')\n")]),
    ('p15-located-helper', ['C15'], [(A, 'def resolve_instructions(items):', 'def located(fn, line, *args, **kwargs):\n    try:\n        return fn(*args, **kwargs)\n    except ValueError as e:\n        raise AssemblerError(str(e), line)\n\n\ndef resolve_instructions(items):'), (A, '        try:\n            # atomic insts expect aq and rl as kwargs\n            if isinstance(item, ATypeInstruction) or isinstance(item, ALTypeInstruction):\n                *args, aq, rl = item.args()\n                code = encode_func(*args, aq=aq, rl=rl)\n            else:\n                args = item.args()\n                code = encode_func(*args)\n        except ValueError as e:\n            raise AssemblerError(str(e), item.line)\n', '        # atomic insts expect aq and rl as kwargs\n        if isinstance(item, (ATypeInstruction, ALTypeInstruction)):\n            *args, aq, rl = item.args()\n            code = located(encode_func, item.line, *args, aq=aq, rl=rl)\n        else:\n            code = located(encode_func, item.line, *item.args())\n')]),
    # ---- C17: helpers, templates, exits ------------------------------------------------------------------------------------
    ('p-cli-write-helper', ['C17'], [(A, "def cli_main():\n", "def write_binary(path, data):\n    with open(path, 'wb') as handle:\n        handle.write(data)\n\n\ndef cli_main():\n"),
                                     (A, "    with open(args.output, 'wb') as out_bin:\n        out_bin.write(binary)\n", "    write_binary(args.output, binary)\n")]),
    ('p-cli-labels-fstring-loop', ['C17'], [(A, "        lines = ['{} 0x{:08x}\\n'.format(k, v) for k, v in labels.items()]\n        with open(args.labels, 'w') as f:\n            f.writelines(lines)",
                                            "        with open(args.labels, 'w') as f:\n            for name, address in labels.items():\n                f.write(f'{name} 0x{address:08x}\\n')")]),
    ('p-cli-labels-print', ['C17'], [(A, "        lines = ['{} 0x{:08x}\\n'.format(k, v) for k, v in labels.items()]\n        with open(args.labels, 'w') as f:\n            f.writelines(lines)",
                                     "        with open(args.labels, 'w') as f:\n            for name, address in labels.items():\n                print('{} 0x{:08x}'.format(name, address), file=f)")]),
    ('p-cli-labels-join', ['C17'], [(A, "            f.writelines(lines)", "            f.write(''.join(lines))")]),
    ('p-cli-labels-append-list', ['C17'], [(A, "        lines = ['{} 0x{:08x}\\n'.format(k, v) for k, v in labels.items()]\n", "        lines = []\n        for k, v in labels.items():\n            lines.append(k + ' ' + '0x{:08x}'.format(v) + '\\n')\n")]),
    ('p-cli-labels-keys', ['C17'], [(A, "        lines = ['{} 0x{:08x}\\n'.format(k, v) for k, v in labels.items()]\n", "        lines = ['{} 0x{:08x}\\n'.format(k, labels[k]) for k in labels]\n")]),
    ('p-cli-sys-exit', ['C17'], [(A, "    except AssemblerError as e:\n        raise SystemExit(e)", "    except AssemblerError as e:\n        sys.exit(e)")]),
    ('p-cli-hex-none-test', ['C17'], [(A, "    # output an additional file in the Intel HEX format at the given offset\n    if args.hex_offset:", "    # output an additional file in the Intel HEX format at the given offset\n    if hex_offset is not None:")]),
    ('p-cli-dest-rename', ['C17'], [(A, "    parser.add_argument('-o', '--output', metavar='FILE', default='bb.out', help='output binary file (default \"bb.out\")')", "    parser.add_argument('-o', '--output', dest='out_path', metavar='FILE', default='bb.out', help='output binary file (default \"bb.out\")')"),
                                    (A, "    with open(args.output, 'wb') as out_bin:", "    with open(args.out_path, 'wb') as out_bin:"),
                                    (A, "        bin2hex(args.output, args.output + '.hex', hex_offset)", "        bin2hex(args.out_path, f'{args.out_path}.hex', hex_offset)")]),
    ('p-cli-open-close', ['C17'], [(A, "    with open(args.output, 'wb') as out_bin:\n        out_bin.write(binary)\n", "    out_bin = open(args.output, 'wb')\n    out_bin.write(binary)\n    out_bin.close()\n")]),
    ('p-cli-hex-helper', ['C17'], [(A, "def cli_main():\n", "def parse_hex_offset(text):\n    if not text:\n        return None\n    try:\n        return int(text, 0)\n    except ValueError:\n        raise SystemExit('invalid hex offset: {}'.format(text))\n\n\ndef cli_main():\n"),
                                   (A, "    hex_offset = None\n    if args.hex_offset:\n        try:\n            hex_offset = int(args.hex_offset, base=0)\n        except:\n            raise SystemExit('invalid hex offset: {}'.format(args.hex_offset))\n", "    hex_offset = parse_hex_offset(args.hex_offset)\n")]),
    # ---- C16 / C11: pipeline spellings, per-call tables, cwd test, eval globals --------------------------------------------------
    ('p-asm-none-if', ['C11', 'C16'], [(A, "    constants = constants if constants is not None else {}\n    labels = labels if labels is not None else {}\n", "    if constants is None:\n        constants = {}\n    if labels is None:\n        labels = dict()\n")]),
    ('p-asm-table-helper', ['C11', 'C16'], [(A, "def assemble(path_or_source, *, constants=None, labels=None, compress=False, include_dirs=None):", "def _table(given):\n    if given is None:\n        return {}\n    return given\n\n\ndef assemble(path_or_source, *, constants=None, labels=None, compress=False, include_dirs=None):"),
                                            (A, "    constants = constants if constants is not None else {}\n    labels = labels if labels is not None else {}\n", "    constants = _table(constants)\n    labels = _table(labels)\n")]),
    ('p-asm-pass-loop', ['C11', 'C16'], [(A, "    items = resolve_instructions(items)\n    items = resolve_strings(items)\n    items = resolve_sequences(items)\n    items = transform_shorthand_packs(items)\n    items = resolve_packs(items)\n    items = resolve_include_bytes(items)\n",
                                          "    for step in (resolve_instructions, resolve_strings, resolve_sequences, transform_shorthand_packs, resolve_packs, resolve_include_bytes):\n        items = step(items)\n")]),
    ('p-asm-pass-lambdas', ['C11', 'C16'], [(A, "    items = resolve_constants(items, constants)\n    items = resolve_labels(items, labels)\n    items = resolve_register_aliases(items, constants)\n    if compress:\n        items = transform_compressible(items, constants, labels)\n    items = transform_pseudo_instructions(items, constants, labels)\n    items = resolve_register_aliases(items, constants)\n    if compress:\n        items = transform_compressible(items, constants, labels)\n",
                                             "    squeeze = [lambda its: transform_compressible(its, constants, labels)] if compress else []\n    steps = [lambda its: resolve_constants(its, constants), lambda its: resolve_labels(its, labels), lambda its: resolve_register_aliases(its, constants)]\n    steps += squeeze\n    steps.append(lambda its: transform_pseudo_instructions(its, constants, labels))\n    steps.append(lambda its: resolve_register_aliases(its, constants))\n    steps += squeeze\n    for step in steps:\n        items = step(items)\n")]),
    ('p-cwd-negated-test', ['C14', 'C16'], [(A, "    if is_path:\n        base_path = os.path.dirname(os.path.abspath(path_or_source))\n    else:\n        base_path = os.getcwd()", "    if not is_path:\n        base_path = os.getcwd()\n    else:\n        base_path = os.path.dirname(os.path.abspath(path_or_source))")]),
    ('p-eval-globals-const', ['C11', 'C16'], [(A, "# basic arithmetic expression\n", "NO_BUILTINS = {'__builtins__': None}\n\n\n# basic arithmetic expression\n"),
                                              (A, "            result = eval(self.expr, {'__builtins__': None}, env)", "            result = eval(self.expr, NO_BUILTINS, env)")]),
    # ---- C11: helper methods, module-level field set, renamed parameters ---------------------------------------------------------
    ('p-eval-char-helper', ['C11'], [(A, "    # be sure to not leak internal python exceptions out of this\n    def eval(self, position, env, line):\n        # check for single ASCII characters\n        if self.expr.startswith('\\'') and self.expr.endswith('\\''):\n            c = self.expr[1:-1]\n            c = c.encode('utf-8').decode('unicode_escape')\n            try:\n                return ord(c)\n            except TypeError:\n                raise AssemblerError('invalid char literal in expr: \"{}\"'.format(self.expr), line)\n",
                                         "    def is_char(self):\n        return self.expr.startswith('\\'') and self.expr.endswith('\\'')\n\n    def char_value(self, line):\n        c = self.expr[1:-1]\n        c = c.encode('utf-8').decode('unicode_escape')\n        try:\n            return ord(c)\n        except TypeError:\n            raise AssemblerError('invalid char literal in expr: \"{}\"'.format(self.expr), line)\n\n    # be sure to not leak internal python exceptions out of this\n    def eval(self, position, env, line):\n        if self.is_char():\n            return self.char_value(line)\n")]),
    ('p-eval-int-check-helper', ['C11'], [(A, "        # ensure resulting value is an integer\n        if type(result) != int:\n            s = 'result \"{}\" is not an integer from expr: \"{}\"'\n            s = s.format(result, self.expr)\n            raise AssemblerError(s, line)\n\n        return result\n",
                                              "        return self.checked(result, line)\n\n    def checked(self, number, line):\n        # ensure resulting value is an integer\n        if type(number) is not int:\n            s = 'result \"{}\" is not an integer from expr: \"{}\"'\n            s = s.format(number, self.expr)\n            raise AssemblerError(s, line)\n        return number\n")]),
    ('p-regs-module-const', ['C11'], [(A, "def resolve_register_aliases(items, constants):\n    REGS = {'rd', 'rs1', 'rs2', 'rd_rs1'}\n", "REGISTER_FIELDS = frozenset({'rd', 'rs1', 'rs2', 'rd_rs1'})\n\n\ndef resolve_register_aliases(items, constants):\n    REGS = REGISTER_FIELDS\n")]),
    ('p-alias-type-rebuild', ['C11'], [(A, "        # create the new item using the resolved registers\n        new_item = item.__class__(*d.values())", "        # create the new item using the resolved registers\n        new_item = type(item)(*d.values())")]),
    ('p-const-table-rename', ['C11'], [(A, "def resolve_constants(items, constants):", "def resolve_constants(items, table):"),
                                       (A, "        env = ChainMap(constants, REGISTERS)", "        env = ChainMap(table, REGISTERS)"),
                                       (A, "        constants[item.name] = value\n", "        table[item.name] = value\n")]),
    ('p-imm-env-rename', ['C11'], [(A, "def resolve_immediates(items, constants, labels):", "def resolve_immediates(items, consts, symbols):"),
                                   (A, "        # resolve the immediate field\n        env = ChainMap(constants, labels)", "        # resolve the immediate field\n        env = ChainMap(consts, symbols)")]),
    ('p-shadow-keys-spelling', ['C11'], [(A, "        if item.name in REGISTERS:\n            s = 'constant name cannot shadow a register name \"{}\"'", "        if not (item.name not in REGISTERS.keys()):\n            s = 'constant name cannot shadow a register name \"{}\"'")]),
    ('p-hi-eval-nested', ['C11'], [(A, "        value = self.expr.eval(position, env, line)\n        return relocate_hi(value)", "        return relocate_hi(self.expr.eval(position, env, line))")]),
    ('p-alias-dictcomp', ['C11'], [(A, "    REGS = {'rd', 'rs1', 'rs2', 'rd_rs1'}\n\n    new_items = []\n    for item in items:\n        d = copy.deepcopy(vars(item))\n\n        # skip items without any register fields\n        if not set(d.keys()) & REGS:\n            new_items.append(item)\n            continue\n\n        # resolve all fields that are registers\n        modified = False\n        resolved_regs = {}\n        for key, value in d.items():\n            # skip if item field is not a register\n            if key not in REGS:\n                continue\n            # skip if reg is not a constant\n            if value not in constants:\n                continue\n            # reg IS a constant\n            modified = True\n            reg = constants[value]\n            resolved_regs[key] = reg\n\n        if not modified:\n            new_items.append(item)\n            continue\n\n        d.update(resolved_regs)\n", "    REGS = ('rd', 'rs1', 'rs2', 'rd_rs1')\n\n    new_items = []\n    for item in items:\n        d = copy.deepcopy(vars(item))\n\n        # register fields that name a constant\n        resolved_regs = {key: constants[value] for key, value in d.items() if key in REGS and value in constants}\n        if not resolved_regs:\n            new_items.append(item)\n            continue\n\n        d.update(resolved_regs)\n")]),
]

# edits that move the code outside what the analysis can decide: the check must end with ANALYSIS-ERROR (exit 2),
# neither pass nor claim a violation
UNDECIDED = [
    ('c15-line-rebuilt-shifted', ['C15'], [(A, "            line.contents = '{} {}'.format(raw_line, size)\n", "            line = Line(line.file, line.number + 1, '{} {}'.format(raw_line, size))\n")]),
    ('c15-regex-word-group', ['C15'], [(A, 'def parse_item(line_tokens):', "RE_DECIMAL = re.compile(r'(\\w+)$')\n\n\ndef parse_item(line_tokens):"), (A, "        try:\n            alignment = int(alignment, base=0)\n        except ValueError:\n            raise AssemblerError('alignment must be an integer', line)\n", "        decimal = RE_DECIMAL.match(alignment)\n        if decimal is not None and not alignment.startswith('0'):\n            alignment = int(decimal.group(1))\n        else:\n            try:\n                alignment = int(alignment, base=0)\n            except ValueError:\n                raise AssemblerError('alignment must be an integer', line)\n")]),
    ('c15-opaque-code-only', ['C15'], [(A, 'def resolve_blobs(items):\n', "def resolve_blobs(items):\n    exec('pass')\n")]),
    # round 7: table lookups with user keys, conversions behind the repository's own predicate, elements read back
    ('c15-revisit-appended-element', ['C15'], [(A, "        # swap out the instruction for its compressed counterpart\n        if compressed is not None:\n            if compressed == 'c.addi4spn':", "        if compressed == 'c.ebreak' and new_items:\n            prev = new_items[-1]\n            if isinstance(prev, RTypeInstruction) and prev.name == 'slli' and lookup_register(prev.rd) == 0:\n                compressed = None\n\n        # swap out the instruction for its compressed counterpart\n        if compressed is not None:\n            if compressed == 'c.addi4spn':")]),
    ('c15-lines-iter-skip-first', ['C15'], [(A, '    for i, raw_line in enumerate(source.splitlines(), start=1):\n', '    rows = iter(source.splitlines())\n    next(rows, None)\n    for i, raw_line in enumerate(rows, start=1):\n')]),
    ('c15-line-str-vars', ['C15'], [(A, '    def __str__(self):\n        s = \'File "{}", line {}\\n  {}\'\n        s = s.format(self.file, self.number, self.contents.lstrip())\n        return s\n', '    def __str__(self):\n        return \'File "{file}", line {number}\\n  \'.format(**vars(self)) + self.contents.lstrip()\n')]),
    ('c15-lines-deque', ['C15'], [(A, 'import abc\n', 'import abc\nimport collections\n'), (A, '    for i, raw_line in enumerate(source.splitlines(), start=1):\n', '    pending = collections.deque(source.splitlines())\n    i = 0\n    while pending:\n        raw_line = pending.popleft()\n        i += 1\n')]),
    ('c15-lexer-findall-groups', ['C15'], [(A, "    tokens = re.split(r'[\\s,]+', contents)\n\n    # remove empty tokens\n    while '' in tokens:\n        tokens.remove('')\n", "    tokens = [m[0] for m in re.findall(r'(([^\\s,])+)', contents)]\n")]),
    ('c15-size-in-the-middle', ['C15'], [(A, "            line.contents = '{} {}'.format(raw_line, size)", "            line.contents = '{} {} bytes'.format(raw_line, size)")]),
    ('c15-size-token-via-field', ['C15'], [(A, '        _, path, size = tokens\n        size = int(size, base=0)\n', '        operands = {}\n        for position, word in enumerate(tokens):\n            operands[position] = word\n        size = int(operands[2], base=0)\n')]),
    ('c09-align-mod', ['C09'], [(A, "padding = self.alignment - (position % self.alignment)", "padding = self.alignment - (position % (self.alignment + 1))")]),
    ('c17-labels-filtered', ['C17'], [(A, "        lines = ['{} 0x{:08x}\\n'.format(k, v) for k, v in labels.items()]", "        lines = ['{} 0x{:08x}\\n'.format(k, v) for k, v in labels.items() if not k.startswith('_')]")]),
    ('c17-chunked-write', ['C17'], [(A, "        out_bin.write(binary)", "        for start in range(0, len(binary), 4096):\n            out_bin.write(binary[start:start + 4096])")]),
]


# ---- C13 front end (lexrules: the rules follow the line text / token list / line objects / register operand, not the spelling) ----
_LEX_SPLIT = "    tokens = re.split(r'[\\s,]+', contents)"
_LEX_DROP = "    # remove empty tokens\n    while '' in tokens:\n        tokens.remove('')\n"
_LEX_SPLIT_DROP = "    tokens = re.split(r'[\\s,]+', contents)\n\n" + _LEX_DROP
_LEX_COMMENT = "    contents = re.sub(r'#.*$', r'', line.contents)"
_LEX_STRIP = "    # strip whitespace\n    contents = contents.strip()\n"
_LEX_EMPTY = "    # skip empty lines\n    if len(contents) == 0:\n        return LineTokens(line, [])\n\n    # split line into tokens\n    tokens = re.split(r'[\\s,]+', contents)\n"
_ASM_FRONT = ("    lines = [l for l in lines if len(l) > 0]\n    tokens = [lex_tokens(l) for l in lines]\n    tokens = [t for t in tokens if len(t) > 0]\n"
              "    items = [parse_item(t) for t in tokens]\n")
_RD_LOOP = "    for i, raw_line in enumerate(source.splitlines(), start=1):\n"
_RD_SKIP = "        # skip empty lines\n        if len(raw_line.strip()) == 0:\n            continue\n"
_REG_TRY = "    try:\n        reg = int(reg, base=0)\n    except:\n        pass\n"
_REG_LOOKUP = ("    try:\n        reg = REGISTERS[reg]\n    except KeyError:\n        raise ValueError('register must be a valid integer, name, or alias: {}'.format(reg))\n")

BREAKING += [
    # neither stripped nor empties dropped: indentation yields an empty first token
    ('c13-no-strip-no-drop', ['C13'], [(A, _LEX_STRIP, ""), (A, _LEX_DROP, "")]),
    ('c13-no-drop', ['C13'], [(A, _LEX_DROP, "")]),
    ('c13-precompiled-ws-only', ['C13'], [(A, "def lex_tokens(line):", "RE_SEPARATORS = re.compile(r'\\s+')\n\n\ndef lex_tokens(line):"),
                                          (A, _LEX_SPLIT, "    tokens = RE_SEPARATORS.split(contents)")]),
    ('c13-split-star', ['C13'], [(A, _LEX_SPLIT, "    tokens = re.split(r'[\\s,]*', contents)")]),
    ('c13-split-captured', ['C13'], [(A, _LEX_SPLIT, "    tokens = re.split(r'([\\s,]+)', contents)")]),
    ('c13-split-str-comma', ['C13'], [(A, _LEX_SPLIT, "    tokens = contents.split(',')")]),
    ('c13-replace-semicolon', ['C13'], [(A, _LEX_SPLIT_DROP, "    tokens = contents.replace(',', ' ').replace(';', ' ').split()\n")]),
    ('c13-comment-lazy', ['C13'], [(A, _LEX_COMMENT, "    contents = re.sub(r'#.*?', r'', line.contents)")]),
    ('c13-comment-precompiled-short', ['C13'], [(A, "def lex_tokens(line):", "RE_COMMENT = re.compile(r'#\\S*')\n\n\ndef lex_tokens(line):"),
                                                (A, _LEX_COMMENT, "    contents = RE_COMMENT.sub('', line.contents)")]),
    ('c13-hash-removed-before-comment', ['C13'], [(A, _LEX_COMMENT, "    contents = re.sub(r'#.*$', r'', line.contents.replace('#', ''))")]),
    ('c13-hash-stripped-before-comment', ['C13'], [(A, _LEX_COMMENT, "    contents = re.sub(r'#.*$', r'', line.contents.strip('# '))")]),
    ('c13-handover-no-filter', ['C13'], [(A, "    tokens = [t for t in tokens if len(t) > 0]\n", "")]),
    ('c13-handover-loop-no-check', ['C13'], [(A, _ASM_FRONT, "    items = []\n    for l in lines:\n        t = lex_tokens(l)\n        items.append(parse_item(t))\n")]),
    ('c13-handover-filters-lines-only', ['C13'], [(A, _ASM_FRONT, "    lines = [l for l in lines if len(l) > 0]\n    items = [parse_item(lex_tokens(l)) for l in lines]\n")]),
    ('c13-handover-or-flag', ['C13'], [(A, _ASM_FRONT, "    items = []\n    for l in lines:\n        t = lex_tokens(l)\n        if t or compress:\n            items.append(parse_item(t))\n")]),
    ('c13-reader-range-offset', ['C13'], [(A, _RD_LOOP, "    physical = [l for l in source.splitlines() if l.strip()]\n    for index in range(len(physical)):\n        i = index + 1\n        raw_line = physical[index]\n")]),
    ('c13-counter-after-skip', ['C13'], [(A, _RD_LOOP + _RD_SKIP, "    i = 0\n    for raw_line in source.splitlines():\n" + _RD_SKIP + "        i += 1\n")]),
    ('c13-numbering-filter-call', ['C13'], [(A, _RD_LOOP, "    for i, raw_line in enumerate(filter(None, source.splitlines()), start=1):\n")]),
    ('c13-reg-no-int', ['C13'], [(A, _REG_TRY, "")]),
    ('c13-reg-int-base10', ['C13'], [(A, "        reg = int(reg, base=0)\n    except:\n        pass", "        reg = int(reg)\n    except:\n        pass")]),
    ('c13-reg-int-base16', ['C13'], [(A, "        reg = int(reg, base=0)\n    except:\n        pass", "        reg = int(reg, 16)\n    except:\n        pass")]),
]

PRESERVING += [
    # empties are dropped after the split, so the strip is redundant (differentially tested; this was listed as breaking before)
    ('p13-no-strip', ['C13'], [(A, _LEX_STRIP, "")]),
    ('p13-precompiled', ['C13'], [(A, "def lex_tokens(line):", "RE_COMMENT = re.compile(r'#.*$')\nRE_SEPARATORS = re.compile(r'[\\s,]+')\n\n\ndef lex_tokens(line):"),
                                  (A, _LEX_COMMENT, "    contents = RE_COMMENT.sub('', line.contents)"),
                                  (A, _LEX_SPLIT, "    tokens = RE_SEPARATORS.split(contents)")]),
    ('p13-drop-comprehension', ['C13'], [(A, _LEX_DROP, "    tokens = [token for token in tokens if token]\n")]),
    ('p13-drop-comprehension-len', ['C13'], [(A, _LEX_SPLIT_DROP, "    tokens = [token for token in re.split(r'[\\s,]+', contents) if len(token) != 0]\n")]),
    ('p13-drop-filter-none', ['C13'], [(A, _LEX_SPLIT_DROP, "    tokens = list(filter(None, re.split(r'[\\s,]+', contents)))\n")]),
    ('p13-drop-filter-lambda', ['C13'], [(A, _LEX_DROP, "    tokens = list(filter(lambda tok: tok != '', tokens))\n")]),
    ('p13-drop-loop', ['C13'], [(A, _LEX_SPLIT_DROP, "    tokens = []\n    for token in re.split(r'[\\s,]+', contents):\n        if token:\n            tokens.append(token)\n")]),
    ('p13-comma-to-space', ['C13'], [(A, _LEX_SPLIT_DROP, "    tokens = contents.replace(',', ' ').split()\n")]),
    ('p13-comment-partition', ['C13'], [(A, _LEX_COMMENT, "    contents, _, _ = line.contents.partition('#')")]),
    ('p13-comment-partition-index', ['C13'], [(A, _LEX_COMMENT, "    contents = line.contents.partition('#')[0]")]),
    ('p13-comment-split-once', ['C13'], [(A, _LEX_COMMENT, "    contents = line.contents.split('#', 1)[0]")]),
    ('p13-comment-class', ['C13'], [(A, _LEX_COMMENT, "    contents = re.sub(r'\\s*#[^\\n]*', '', line.contents)")]),
    ('p13-comment-helper', ['C13'], [(A, "def lex_tokens(line):", "def strip_comment(text):\n    return re.sub(r'#.*$', '', text)\n\n\ndef lex_tokens(line):"),
                                     (A, _LEX_COMMENT, "    contents = strip_comment(line.contents)")]),
    ('p13-comment-after-pad', ['C13'], [(A, "    # strip comments\n    contents = re.sub(r'#.*$', r'', line.contents)\n\n    # pad parens before split\n    contents = contents.replace('(', ' ( ').replace(')', ' ) ')\n",
                                         "    contents = line.contents.replace('(', ' ( ').replace(')', ' ) ')\n    contents = re.sub(r'#.*$', r'', contents)\n")]),
    ('p13-hash-padded', ['C13'], [(A, _LEX_COMMENT, "    contents = re.sub(r'#.*$', r'', line.contents.replace('#', ' # '))")]),
    ('p13-split-alternation', ['C13'], [(A, _LEX_SPLIT, "    tokens = re.split(r'(?:\\s|,)+', contents)")]),
    ('p13-split-comma-or-space', ['C13'], [(A, _LEX_SPLIT, "    tokens = re.split(r'\\s*,\\s*|\\s+', contents)")]),
    ('p13-empty-ifexp', ['C13'], [(A, _LEX_EMPTY, "    tokens = re.split(r'[\\s,]+', contents) if contents else []\n")]),
    ('p13-empty-not', ['C13'], [(A, "    if len(contents) == 0:\n        return LineTokens(line, [])", "    if not contents:\n        return LineTokens(line, [])")]),
    ('p13-collapse-whitespace', ['C13'], [(A, _LEX_STRIP, "    contents = re.sub(r'\\s+', ' ', contents).strip()\n")]),
    ('p13-handover-helper', ['C13'], [(A, "def assemble(path_or_source, *, constants=None", "def parse_source(path_or_source, include_dirs):\n    source_lines = read_lines(path_or_source, include_dirs=include_dirs)\n"
                                          "    tokenized = [lex_tokens(line) for line in source_lines]\n    tokenized = [lt for lt in tokenized if len(lt) > 0]\n"
                                          "    return [parse_item(lt) for lt in tokenized]\n\n\ndef assemble(path_or_source, *, constants=None"),
                                      (A, "    lines = read_lines(path_or_source, include_dirs=include_dirs)\n" + _ASM_FRONT, "    items = parse_source(path_or_source, include_dirs)\n")]),
    ('p13-handover-loop', ['C13'], [(A, _ASM_FRONT, "    items = []\n    for l in lines:\n        t = lex_tokens(l)\n        if len(t) == 0:\n            continue\n        items.append(parse_item(t))\n")]),
    ('p13-handover-loop-positive', ['C13'], [(A, _ASM_FRONT, "    items = []\n    for l in lines:\n        t = lex_tokens(l)\n        if t.tokens:\n            items.append(parse_item(t))\n")]),
    ('p13-handover-one-comprehension', ['C13'], [(A, _ASM_FRONT, "    items = [parse_item(t) for t in map(lex_tokens, lines) if len(t.tokens) > 0]\n")]),
    ('p13-handover-filter-len', ['C13'], [(A, "    tokens = [t for t in tokens if len(t) > 0]\n", "    tokens = list(filter(len, tokens))\n")]),
    ('p13-handover-map', ['C13'], [(A, "    items = [parse_item(t) for t in tokens]\n", "    items = list(map(parse_item, tokens))\n")]),
    ('p13-handover-truth', ['C13'], [(A, "    tokens = [t for t in tokens if len(t) > 0]\n", "    tokens = [line_tokens for line_tokens in tokens if line_tokens]\n")]),
    ('p13-handover-walrus', ['C13'], [(A, _ASM_FRONT, "    items = [parse_item(t) for l in lines if (t := lex_tokens(l))]\n")]),
    ('p13-handover-len-local', ['C13'], [(A, _ASM_FRONT, "    items = []\n    for l in lines:\n        t = lex_tokens(l)\n        count = len(t)\n        if count == 0:\n            continue\n        items.append(parse_item(t))\n")]),
    ('p13-handover-generators', ['C13'], [(A, _ASM_FRONT, "    token_lines = (lex_tokens(l) for l in lines)\n    items = [parse_item(t) for t in filter(None, token_lines)]\n")]),
    ('p13-lexer-isinstance-line', ['C13'], [(A, "    if type(line) == str:\n        line = Line('<string>', 1, line)\n", "    if not isinstance(line, Line):\n        line = Line('<string>', 1, line)\n")]),
    ('p13-lexer-or-empty', ['C13'], [(A, "    # carry the line and its tokens forward\n    return LineTokens(line, tokens)", "    return LineTokens(line=line, tokens=tokens or [])")]),
    ('p13-lexer-strip-tokens', ['C13'], [(A, _LEX_DROP, "    tokens = [t for t in (s.strip() for s in tokens) if t]\n")]),
    ('p13-reader-range-len', ['C13'], [(A, _RD_LOOP, "    physical = source.splitlines()\n    for index in range(len(physical)):\n        i = index + 1\n        raw_line = physical[index]\n")]),
    ('p13-reader-counter', ['C13'], [(A, _RD_LOOP, "    i = 0\n    for raw_line in source.splitlines():\n        i += 1\n")]),
    ('p13-reader-zip-count', ['C13'], [(A, _RD_LOOP, "    import itertools\n    for i, raw_line in zip(itertools.count(1), source.splitlines()):\n")]),
    ('p13-reader-enum-plus-one', ['C13'], [(A, _RD_LOOP, "    for index, raw_line in enumerate(source.splitlines()):\n        i = index + 1\n")]),
    ('p13-reader-local-list', ['C13'], [(A, _RD_LOOP, "    physical_lines = source.splitlines()\n    for i, raw_line in enumerate(physical_lines, 1):\n")]),
    ('p13-reader-skip-not', ['C13'], [(A, "        if len(raw_line.strip()) == 0:\n            continue", "        if not raw_line.strip():\n            continue")]),
    # whitespace-only lines lex to no tokens and are dropped before the parser: the reader's own skip is redundant
    ('p13-reader-no-skip', ['C13'], [(A, _RD_SKIP, "")]),
]

# Preserving rewrites of lookup_register that the front-end rules of C13 (bbverif/lexrules.py) understand, but on which the shared
# encoder engine (bitdom inlines lookup_register into every encoder summary) still gives up, so the whole C13 check ends with exit 2.
# They are not run by selftest.py; tools/c13_frontend.py runs the front-end rules alone on them (and on every c13-/p13-/u13- variant
# above).  Move an entry to PRESERVING once bitdom follows the shape.
C13_FRONTEND_PRESERVING = [
    ('p13-reg-get', ['C13'], [(A, _REG_LOOKUP, "    number = REGISTERS.get(reg)\n    if number is None:\n        raise ValueError('register must be a valid integer, name, or alias: {}'.format(reg))\n    reg = number\n")]),
    ('p13-reg-except-tuple', ['C13'], [(A, _REG_TRY, "    try:\n        reg = int(reg, 0)\n    except (TypeError, ValueError):\n        pass\n")]),
    ('p13-reg-isinstance', ['C13'], [(A, _REG_TRY, "    if isinstance(reg, str):\n        try:\n            reg = int(reg, 0)\n        except ValueError:\n            pass\n")]),
    ('p13-reg-is-int', ['C13'], [(A, _REG_TRY, "    if is_int(reg):\n        reg = int(reg, base=0)\n")]),
    ('p13-reg-helper', ['C13'], [(A, "def lookup_register(reg, compressed=False):", "def register_key(reg):\n    try:\n        return int(reg, 0)\n    except Exception:\n        return reg\n\n\ndef lookup_register(reg, compressed=False):"),
                                 (A, _REG_TRY, "    reg = register_key(reg)\n")]),
    ('p13-reg-membership', ['C13'], [(A, _REG_LOOKUP, "    if reg not in REGISTERS:\n        raise ValueError('register must be a valid integer, name, or alias: {}'.format(reg))\n    reg = REGISTERS[reg]\n")]),
]

UNDECIDED += [
    # understood well enough to know that the rules do not cover it: no verdict, never a finding
    ('u13-lower-whole-line', ['C13'], [(A, _LEX_STRIP, "    contents = contents.strip().lower()\n")]),
    ('u13-comment-other-char', ['C13'], [(A, _LEX_COMMENT, "    contents = line.contents.partition(';')[0]")]),
    ('u13-odd-token-filter', ['C13'], [(A, _LEX_DROP, "    tokens = [t for t in tokens if t != ',']\n")]),
    ('u13-handover-odd-filter', ['C13'], [(A, "    tokens = [t for t in tokens if len(t) > 0]\n", "    tokens = [t for t in tokens if len(t) > 1]\n")]),
    ('u13-handover-len-local-odd', ['C13'], [(A, _ASM_FRONT, "    items = []\n    for l in lines:\n        t = lex_tokens(l)\n        count = len(t)\n        if count < 2:\n            continue\n        items.append(parse_item(t))\n")]),
    # the parser drops token-less lines itself (returns None, filtered by assemble): correct, but only the caller-side check is followed
    ('u13-parser-guards-empty', ['C13'], [(A, "def parse_item(line_tokens):\n", "def parse_item(line_tokens):\n    if len(line_tokens) == 0:\n        return None\n"),
                                          (A, "    tokens = [t for t in tokens if len(t) > 0]\n", "")]),
    ('u13-reg-valueerror-only', ['C13'], [(A, _REG_TRY, "    try:\n        reg = int(reg, base=0)\n    except ValueError:\n        pass\n")]),
    ('u13-reg-startswith', ['C13'], [(A, _REG_TRY, "    if str(reg).startswith('0x'):\n        reg = int(reg, base=0)\n")]),
    ('u13-numbering-stripped-source', ['C13'], [(A, _RD_LOOP, "    for i, raw_line in enumerate(source.strip().splitlines(), start=1):\n")]),
    ('u13-split-literal-whitespace', ['C13'], [(A, _LEX_SPLIT, "    tokens = re.split(r'[ \\t,]+', contents)")]),
]


# ---- front-end wiring / pack rule: idioms of behaviour-preserving refactors (token flow through slices, helpers, parser
# factories, dispatch tables; pack rule over paths) -----------------------------------------------------------------------------
_U_ARM_OLD = "        name, rd, *imm = tokens\n        name = name.lower()\n        imm = parse_immediate(imm, line)\n        return UTypeInstruction(line, name, rd, imm)"
_B_ARM_OLD = ("        name, rs1, rs2, reference = tokens\n        name = name.lower()\n        if is_int(reference):\n            imm = [reference]\n        else:\n"
              "            # behavior is \"offset\" for branches to labels\n            imm = ['%offset', reference]\n        imm = parse_immediate(imm, line)\n"
              "        return BTypeInstruction(line, name, rs1, rs2, imm)")
_R_ARM_OLD = ("        if len(tokens) != 4:\n            raise AssemblerError('r-type instructions require exactly 3 args', line)\n        name, rd, rs1, rs2 = tokens\n"
              "        name = name.lower()\n        return RTypeInstruction(line, name, rd, rs1, rs2)")
_CR_ARM_OLD = ("    # cr-type instructions\n    elif head in CR_TYPE_INSTRUCTIONS:\n        if len(tokens) != 3:\n            raise AssemblerError('cr-type instructions require exactly 2 args', line)\n"
               "        name, rd_rs1, rs2 = tokens\n        name = name.lower()\n        return CRTypeInstruction(line, name, rd_rs1, rs2)\n")
_CA_ARM_OLD = ("    # ca-type instructions\n    elif head in CA_TYPE_INSTRUCTIONS:\n        if len(tokens) != 3:\n            raise AssemblerError('ca-type instructions require exactly 2 args', line)\n"
               "        name, rd_rs1, rs2 = tokens\n        name = name.lower()\n        return CATypeInstruction(line, name, rd_rs1, rs2)\n")
_PARSE_ITEM_DEF = "def parse_item(line_tokens):\n"
_REFERENCE_HELPER = ("def parse_reference(reference, line):\n    if is_int(reference):\n        imm = [reference]\n    else:\n        imm = ['%offset', reference]\n"
                     "    return parse_immediate(imm, line)\n\n\n")
_FACTORY = ("def plain_args_parser(cls, count, message):\n    def parse(line, name, tokens):\n        if len(tokens) != 1 + count:\n            raise AssemblerError(message, line)\n"
            "        return cls(line, name, *tokens[1:])\n    return parse\n\n\n")
_LABEL_ARM = "    if len(tokens) == 1 and tokens[0].endswith(':'):"
_TABLE_LOOP = ("    for names, parser in TWO_REG_PARSERS:\n        if head in names:\n            return parser(line, head, tokens)\n\n")
_TABLE_DEF = ("TWO_REG_PARSERS = [\n    (CR_TYPE_INSTRUCTIONS, plain_args_parser(CRTypeInstruction, 2, 'cr-type instructions require exactly 2 args')),\n"
              "    (CA_TYPE_INSTRUCTIONS, plain_args_parser(CATypeInstruction, 2, 'ca-type instructions require exactly 2 args')),\n]\n\n\n")
_AQRL_OLD = "                *args, aq, rl = item.args()\n                code = encode_func(*args, aq=aq, rl=rl)"
_ISA_OLD = "if isinstance(item, ATypeInstruction) or isinstance(item, ALTypeInstruction):"
_FMT_OLD = "        if isinstance(item, CompressedInstruction):\n            fmt = '<H'\n        else:\n            fmt = '<I'\n"
_RESOLVE_OLD = ("def resolve_instructions(items):\n    new_items = []\n\n    for item in items:\n        if not isinstance(item, Instruction):\n            new_items.append(item)\n            continue\n\n"
                "        encode_func = INSTRUCTIONS[item.name]\n        try:\n            # atomic insts expect aq and rl as kwargs\n            " + _ISA_OLD + "\n" + _AQRL_OLD + "\n"
                "            else:\n                args = item.args()\n                code = encode_func(*args)\n        except ValueError as e:\n            raise AssemblerError(str(e), item.line)\n\n"
                "        # pack into 2 bytes if item is a CompressedInstruction, else 4\n" + _FMT_OLD + "\n        code = struct.pack(fmt, code)\n        blob = Blob(item.line, code)\n        new_items.append(blob)\n\n"
                "        log_conversion('resolve_instructions', item, blob)\n\n    return new_items\n")
_RESOLVE_CLOSURE = ("def convert_each(pass_name, items, item_type, convert):\n    new_items = []\n    for item in items:\n        if isinstance(item, item_type):\n            new_item = convert(item)\n"
                    "            new_items.append(new_item)\n            log_conversion(pass_name, item, new_item)\n        else:\n            new_items.append(item)\n    return new_items\n\n\n"
                    "def resolve_instructions(items):\n    def encode(item):\n        encode_func = INSTRUCTIONS[item.name]\n        try:\n"
                    "            if isinstance(item, (ATypeInstruction, ALTypeInstruction)):\n                *args, aq, rl = item.args()\n                code = encode_func(*args, aq=aq, rl=rl)\n"
                    "            else:\n                code = encode_func(*item.args())\n        except ValueError as e:\n            raise AssemblerError(str(e), item.line)\n"
                    "        fmt = '<H' if isinstance(item, CompressedInstruction) else '<I'\n        return Blob(item.line, struct.pack(fmt, code))\n\n"
                    "    return convert_each('resolve_instructions', items, Instruction, encode)\n")
_WIRING_PROPS = None

PRESERVING += [
    ('p-parse-slice', _WIRING_PROPS, [(A, _U_ARM_OLD, "        name = tokens[0].lower()\n        return UTypeInstruction(line, name, tokens[1], parse_immediate(tokens[2:], line))")]),
    ('p-parse-helper', _WIRING_PROPS, [(A, "# helper for parsing immediates since they occur in multiple places\n", _REFERENCE_HELPER + "# helper for parsing immediates since they occur in multiple places\n"),
                                       (A, _B_ARM_OLD, "        name, rs1, rs2, reference = tokens\n        return BTypeInstruction(line, head, rs1, rs2, parse_reference(reference, line))")]),
    ('p-parse-factory', _WIRING_PROPS, [(A, _PARSE_ITEM_DEF, _FACTORY + "parse_r_type = plain_args_parser(RTypeInstruction, 3, 'r-type instructions require exactly 3 args')\n\n\n" + _PARSE_ITEM_DEF),
                                        (A, _R_ARM_OLD, "        return parse_r_type(line, head, tokens)")]),
    ('p-parse-table-loop', _WIRING_PROPS, [(A, _PARSE_ITEM_DEF, _FACTORY + _TABLE_DEF + _PARSE_ITEM_DEF),
                                           (A, _CR_ARM_OLD, ""), (A, _CA_ARM_OLD, ""),
                                           (A, _LABEL_ARM, _TABLE_LOOP + _LABEL_ARM)]),
    ('p-parse-early-returns', _WIRING_PROPS, [(A, "    # u-type instructions\n    elif head in U_TYPE_INSTRUCTIONS:", "    # u-type instructions\n    if head in U_TYPE_INSTRUCTIONS:")]),
    ('p-pack-tuple-isinstance', None, [(A, _ISA_OLD, "if isinstance(item, (ATypeInstruction, ALTypeInstruction)):")]),
    ('p-pack-ifexp', ['C01', 'C02'], [(A, _FMT_OLD, "        fmt = '<H' if isinstance(item, CompressedInstruction) else '<I'\n")]),
    ('p-pack-size-table', ['C01', 'C02'], [(A, _FMT_OLD, "        fmt = {2: '<H', 4: '<I'}[item.size()]\n")]),
    ('p-pack-slices', None, [(A, _AQRL_OLD, "                ops = item.args()\n                code = encode_func(*ops[:-2], aq=ops[-2], rl=ops[-1])")]),
    ('p-pack-closure', ['C01', 'C02'], [(A, _RESOLVE_OLD, _RESOLVE_CLOSURE)]),
]

BREAKING += [
    ('c01-parse-slice-off', ['C01'], [(A, _U_ARM_OLD, "        name = tokens[0].lower()\n        return UTypeInstruction(line, name, tokens[1], parse_immediate(tokens[1:], line))")]),
    ('c01-parse-helper-raw', ['C01'], [(A, "# helper for parsing immediates since they occur in multiple places\n", _REFERENCE_HELPER.replace("    return parse_immediate(imm, line)", "    return imm[-1]") + "# helper for parsing immediates since they occur in multiple places\n"),
                                       (A, _B_ARM_OLD, "        name, rs1, rs2, reference = tokens\n        return BTypeInstruction(line, head, rs1, rs2, parse_reference(reference, line))")]),
    ('c01-parse-factory-rotated', ['C01'], [(A, _PARSE_ITEM_DEF, _FACTORY.replace("*tokens[1:]", "*tokens[2:], tokens[1]") + "parse_r_type = plain_args_parser(RTypeInstruction, 3, 'r-type instructions require exactly 3 args')\n\n\n" + _PARSE_ITEM_DEF),
                                            (A, _R_ARM_OLD, "        return parse_r_type(line, head, tokens)")]),
    ('c02-parse-table-wrong-class', ['C02'], [(A, _PARSE_ITEM_DEF, _FACTORY + _TABLE_DEF.replace("plain_args_parser(CATypeInstruction, 2,", "plain_args_parser(RTypeInstruction, 2,") + _PARSE_ITEM_DEF),
                                              (A, _CR_ARM_OLD, ""), (A, _CA_ARM_OLD, ""),
                                              (A, _LABEL_ARM, _TABLE_LOOP + _LABEL_ARM)]),
    ('c01-pack-kw-for-rtype', ['C01'], [(A, _ISA_OLD, "if isinstance(item, (ATypeInstruction, ALTypeInstruction, RTypeInstruction)):")]),
    ('c02-pack-one-compressed-class', ['C02'], [(A, _FMT_OLD, "        fmt = '<H' if isinstance(item, CRTypeInstruction) else '<I'\n")]),
    ('c01-pack-rotated-args', ['C01'], [(A, "                args = item.args()\n                code = encode_func(*args)", "                args = item.args()\n                code = encode_func(*(args[1:] + args[:1]))")]),
    ('c01-pack-closure-kw-swap', ['C01'], [(A, _RESOLVE_OLD, _RESOLVE_CLOSURE.replace("*args, aq, rl = item.args()", "*args, rl, aq = item.args()"))]),
    ('c02-pack-closure-fmt', ['C02'], [(A, _RESOLVE_OLD, _RESOLVE_CLOSURE.replace("fmt = '<H' if isinstance(item, CompressedInstruction) else '<I'", "fmt = '<I' if isinstance(item, CompressedInstruction) else '<H'"))]),
]

_UTYPE_INIT = "class UTypeInstruction(Instruction):\n\n    def __init__(self, line, name, rd, imm):\n        super().__init__(line)\n        self.name = name\n        self.rd = rd\n        self.imm = imm"
_UTYPE_INIT_SWAPPED = "class UTypeInstruction(Instruction):\n\n    def __init__(self, line, name, rd, imm):\n        super().__init__(line)\n        self.name = name\n        self.imm = imm\n        self.rd = rd"
PRESERVING += [
    # a keyword rebuild does not depend on the attribute order (other checks have their own, positional, reading of the rebuild)
    ('p-rebuild-keyword', ['C01'], [(A, "new_item = item.__class__(*d.values())", "new_item = item.__class__(**d)", 'all'), (A, _UTYPE_INIT, _UTYPE_INIT_SWAPPED)]),
]
BREAKING += [
    ('c01-rebuild-type-order', ['C01'], [(A, "new_item = item.__class__(*d.values())", "new_item = type(item)(*d.values())", 'all'), (A, _UTYPE_INIT, _UTYPE_INIT_SWAPPED)]),
]

_PACK_STMTS = "        code = struct.pack(fmt, code)\n        blob = Blob(item.line, code)\n        new_items.append(blob)\n\n        log_conversion('resolve_instructions', item, blob)"
_SIZE_SEL = "        size = 2 if isinstance(item, CompressedInstruction) else 4\n"
_RESOLVE_DEF = "def resolve_instructions(items):"
_ENC_ARMS_OLD = "            " + _ISA_OLD + "\n" + _AQRL_OLD + "\n            else:\n                args = item.args()\n                code = encode_func(*args)"
PRESERVING += [
    ('p-pack-to-bytes', ['C01', 'C02'], [(A, _FMT_OLD, _SIZE_SEL), (A, _PACK_STMTS, _PACK_STMTS.replace("struct.pack(fmt, code)", "code.to_bytes(size, 'little')"))]),
    ('p-pack-struct-const', ['C01', 'C02'], [(A, _RESOLVE_DEF, "WORD = struct.Struct('<I')\nHALF = struct.Struct('<H')\n\n\n" + _RESOLVE_DEF),
                                             (A, _FMT_OLD, "        packer = HALF if isinstance(item, CompressedInstruction) else WORD\n"),
                                             (A, _PACK_STMTS, _PACK_STMTS.replace("struct.pack(fmt, code)", "packer.pack(code)"))]),
    ('p-pack-kwargs-dict', ['C01', 'C02'], [(A, _ENC_ARMS_OLD, "            args = item.args()\n            extra = {}\n            " + _ISA_OLD + "\n                extra = {'aq': args[-2], 'rl': args[-1]}\n                args = args[:-2]\n            code = encode_func(*args, **extra)")]),
    ('p-pack-format-helper', ['C01', 'C02'], [(A, _RESOLVE_DEF, "def word_format(item):\n    if isinstance(item, CompressedInstruction):\n        return '<H'\n    return '<I'\n\n\n" + _RESOLVE_DEF),
                                              (A, _FMT_OLD, "        fmt = word_format(item)\n")]),
]
BREAKING += [
    ('c01-pack-to-bytes-big', ['C01'], [(A, _FMT_OLD, _SIZE_SEL), (A, _PACK_STMTS, _PACK_STMTS.replace("struct.pack(fmt, code)", "code.to_bytes(size, 'big')"))]),
    ('c02-pack-struct-const-swapped', ['C02'], [(A, _RESOLVE_DEF, "WORD = struct.Struct('<I')\nHALF = struct.Struct('<H')\n\n\n" + _RESOLVE_DEF),
                                                (A, _FMT_OLD, "        packer = WORD if isinstance(item, CompressedInstruction) else HALF\n"),
                                                (A, _PACK_STMTS, _PACK_STMTS.replace("struct.pack(fmt, code)", "packer.pack(code)"))]),
    ('c01-pack-kwargs-dict-swapped', ['C01'], [(A, _ENC_ARMS_OLD, "            args = item.args()\n            extra = {}\n            " + _ISA_OLD + "\n                extra = {'aq': args[-1], 'rl': args[-2]}\n                args = args[:-2]\n            code = encode_func(*args, **extra)")]),
]

_IMM_HELPER_ANCHOR = "# helper for parsing immediates since they occur in multiple places\n"
_HILO_OLD = ("    elif head == '%hi':\n        if imm[1] == '(':\n            _, _, *imm, _ = imm\n        else:\n            _, *imm = imm\n        return Hi(parse_immediate(imm, line))\n"
             "    elif head == '%lo':\n        if imm[1] == '(':\n            _, _, *imm, _ = imm\n        else:\n            _, *imm = imm\n        return Lo(parse_immediate(imm, line))\n")
_HILO_DICT = "    elif head in RELOCATIONS:\n        inner = imm[2:-1] if imm[1] == '(' else imm[1:]\n        return RELOCATIONS[head](parse_immediate(inner, line))\n"
PRESERVING += [
    ('p-imm-wrapper-dict', None, [(A, _IMM_HELPER_ANCHOR, "RELOCATIONS = {'%hi': Hi, '%lo': Lo}\n\n\n" + _IMM_HELPER_ANCHOR), (A, _HILO_OLD, _HILO_DICT)]),
    ('p-imm-strip-helper', None, [(A, _IMM_HELPER_ANCHOR, "def strip_modifier(imm):\n    if imm[1] == '(':\n        return imm[2:-1]\n    return imm[1:]\n\n\n" + _IMM_HELPER_ANCHOR),
                                  (A, _HILO_OLD, "    elif head == '%hi':\n        return Hi(parse_immediate(strip_modifier(imm), line))\n    elif head == '%lo':\n        return Lo(parse_immediate(strip_modifier(imm), line))\n")]),
    ('p-parse-dict-dispatch', None, [(A, _PARSE_ITEM_DEF, "def parse_u_type(line, name, tokens):\n    return UTypeInstruction(line, name, tokens[1], parse_immediate(tokens[2:], line))\n\n\nUPPER_PARSERS = {'lui': parse_u_type, 'auipc': parse_u_type}\n\n\n" + _PARSE_ITEM_DEF),
                                     (A, "    # u-type instructions\n    elif head in U_TYPE_INSTRUCTIONS:\n" + _U_ARM_OLD + "\n", ""),
                                     (A, _LABEL_ARM, "    parser = UPPER_PARSERS.get(head)\n    if parser is not None:\n        return parser(line, head, tokens)\n\n" + _LABEL_ARM)]),
]
BREAKING += [
    ('c07-imm-wrapper-dict-swapped', ['C07'], [(A, _IMM_HELPER_ANCHOR, "RELOCATIONS = {'%hi': Lo, '%lo': Hi}\n\n\n" + _IMM_HELPER_ANCHOR), (A, _HILO_OLD, _HILO_DICT)]),
    ('c01-parse-dict-dispatch-missing', ['C01'], [(A, _PARSE_ITEM_DEF, "def parse_u_type(line, name, tokens):\n    return UTypeInstruction(line, name, tokens[1], parse_immediate(tokens[2:], line))\n\n\nUPPER_PARSERS = {'lui': parse_u_type}\n\n\n" + _PARSE_ITEM_DEF),
                                                  (A, "    # u-type instructions\n    elif head in U_TYPE_INSTRUCTIONS:\n" + _U_ARM_OLD + "\n", ""),
                                                  (A, _LABEL_ARM, "    parser = UPPER_PARSERS.get(head)\n    if parser is not None:\n        return parser(line, head, tokens)\n\n" + _LABEL_ARM)]),
]

BREAKING += [
    # a constructor that does not receive all of its operands (every such line dies with a TypeError)
    ('c01-parse-missing-operand', ['C01'], [(A, "        return RTypeInstruction(line, name, rd, rs1, rs2)", "        return RTypeInstruction(line, name, rd, rs1)")]),
    ('c01-parse-factory-count', ['C01'], [(A, _PARSE_ITEM_DEF, _FACTORY + "parse_r_type = plain_args_parser(RTypeInstruction, 2, 'r-type instructions require exactly 3 args')\n\n\n" + _PARSE_ITEM_DEF),
                                          (A, _R_ARM_OLD, "        return parse_r_type(line, head, tokens)")]),
]

_CLS_FMT_EDITS = [(A, "class Instruction(Item):\n", "class Instruction(Item):\n\n    WORD_FORMAT = '<I'\n"), (A, _FMT_OLD, "        fmt = item.WORD_FORMAT\n")]
PRESERVING += [
    ('p-pack-class-attr', ['C01', 'C02'], _CLS_FMT_EDITS + [(A, "class CompressedInstruction(Instruction):\n", "class CompressedInstruction(Instruction):\n\n    WORD_FORMAT = '<H'\n")]),
]
BREAKING += [
    ('c02-pack-class-attr-one-class', ['C02'], _CLS_FMT_EDITS + [(A, "class CRTypeInstruction(CompressedInstruction):\n", "class CRTypeInstruction(CompressedInstruction):\n\n    WORD_FORMAT = '<H'\n")]),
]

UNDECIDED += [
    # the item class is looked up reflectively: which class a `lui` line becomes is not understood -> no verdict, no finding
    ('u-parse-reflective-class', ['C01'], [(A, "        return UTypeInstruction(line, name, rd, imm)", "        return globals()['UTypeInstruction'](line, name, rd, imm)")]),
    # the packed value is derived from, not equal to, the encoder's result: value ranges are outside the pack rule
    ('u-pack-masked-word', ['C01'], [(A, "        code = struct.pack(fmt, code)\n        blob = Blob(item.line, code)", "        code = struct.pack(fmt, code & 0xffffffff)\n        blob = Blob(item.line, code)")]),
]


# -- round 2 (engine generalisations): local closures with nonlocal state, early continue, criteria extended by a loop over a
#    literal tuple, negated-predicate factories, the xor sign-extension idiom and the rounding shift in relocate_hi ------------------
_TC_PRELUDE = "    # used for imm evaluation\n    env = ChainMap(constants, labels)\n\n    position = 0\n    new_items = []\n    for item in items:\n        # skip non-instructions and pseudo-instructions\n        if not isinstance(item, Instruction) or isinstance(item, PseudoInstruction):\n            position += item.size()\n            new_items.append(item)\n            continue\n"
_TC_EMIT = "    # used for imm evaluation\n    env = ChainMap(constants, labels)\n\n    position = 0\n    new_items = []\n\n    def emit(new_item):\n        nonlocal position\n        position += new_item.size()\n        new_items.append(new_item)\n\n    for item in items:\n        # skip non-instructions and pseudo-instructions\n        if not isinstance(item, Instruction) or isinstance(item, PseudoInstruction):\n            emit(item)\n            continue\n"
_TC_TAIL = "            # add compressed inst to items and break the search loop\n            position += inst.size()\n            new_items.append(inst)\n"
_TC_ELSE = "        else:\n            position += item.size()\n            new_items.append(item)\n\n    return new_items\n\n\ndef transform_pseudo_instructions"
PRESERVING += [
    ('p2-emit-closure', None, [(A, _TC_PRELUDE, _TC_EMIT), (A, _TC_TAIL, "            # add compressed inst to items and break the search loop\n            emit(inst)\n"),
                               (A, _TC_ELSE, "        else:\n            emit(item)\n\n    return new_items\n\n\ndef transform_pseudo_instructions")]),
    ('p2-sign-extend-xor', None, [(A, "def sign_extend(value, bits):\n", "def sign_extend(value, bits):\n    sign_bit = 1 << (bits - 1)\n    return ((value & ((sign_bit << 1) - 1)) ^ sign_bit) - sign_bit\n\n\ndef sign_extend_old(value, bits):\n")]),
]
BREAKING += [
    # the closure advances the offset by the size of the *original* item while a (smaller) compressed one is emitted
    ('c2-emit-closure-stale-size', ['C03', 'C08', 'C09'], [(A, _TC_PRELUDE, _TC_EMIT.replace("position += new_item.size()", "position += item.size()").replace("def emit(new_item):", "def emit(new_item, item=None):\n        item = item or new_item")),
                                                          (A, _TC_TAIL, "            # add compressed inst to items and break the search loop\n            emit(inst, item)\n"),
                                                          (A, _TC_ELSE, "        else:\n            emit(item)\n\n    return new_items\n\n\ndef transform_pseudo_instructions")]),
    # xor idiom with the sign bit one position too high: values with bit (bits-1) set are no longer negative
    ('c2-sign-extend-xor-wrong-bit', ['C07'], [(A, "def sign_extend(value, bits):\n", "def sign_extend(value, bits):\n    sign_bit = 1 << bits\n    return ((value & ((sign_bit << 1) - 1)) ^ sign_bit) - sign_bit\n\n\ndef sign_extend_old(value, bits):\n")]),
]


# after fix 075cc1d no compression rule for jalr looks at a label-dependent immediate any more: a predicate that only serves
# addi / lui rules may evaluate the immediate directly (those items never carry is_auipc_jump)
# (superseded by fix 372b5f8: the three remaining Imm* predicates now go through stable_immediate)
_STABLE_JB = "        if isinstance(i, (JTypeInstruction, BTypeInstruction)) and isinstance(imm, Offset):\n            if imm.reference in labels and imm.reference not in constants:\n                return eval_immediate(i, p, e)\n"
PRESERVING += [
    ('p4-stable-rename', None, [(A, "        plain = imm.expr if isinstance(imm, (Hi, Lo)) else imm\n        if isinstance(plain, Arithmetic):", "        inner_expr = imm.expr if isinstance(imm, (Hi, Lo)) else imm\n        if isinstance(inner_expr, Arithmetic):")]),
    ('p4-stable-merged-test', None, [(A, _STABLE_JB, "        if isinstance(i, (JTypeInstruction, BTypeInstruction)) and isinstance(imm, Offset) and imm.reference in labels and imm.reference not in constants:\n            return eval_immediate(i, p, e)\n")]),
]
BREAKING += [
    # a pc-relative label offset taken as stable for every instruction (addi a0 a0 %offset(L): `!= 0` can stop holding)
    ('c4-stable-offset-any-instruction', ['C12'], [(A, "        if isinstance(i, (JTypeInstruction, BTypeInstruction)) and isinstance(imm, Offset):", "        if isinstance(imm, Offset):")]),
    # the "final" immediate evaluated against the live label table again
    ('c4-stable-live-env', ['C12'], [(A, "                return imm.eval(p, constants, i.line)\n            except AssemblerError:\n                return None\n        # the target", "                return imm.eval(p, e, i.line)\n            except AssemblerError:\n                return None\n        # the target")]),
    # one predicate back on the moving value
    ('c4-imm-between-unstable', ['C12'], [(A, "            imm = stable_immediate(i, p, e)\n            return imm is not None and imm >= lo and imm <= hi", "            imm = eval_immediate(i, p, e)\n            return imm >= lo and imm <= hi")]),
]
BREAKING += [
    # ... but the predicate that selects c.jr / c.jalr must not: without the Arithmetic guard a %lo immediate is judged again
    ('c3-immequals-no-arith-guard', ['C03', 'C04'], [(A, "            if not isinstance(i.imm, Arithmetic):\n                return False\n            try:\n                imm = i.imm.eval(p, constants, i.line)",
                                                     "            try:\n                imm = i.imm.eval(p, ChainMap(constants, labels), i.line)")]),
    ('c3-immequals-live-env', ['C03', 'C04'], [(A, "                imm = i.imm.eval(p, constants, i.line)\n            except AssemblerError:", "                imm = i.imm.eval(p, e, i.line)\n            except AssemblerError:")]),
]


# variants of the properties that are maintained separately (see the module docstrings)
from . import variants_c10_c14 as _c10_c14  # noqa: E402

BREAKING += _c10_c14.BREAKING
PRESERVING += _c10_c14.PRESERVING
UNDECIDED += _c10_c14.UNDECIDED
# encoder-interpreter idioms (helper- and table-driven encoders) live in their own module
from .variants_enc import BREAKING as _ENC_BREAKING, PRESERVING as _ENC_PRESERVING, UNDECIDED as _ENC_UNDECIDED  # noqa: E402
BREAKING += _ENC_BREAKING
PRESERVING += _ENC_PRESERVING
UNDECIDED += _ENC_UNDECIDED

# defaulting of the caller's tables written as a statement
_LBL_DEFAULT = "    labels = labels if labels is not None else {}\n"
PRESERVING += [
    ('p4-labels-default-stmt', None, [(A, _LBL_DEFAULT, "    if labels is None:\n        labels = {}\n")]),
]
BREAKING += [
    ('c4-labels-default-inverted', ['C03', 'C08'], [(A, _LBL_DEFAULT, "    if labels is not None:\n        labels = {}\n")]),
    ('c4-labels-always-fresh', ['C03', 'C08'], [(A, _LBL_DEFAULT, "    labels = {}\n")]),
]


# ---- C13 round 5: substitutions that only pad characters; loops over literal local tables; custom-lexed line kinds ----
_LEX_PAD = "    contents = contents.replace('(', ' ( ').replace(')', ' ) ')"
_LEX_LITERALS = ("    # check for error literal (needs custom lexing)\n    match = RE_ERROR.match(line.contents)\n    if match is not None:\n        message = match.group(1)\n"
                 "        message = message.encode('utf-8').decode('unicode_escape')\n        tokens = ['error', message]\n        return LineTokens(line, tokens)\n\n"
                 "    # check for string literal (needs custom lexing)\n    match = RE_STRING.match(line.contents)\n    if match is not None:\n        value = match.group(1)\n"
                 "        # unicode_escape decodes bytes as latin-1: keep non-ASCII text intact while processing escapes\n"
                 "        value = value.encode('latin-1', 'backslashreplace').decode('unicode_escape')\n        tokens = ['string', value]\n        return LineTokens(line, tokens)\n")


def _lex_table(second_regex, second_keyword="'string'", codec="('latin-1', 'backslashreplace')"):
    return ("    literal_lexers = [\n        ('error', RE_ERROR, ('utf-8', 'strict')),\n        (" + second_keyword + ", " + second_regex + ", " + codec + "),\n    ]\n"
            "    for keyword, regex, encode_args in literal_lexers:\n        match = regex.match(line.contents)\n        if match is not None:\n            text = match.group(1)\n"
            "            text = text.encode(*encode_args).decode('unicode_escape')\n            tokens = [keyword, text]\n            return LineTokens(line, tokens)\n")


BREAKING += [
    # the substitution that pads the parens also swallows the character after them: `4(x2)` and `4( x2)` no longer lex alike
    ('c13-pad-resub-swallow', ['C13'], [(A, _LEX_PAD, "    contents = re.sub(r'([()]).', r' \\1 ', contents)")]),
    # a custom-lexed line kind recognised at column 0 only: an indented `string ...` line falls through to the token split
    ('c13-string-no-indent', ['C13'], [(A, "    RE_STRING = re.compile(r'\\s*string (.*)')", "    RE_STRING = re.compile(r'string (.*)')")]),
    # star-args from a literal tuple of the table: the wrong codec pair for `string` lines (non-ASCII text is mangled again)
    ('c10-literal-table-codec', ['C10'], [(A, _LEX_LITERALS, _lex_table('RE_STRING', codec="('utf-8', 'strict')"))]),
    ('c13-literal-table-no-indent', ['C13'], [(A, _LEX_LITERALS, _lex_table("re.compile(r'string (.*)')"))]),
]

PRESERVING += [
    ('p13-pad-resub', ['C13'], [(A, _LEX_PAD, "    contents = re.sub(r'([()])', r' \\1 ', contents)")]),
    ('p13-pad-resub-whole-match', ['C13'], [(A, _LEX_PAD, "    contents = re.sub(r'[()]', r' \\g<0> ', contents)")]),
    ('p13-pad-resub-alternation', ['C13'], [(A, _LEX_PAD, "    contents = re.sub(r'(\\(|\\))', ' \\\\1 ', contents)")]),
    ('p13-literal-table', ['C13', 'C10'], [(A, _LEX_LITERALS, _lex_table('RE_STRING'))]),
    ('p13-string-lstrip', ['C13'], [(A, "    RE_STRING = re.compile(r'\\s*string (.*)')", "    RE_STRING = re.compile(r'string (.*)')"),
                                    (A, "    match = RE_STRING.match(line.contents)", "    match = RE_STRING.match(line.contents.lstrip())")]),
]

UNDECIDED += [
    ('u13-pad-resub-run', ['C13'], [(A, _LEX_PAD, "    contents = re.sub(r'([()]+)', r' \\1 ', contents)")]),
    ('u13-literal-table-mislabel', ['C13'], [(A, _LEX_LITERALS, _lex_table('RE_ERROR'))]),
]


# ---- C13 R13.7: is_int as a regular expression, decided as language equality with int(text, 0) (bbverif/intlang.py) ----
_IS_INT = "def is_int(value):\n    try:\n        int(value, base=0)\n        return True\n    except:\n        return False\n"
_INT_EXACT = "[+-]?(?:0[xX](?:_?[0-9a-fA-F])+|0[bB](?:_?[01])+|0[oO](?:_?[0-7])+|[1-9](?:_?[0-9])*|0(?:_?0)*)"


def _is_int_regex(pattern, how='fullmatch', flags=''):
    return ("RE_INT = re.compile(r'" + pattern + "'" + flags + ")\n\n\ndef is_int(value):\n    return RE_INT." + how + "(value) is not None\n")


BREAKING += [
    ('c13-isint-regex-lowercase', ['C13'], [(A, _IS_INT, _is_int_regex('[+-]?(0x[0-9a-f]+|0b[01]+|0o[0-7]+|[0-9]+)$', 'match'))]),
    # right on every sample spelling one would think of, wrong on `0_`-style and leading-zero texts: only the language comparison sees it
    ('c13-isint-regex-leading-zero', ['C13'], [(A, _IS_INT, _is_int_regex('[+-]?(?:0[xX](?:_?[0-9a-fA-F])+|0[bB](?:_?[01])+|0[oO](?:_?[0-7])+|[0-9](?:_?[0-9])*)'))]),
    ('c13-isint-regex-unanchored', ['C13'], [(A, _IS_INT, _is_int_regex(_INT_EXACT, 'match'))]),
    ('c13-isint-regex-double-underscore', ['C13'], [(A, _IS_INT, _is_int_regex('[+-]?(?:0[xX][0-9a-fA-F_]+|0[bB][01_]+|0[oO][0-7_]+|[1-9][0-9_]*|0[0_]*)'))]),
]

PRESERVING += [
    ('p13-isint-regex-exact', ['C13'], [(A, _IS_INT, _is_int_regex(_INT_EXACT))]),
    ('p13-isint-regex-match-Z', ['C13'], [(A, _IS_INT, _is_int_regex(_INT_EXACT + '\\Z', 'match'))]),
    ('p13-isint-regex-ignorecase', ['C13'], [(A, _IS_INT, _is_int_regex('[+-]?(?:0x(?:_?[0-9a-f])+|0b(?:_?[01])+|0o(?:_?[0-7])+|[1-9](?:_?[0-9])*|0(?:_?0)*)', 'fullmatch', ', re.IGNORECASE'))]),
    ('p13-isint-regex-search-anchored', ['C13'], [(A, _IS_INT, _is_int_regex('^' + _INT_EXACT + '\\Z', 'search'))]),
]

UNDECIDED += [
    # a look-ahead is outside the regular subset that is translated: agreement on the sample spellings is no proof
    ('u13-isint-regex-lookahead', ['C13'], [(A, _IS_INT, _is_int_regex('(?=.)' + _INT_EXACT))]),
]

# functools.partial / lambda around the encoder: partial(f, *a, **k)(*b, **c) is f(*a, *b, **k, **c)
_ENC_PARTIAL = ("            " + _ISA_OLD + "\n                *args, aq, rl = item.args()\n                encode_func = partial(encode_func, aq=aq, rl=rl)\n"
                "            else:\n                args = item.args()\n            code = encode_func(*args)")
_ENC_LAMBDA = ("            " + _ISA_OLD + "\n                *args, aq, rl = item.args()\n                call = lambda *ops: encode_func(*ops, aq=aq, rl=rl)\n"
               "            else:\n                args = item.args()\n                call = encode_func\n            code = call(*args)")
PRESERVING += [
    ('p-pack-partial', None, [(A, _ENC_ARMS_OLD, _ENC_PARTIAL)]),
    ('p-pack-partial-nested', ['C01', 'C02'], [(A, _ENC_ARMS_OLD, _ENC_PARTIAL.replace("partial(encode_func, aq=aq, rl=rl)", "partial(partial(encode_func, aq=aq), rl=rl)"))]),
    ('p-pack-partial-direct', ['C01', 'C02'], [(A, _AQRL_OLD, "                *args, aq, rl = item.args()\n                code = partial(encode_func, aq=aq, rl=rl)(*args)")]),
    ('p-pack-lambda', ['C01', 'C02'], [(A, _ENC_ARMS_OLD, _ENC_LAMBDA)]),
]
BREAKING += [
    ('c01-pack-partial-kw-swap', ['C01'], [(A, _ENC_ARMS_OLD, _ENC_PARTIAL.replace("aq=aq, rl=rl", "aq=rl, rl=aq"))]),
    ('c01-pack-partial-nested-swap', ['C01'], [(A, _ENC_ARMS_OLD, _ENC_PARTIAL.replace("partial(encode_func, aq=aq, rl=rl)", "partial(partial(encode_func, aq=rl), rl=aq)"))]),
    ('c01-pack-lambda-kw-swap', ['C01'], [(A, _ENC_ARMS_OLD, _ENC_LAMBDA.replace("aq=aq, rl=rl", "aq=rl, rl=aq"))]),
    ('c01-pack-partial-positional', ['C01'], [(A, _ENC_ARMS_OLD, _ENC_PARTIAL.replace("partial(encode_func, aq=aq, rl=rl)", "partial(encode_func, aq, rl)"))]),
]

# ---- round 5: compression predicates - operand value vs inner expression; constants-only evaluation under a handler ----
_IMMEQ_BODY = ("            if not isinstance(i.imm, Arithmetic):\n                return False\n            try:\n                imm = i.imm.eval(p, constants, i.line)\n"
               "            except AssemblerError:\n                return False\n            return imm == value\n")
_STABLE_EVAL = "                return imm.eval(p, constants, i.line)\n            except AssemblerError:\n                return None\n"
BREAKING += [
    ('c5-stable-inner-expression', ['C12', 'C20'], [(A, _STABLE_EVAL, _STABLE_EVAL.replace('imm.eval', 'plain.eval'))]),
    ('c5-immequals-unguarded', ['C12'], [(A, _IMMEQ_BODY, "            return isinstance(i.imm, Arithmetic) and i.imm.eval(p, constants, i.line) == value\n")]),
    ('c5-immequals-wrong-handler', ['C12'], [(A, _IMMEQ_BODY, _IMMEQ_BODY.replace('except AssemblerError:', 'except KeyError:'))]),
]
PRESERVING += [
    ('p5-immequals-boolop-guarded', None, [(A, _IMMEQ_BODY, "            try:\n                return isinstance(i.imm, Arithmetic) and i.imm.eval(p, constants, i.line) == value\n"
                                                             "            except AssemblerError:\n                return False\n")]),
    ('p5-immequals-except-exception', None, [(A, _IMMEQ_BODY, _IMMEQ_BODY.replace('except AssemblerError:', 'except Exception:'))]),
]

# ---- round 5: a pass written as list(<generator function>(...)) is analysed as the eager loop it equals ----
_RS_OLD = ("def resolve_strings(items):\n    new_items = []\n    for item in items:\n        if not isinstance(item, String):\n            new_items.append(item)\n            continue\n\n"
           "        blob = Blob(item.line, item.value.encode('utf-8'))\n        new_items.append(blob)\n\n        log_conversion('resolve_strings', item, blob)\n\n    return new_items\n")


def _rs_gen(keep="            yield item\n", enc="'utf-8'", call="list(iter_resolved_strings(items))"):
    return ("def iter_resolved_strings(items):\n    for item in items:\n        if not isinstance(item, String):\n" + keep + "            continue\n\n"
            "        blob = Blob(item.line, item.value.encode(" + enc + "))\n        yield blob\n\n        log_conversion('resolve_strings', item, blob)\n\n\n"
            "def resolve_strings(items):\n    return " + call + "\n")


PRESERVING += [
    ('p5-generator-pass', None, [(A, _RS_OLD, _rs_gen())]),
    ('p5-generator-pass-star', ['C03', 'C06', 'C08', 'C09', 'C10', 'C14', 'C15', 'C20'], [(A, _RS_OLD, _rs_gen(call="[*iter_resolved_strings(items)]"))]),
    ('p5-generator-pass-keyword', ['C03', 'C06', 'C08', 'C09', 'C10', 'C14', 'C15', 'C20'], [(A, _RS_OLD, _rs_gen(call="list(iter_resolved_strings(items=items))"))]),
]
BREAKING += [
    ('c5-generator-pass-drops-items', ['C09'], [(A, _RS_OLD, _rs_gen(keep="            pass\n"))]),
    ('c5-generator-pass-codec', ['C10'], [(A, _RS_OLD, _rs_gen(enc="'utf-16'"))]),
]

# ---- round 5: a family of partial bindings produced by a comprehension and unpacked into names ----
_M_OLD = "".join("{:<10} = partial(r_type,   opcode=0b0110011, funct3=0b{:03b}, funct7=0b0000001)\n".format(n, k)
                 for k, n in enumerate(['MUL', 'MULH', 'MULHSU', 'MULHU', 'DIV', 'DIVU', 'REM', 'REMU']))
_M_GEN = ("MUL, MULH, MULHSU, MULHU, DIV, DIVU, REM, REMU = (\n    partial(r_type,   opcode=0b0110011, funct3=funct3, funct7=0b0000001)\n    for funct3 in range(0b1000)\n)\n")
PRESERVING += [
    ('p5-partials-from-generator', None, [(A, _M_OLD, _M_GEN)]),
    ('p5-partials-from-listcomp', ['C01', 'C06', 'C07', 'C11', 'C13'], [(A, _M_OLD, _M_GEN.replace('= (\n', '= [\n').replace('\n)\n', '\n]\n').replace('range(0b1000)', '(0, 1, 2, 3, 4, 5, 6, 7)'))]),
]
BREAKING += [
    ('c5-partials-from-generator-order', ['C01'], [(A, _M_OLD, _M_GEN.replace('MULHSU, MULHU', 'MULHU, MULHSU'))]),
    ('c5-partials-from-generator-range', ['C01'], [(A, _M_OLD, _M_GEN.replace('range(0b1000)', 'range(1, 9)'))]),
]

# ---- round 5: capped read of the firmware file; writability probes of the output paths before assembling ----
_FW_READ = "        firmware = f.read()\n"
_CLI_CONST = "    constants = {}\n    labels = {}\n    try:\n        input_asm = os.path.abspath(args.input_asm)\n"


def _probe(mode):
    return ("    for path in filter(None, [args.output, args.labels]):\n        try:\n            open(path, '" + mode + "').close()\n"
            "        except OSError as e:\n            raise SystemExit('cannot write output file: {}'.format(path))\n\n" + _CLI_CONST)


BREAKING += [
    ('c5-dfu-capped-read', ['C19'], [(D, _FW_READ, "        firmware = f.read(page_size * page_count)\n")]),
    ('c5-cli-probe-truncates', ['C17'], [(A, _CLI_CONST, _probe('wb'))]),
]
PRESERVING += [
    ('p5-dfu-read-all', ['C18', 'C19'], [(D, _FW_READ, "        firmware = f.read(-1)\n")]),
    ('p5-cli-probe-append', ['C15', 'C16', 'C17'], [(A, _CLI_CONST, _probe('ab'))]),
]


# ---- C13 round 6: custom-lexed line kinds searched anywhere; re.findall of a complement class; numeric tests on register operands ----
_RTYPE_RET = "        name, rd, rs1, rs2 = tokens\n        name = name.lower()\n        return RTypeInstruction(line, name, rd, rs1, rs2)\n"
_RTYPE_HEAD = "        name, rd, rs1, rs2 = tokens\n        name = name.lower()\n"
_RE_ERR_DEF = "    RE_ERROR = re.compile(r'\\s*error (.*)')"
_RE_STR_DEF = "    RE_STRING = re.compile(r'\\s*string (.*)')"

BREAKING += [
    # a comment that contains "error " / "string " turns the line into that directive
    ('c13-literal-search-anywhere', ['C13'], [(A, _RE_ERR_DEF, "    RE_ERROR = re.compile(r'error (.*)')"), (A, _RE_STR_DEF, "    RE_STRING = re.compile(r'string (.*)')"),
                                              (A, "    match = RE_ERROR.match(line.contents)", "    match = RE_ERROR.search(line.contents)"),
                                              (A, "    match = RE_STRING.match(line.contents)", "    match = RE_STRING.search(line.contents)")]),
    ('c13-literal-search-keeps-prefix', ['C13'], [(A, "    match = RE_STRING.match(line.contents)", "    match = RE_STRING.search(line.contents)")]),
    ('c13-findall-ws-only', ['C13'], [(A, _LEX_SPLIT_DROP, "    tokens = re.findall(r'[^\\s]+', contents)\n")]),
    ('c13-findall-semicolon', ['C13'], [(A, _LEX_SPLIT_DROP, "    tokens = re.findall(r'[^\\s,;]+', contents)\n")]),
    # `add rd, rs1, 12` becomes addi: a bare number is a documented register spelling there
    ('c13-rtype-imm-shorthand', ['C13'], [(A, _RTYPE_RET, _RTYPE_HEAD + "        imm_forms = {'add': 'addi', 'and': 'andi', 'or': 'ori', 'xor': 'xori', 'slt': 'slti', 'sltu': 'sltiu'}\n"
                                           "        if name in imm_forms and is_int(rs2):\n            imm = parse_immediate([rs2], line)\n            return ITypeInstruction(line, imm_forms[name], rd, rs1, imm)\n"
                                           "        return RTypeInstruction(line, name, rd, rs1, rs2)\n")]),
    ('c13-rtype-number-refused', ['C13'], [(A, _RTYPE_RET, _RTYPE_HEAD + "        if is_int(rs2):\n            raise AssemblerError('r-type instructions take registers only', line)\n"
                                            "        return RTypeInstruction(line, name, rd, rs1, rs2)\n")]),
    ('c13-rtype-not-number-first', ['C13'], [(A, _RTYPE_RET, _RTYPE_HEAD + "        if not is_int(rs1):\n            return RTypeInstruction(line, name, rd, rs1, rs2)\n"
                                              "        return ITypeInstruction(line, name + 'i', rd, rs2, parse_immediate([rs1], line))\n")]),
]

PRESERVING += [
    ('p13-literal-search-anchored', ['C13'], [(A, _RE_STR_DEF, "    RE_STRING = re.compile(r'^\\s*string (.*)')"),
                                              (A, "    match = RE_STRING.match(line.contents)", "    match = RE_STRING.search(line.contents)")]),
    ('p13-findall-complement', ['C13'], [(A, _LEX_SPLIT_DROP, "    tokens = re.findall(r'[^\\s,]+', contents)\n")]),
    ('p13-findall-complement-compiled', ['C13'], [(A, "def lex_tokens(line):", "RE_TOKEN = re.compile(r'[^,\\s]+')\n\n\ndef lex_tokens(line):"),
                                                  (A, _LEX_SPLIT_DROP, "    tokens = RE_TOKEN.findall(contents)\n")]),
    ('p13-findall-nonspace', ['C13'], [(A, _LEX_SPLIT_DROP, "    tokens = re.findall(r'\\S+', contents.replace(',', ' '))\n")]),
    ('p13-rtype-isint-noop', ['C13'], [(A, _RTYPE_RET, _RTYPE_HEAD + "        if is_int(rs2):\n            log.debug('numeric register operand')\n"
                                        "        return RTypeInstruction(line, name, rd, rs1, rs2)\n")]),
]

UNDECIDED += [
    ('u13-findall-group', ['C13'], [(A, _LEX_SPLIT_DROP, "    tokens = re.findall(r'([^\\s,]+)', contents)\n")]),
    ('u13-findall-two-or-more', ['C13'], [(A, _LEX_SPLIT_DROP, "    tokens = re.findall(r'[^\\s,]{2,}', contents)\n")]),
    ('u13-rtype-number-normalised', ['C13'], [(A, _RTYPE_RET, _RTYPE_HEAD + "        if is_int(rs2):\n            rs2 = 'x' + str(int(rs2, 0))\n"
                                               "        return RTypeInstruction(line, name, rd, rs1, rs2)\n")]),
    ('u13-rtype-number-own-construction', ['C13'], [(A, _RTYPE_RET, _RTYPE_HEAD + "        if is_int(rs2):\n            return RTypeInstruction(line, name, rd, rs1, rs2)\n"
                                                     "        return RTypeInstruction(line, name, rd, rs1, rs2)\n")]),
]

# ---- round 6 ----
_BAKE = "        imm = eval_immediate(item, position, env)\n"
_FILTER_NONE = "    items = [i for i in items if i is not None]\n"
_CNOP = "        'c.nop': [\n            NameEquals('addi'),\n            RegEquals('rd', 0),\n            RegEquals('rs1', 0),\n            ImmEquals(0),\n        ],\n"
_RL_OLD = ("def resolve_labels(items, labels):\n    position = 0\n    new_items = []\n    for item in items:\n        if not isinstance(item, Label):\n"
           "            position += item.size()\n            new_items.append(item)\n            continue\n\n        labels[item.name] = position\n\n    return new_items\n")
_RL_CURSOR = ("class LayoutCursor:\n    def __init__(self{init_params}):\n        self.position = {start}\n\n    def advance(self, item):\n        self.position += item.size()\n\n\n"
              "def resolve_labels(items, labels):\n    cursor = LayoutCursor({init_args})\n    new_items = []\n    for item in items:\n        if not isinstance(item, Label):\n"
              "            cursor.advance(item)\n            new_items.append(item)\n            continue\n\n        labels[item.name] = cursor.position\n\n    return new_items\n")
_RL_GEN = ("def iter_positions(items):\n    position = 0\n    for item in items:\n        yield position, item\n        position += {adv}\n\n\n"
           "def resolve_labels(items, labels):\n    new_items = []\n    for position, item in iter_positions(items):\n        if not isinstance(item, Label):\n"
           "            new_items.append(item)\n            continue\n\n        labels[item.name] = position\n\n    return new_items\n")
BREAKING += [
    ('c6-bake-memo', ['C03', 'C07', 'C08'], [(A, "def resolve_immediates(items, constants, labels):\n", "def resolve_immediates(items, constants, labels):\n    cache = {}\n"),
                                             (A, _BAKE, "        key = str(item.imm)\n        if isinstance(item.imm, Offset) or key not in cache:\n"
                                                        "            cache[key] = eval_immediate(item, position, env)\n        imm = cache[key]\n")]),
    ('c6-items-pop-trailing-align', ['C09'], [(A, _FILTER_NONE, _FILTER_NONE + "    while items and isinstance(items[-1], Align):\n        items.pop()\n")]),
    ('c6-items-del-first', ['C09'], [(A, _FILTER_NONE, _FILTER_NONE + "    if items and isinstance(items[0], Align):\n        del items[0]\n")]),
    ('c6-cnop-any-immediate', ['C06', 'C04'], [(A, _CNOP, _CNOP.replace("            ImmEquals(0),\n", ""))]),
    ('c6-env-set-union', ['C16'], [(A, "        env = ChainMap(constants, labels)\n        imm = eval_immediate(item, position, env)\n",
                                    "        env = dict(labels.items() | constants.items())\n        imm = eval_immediate(item, position, env)\n")]),
    ('c6-cursor-starts-at-4', ['C03', 'C08'], [(A, _RL_OLD, _RL_CURSOR.format(init_params='', start='4', init_args=''))]),
    ('c6-generator-positions-fixed-step', ['C03', 'C08'], [(A, _RL_OLD, _RL_GEN.format(adv='4'))]),
]
PRESERVING += [
    ('p6-cursor-object', None, [(A, _RL_OLD, _RL_CURSOR.format(init_params='', start='0', init_args=''))]),
    ('p6-cursor-object-start-arg', ['C03', 'C08', 'C09', 'C20'], [(A, _RL_OLD, _RL_CURSOR.format(init_params=', start=0', start='start', init_args=''))]),
    ('p6-generator-positions', None, [(A, _RL_OLD, _RL_GEN.format(adv='item.size()'))]),
    ('p6-while-unrelated', ['C03', 'C09', 'C16', 'C17'], [(A, _FILTER_NONE, _FILTER_NONE + "    budget = len(items)\n    while budget > 1000000:\n        log.debug('large program')\n        budget -= 1000000\n")]),
]

from .variants_wiring import BREAKING as _W_BREAKING, PRESERVING as _W_PRESERVING, UNDECIDED as _W_UNDECIDED  # noqa: E402
BREAKING += _W_BREAKING
PRESERVING += _W_PRESERVING
UNDECIDED += _W_UNDECIDED

from .variants_dfu import BREAKING as _D_BREAKING, PRESERVING as _D_PRESERVING, UNDECIDED as _D_UNDECIDED  # noqa: E402
BREAKING += _D_BREAKING
PRESERVING += _D_PRESERVING
UNDECIDED += _D_UNDECIDED

# ---- round 6: the first-match search over a list of rule objects of a local class ----
_ENV_ANCHOR = "    # used for imm evaluation\n    env = ChainMap(constants, labels)\n"
_SEARCH_OLD = ("            for name, preds in criteria.items():\n                if all(pred(item, position, env) for pred in preds):\n"
               "                    compressed = name\n                    break\n")
_SEARCH_OBJ = ("            for rule in rules:\n                if rule.matches(item, position, env):\n"
               "                    compressed = rule.form\n                    break\n")


def _rule_class(checks='checks', build='[Rule(form, checks) for form, checks in criteria.items()]'):
    return ("    class Rule:\n        def __init__(self, form, checks):\n            self.form = form\n            self.checks = " + checks + "\n\n"
            "        def matches(self, item, position, env):\n            return all(check(item, position, env) for check in self.checks)\n\n"
            "    rules = " + build + "\n\n" + _ENV_ANCHOR)


PRESERVING += [
    ('p6-rule-objects', None, [(A, _ENV_ANCHOR, _rule_class()), (A, _SEARCH_OLD, _SEARCH_OBJ)]),
]
BREAKING += [
    ('c6-rule-objects-drop-name-check', ['C04'], [(A, _ENV_ANCHOR, _rule_class(checks='checks[1:]')), (A, _SEARCH_OLD, _SEARCH_OBJ)]),
]


# ---- C13 white-box audit (round 6): behaviour-preserving edits aimed at every place a C13 finding is raised ----
_REG_TABLE_END = "    31: 31, '31': 31, 'x31': 31, 't6':   31,\n}\n"
_BO_SET = "    'lbu',\n    'lhu',\n    'sb',"
_REGSMATCH = ("            reg_a = getattr(i, a)\n            reg_a = lookup_register(reg_a)\n            reg_b = getattr(i, b)\n            reg_b = lookup_register(reg_b)\n"
              "            return reg_a == reg_b\n")
_RD_COUNTER_BOTH = ("    i = 0\n    for raw_line in source.splitlines():\n        # skip empty lines\n        if len(raw_line.strip()) == 0:\n            i += 1\n            continue\n        i += 1\n")

PRESERVING += [
    # W01 R13.7: the base of int() is a named module constant
    ('w13-isint-named-base', ['C13'], [(A, "def is_int(value):\n    try:\n        int(value, base=0)", "AUTO_BASE = 0\n\n\ndef is_int(value):\n    try:\n        int(value, base=AUTO_BASE)")]),
    # W02 R13.7: regex form spelled as an if / return pair
    ('w13-isint-regex-if-form', ['C13'], [(A, _IS_INT, "RE_INT = re.compile(r'" + _INT_EXACT + "')\n\n\ndef is_int(value):\n    if RE_INT.fullmatch(value) is None:\n        return False\n    return True\n")]),
    # W03 / W04 R13.1 table: an alias added to the literal table by a separate statement
    ('w13-registers-update-literal', ['C13'], [(A, "'s0':   8, 'fp': 8,", "'s0':   8,"), (A, _REG_TABLE_END, _REG_TABLE_END + "REGISTERS.update({'fp': 8})\n")]),
    # W05 R13.2: a set entry added by a separate statement
    ('w13-base-offset-add', ['C13'], [(A, _BO_SET, "    'lbu',\n    'sb',"), (A, "    'c.lw',\n    'c.sw',\n}\n", "    'c.lw',\n    'c.sw',\n}\nBASE_OFFSET_INSTRUCTIONS.add('lhu')\n")]),
    ('w13-base-offset-ior', ['C13'], [(A, _BO_SET, "    'lbu',\n    'sb',"), (A, "    'c.lw',\n    'c.sw',\n}\n", "    'c.lw',\n    'c.sw',\n}\nBASE_OFFSET_INSTRUCTIONS |= {'lhu'}\n")]),
    # W06 R13.3 deletes: the padding substitution swallows separators (blanks and commas) around the paren and writes blanks back
    ('w13-pad-resub-swallows-separators', ['C13'], [(A, _LEX_PAD, "    contents = re.sub(r'[\\s,]*([()])[\\s,]*', r' \\1 ', contents)")]),
    # W07 / W08 R13.4: other spellings of `# to the end of the line`
    ('w13-comment-optional-newline', ['C13'], [(A, _LEX_COMMENT, "    contents = re.sub(r'#.*\\n?', '', line.contents)")]),
    ('w13-comment-group', ['C13'], [(A, _LEX_COMMENT, "    contents = re.sub(r'#(.*)$', '', line.contents)")]),
    ('w13-comment-any-class', ['C13'], [(A, _LEX_COMMENT, "    contents = re.sub(r'#[\\s\\S]*', '', line.contents)")]),
    # W10 R13.4: the comment is cut only when there is one
    ('w13-comment-conditional-cut', ['C13'], [(A, _LEX_COMMENT, "    contents = line.contents\n    if '#' in contents:\n        contents = contents.split('#', 1)[0]")]),
    # W11 R13.5: strip spelled as lstrip + rstrip
    ('w13-lstrip-rstrip', ['C13'], [(A, "    contents = contents.strip()\n", "    contents = contents.lstrip().rstrip()\n")]),
    # W12 R13.4 anywhere: an anchored pattern wrapped in a group, applied with search
    ('w13-literal-search-anchored-group', ['C13'], [(A, _RE_STR_DEF, "    RE_STRING = re.compile(r'(?:^\\s*string (.*))')"),
                                                    (A, "    match = RE_STRING.match(line.contents)", "    match = RE_STRING.search(line.contents)")]),
    # W13 R13.5 numbering: the counter advances on the skipping path as well
    # W14 R13.5 hand-over: filter by the unbound __len__
    ('w13-handover-filter-dunder-len', ['C13'], [(A, "    tokens = [t for t in tokens if len(t) > 0]\n", "    tokens = list(filter(LineTokens.__len__, tokens))\n")]),
    # W18 R13.5 hand-over: emptiness decided by a helper predicate
    ('w13-handover-helper-predicate', ['C13'], [(A, "def assemble(path_or_source, *, constants=None", "def has_tokens(line_tokens):\n    return len(line_tokens) > 0\n\n\ndef assemble(path_or_source, *, constants=None"),
                                                (A, "    tokens = [t for t in tokens if len(t) > 0]\n", "    tokens = [t for t in tokens if has_tokens(t)]\n")]),
    # W17 R13.1 operand spelling: the numeric spelling is converted and handed to the same construction
    # W19 R13.7 / R13.1: the numeric-literal helper under another name
    ('w13-isint-renamed', ['C13'], [(A, "is_int(", "is_integer_literal(", 'all')]),
    # W20 R13.6: the register numbers are taken by a local helper of the predicate factory
    ('w13-regsmatch-helper', ['C13'], [(A, _REGSMATCH, "            def number(field):\n                return lookup_register(getattr(i, field))\n            return number(a) == number(b)\n")]),
]

UNDECIDED += [
    # W15: lines are screened by their text before lexing, no check on the token lines: not `comment-only lines reach the parser`
    ('w13-handover-lines-screened', ['C13'], [(A, _ASM_FRONT, "    lines = [l for l in lines if l.contents.split('#')[0].strip(', \\t')]\n    items = [parse_item(lex_tokens(l)) for l in lines]\n")]),
]

PRESERVING += [
    # an alias added by item assignment after the literal: folded by the program model (facts._module_setitem) and therefore seen by the
    # encoder interpreter too (was: no verdict, bitdom withheld it for a table written outside its literal)
    ('w13-registers-item-assignment', ['C13'], [(A, "'s0':   8, 'fp': 8,", "'s0':   8,"), (A, _REG_TABLE_END, _REG_TABLE_END + "# the frame pointer is another name of s0\nREGISTERS['fp'] = 8\n")]),
]

UNDECIDED += [
    # accepted by the C13 rules themselves; the verdict is withheld by a shared engine (wiring: int(token) as a constructor argument)
    # or by a loop shape the reader rule does not follow (counter advanced on two paths)
    ('w13-counter-both-paths', ['C13'], [(A, _RD_LOOP + _RD_SKIP, _RD_COUNTER_BOTH)]),
    ('w13-rtype-number-converted', ['C13'], [(A, _RTYPE_RET, _RTYPE_HEAD + "        if is_int(rs2):\n            return RTypeInstruction(line, name, rd, rs1, int(rs2, 0))\n"
                                              "        return RTypeInstruction(line, name, rd, rs1, rs2)\n")]),
]

# breaking / undecided counterparts of the audit twins: the same constructs with the property actually broken
BREAKING += [
    ('w13x-isint-named-base-10', ['C13'], [(A, "def is_int(value):\n    try:\n        int(value, base=0)", "AUTO_BASE = 10\n\n\ndef is_int(value):\n    try:\n        int(value, base=AUTO_BASE)")]),
    ('w13x-isint-regex-if-form-lowercase', ['C13'], [(A, _IS_INT, "RE_INT = re.compile(r'[+-]?(0x[0-9a-f]+|0b[01]+|0o[0-7]+|[0-9]+)')\n\n\ndef is_int(value):\n    if RE_INT.fullmatch(value) is None:\n        return False\n    return True\n")]),
    ('w13x-registers-update-wrong-number', ['C13'], [(A, "'s0':   8, 'fp': 8,", "'s0':   8,"), (A, _REG_TABLE_END, _REG_TABLE_END + "REGISTERS.update({'fp': 9})\n")]),
    ('w13x-base-offset-add-other', ['C13'], [(A, _BO_SET, "    'lbu',\n    'sb',"), (A, "    'c.lw',\n    'c.sw',\n}\n", "    'c.lw',\n    'c.sw',\n}\nBASE_OFFSET_INSTRUCTIONS.add('lh')\n")]),
    ('w13x-pad-resub-swallows-word-char', ['C13'], [(A, _LEX_PAD, "    contents = re.sub(r'[\\s,]*([()])\\w?', r' \\1 ', contents)")]),
    ('w13x-comment-group-one-char', ['C13'], [(A, _LEX_COMMENT, "    contents = re.sub(r'#(.)$', '', line.contents)")]),
    ('w13x-comment-optional-newline-lazy', ['C13'], [(A, _LEX_COMMENT, "    contents = re.sub(r'#.*?\\n?', '', line.contents)")]),
    ('w13x-comment-conditional-cut-unused', ['C13'], [(A, _LEX_COMMENT, "    contents = line.contents\n    if '#' in contents:\n        without_comment = contents.split('#', 1)[0]")]),
    ('w13x-isint-renamed-base-10', ['C13'], [(A, "is_int(", "is_integer_literal(", 'all'), (A, "        int(value, base=0)\n        return True", "        int(value)\n        return True")]),
]

UNDECIDED += [
    ('w13x-isint-regex-inverted', ['C13'], [(A, _IS_INT, "RE_INT = re.compile(r'" + _INT_EXACT + "')\n\n\ndef is_int(value):\n    return RE_INT.fullmatch(value) is None\n")]),
    ('w13x-handover-filter-dunder-str', ['C13'], [(A, "    tokens = [t for t in tokens if len(t) > 0]\n", "    tokens = list(filter(LineTokens.__str__, tokens))\n")]),
    ('w13x-handover-helper-predicate-odd', ['C13'], [(A, "def assemble(path_or_source, *, constants=None", "def has_tokens(line_tokens):\n    return line_tokens is not None\n\n\ndef assemble(path_or_source, *, constants=None"),
                                                     (A, "    tokens = [t for t in tokens if len(t) > 0]\n", "    tokens = [t for t in tokens if has_tokens(t)]\n")]),
    ('w13x-rtype-number-converted-base-10', ['C13'], [(A, _RTYPE_RET, _RTYPE_HEAD + "        if is_int(rs2):\n            return RTypeInstruction(line, name, rd, rs1, int(rs2, 10))\n"
                                                       "        return RTypeInstruction(line, name, rd, rs1, rs2)\n")]),
    ('w13x-pad-resub-swallows-no-blanks', ['C13'], [(A, _LEX_PAD, "    contents = re.sub(r'[\\s,]*([()])[\\s,]*', r'\\1', contents)")]),
    ('w13x-isint-missing', ['C13'], [(A, "        if is_int(reference):\n            imm = [reference]\n        else:\n            # behavior is \"offset\" for branches to labels\n            imm = ['%offset', reference]\n",
                                      "        imm = [reference] if reference[:1].isdigit() else ['%offset', reference]\n"),
                                     (A, "        if is_int(reference):\n            imm = [reference]\n        else:\n            # behavior is \"offset\" for jumps to labels\n            imm = ['%offset', reference]\n",
                                      "        imm = [reference] if reference[:1].isdigit() else ['%offset', reference]\n"),
                                     (A, "is_int(", "looks_numeric(", 'all')]),
]

_B_ARM_INT = "        if is_int(reference):\n            imm = [reference]\n        else:\n            # behavior is \"offset\" for branches to labels\n            imm = ['%offset', reference]\n"
_J_ARM_INT = "        if is_int(reference):\n            imm = [reference]\n        else:\n            # behavior is \"offset\" for jumps to labels\n            imm = ['%offset', reference]\n"
_IS_LABEL = "def is_label(text):\n    return not is_int(text)\n\n\ndef sign_extend(value, bits):"

PRESERVING += [
    # W21 R13.2: an entry of the base-offset set that is no mnemonic (never consulted)
    ('w13-base-offset-dead-entry', ['C13'], [(A, "    'c.lw',\n    'c.sw',\n}\n", "    'c.lw',\n    'c.sw',\n    'ld',      # RV64, not assembled yet\n}\n")]),
    # W22 R13.7 helper discovery: a `this is a name` predicate decides the other way round - it is not the numeric-literal helper
    ('w13-islabel-predicate', ['C13'], [(A, "def sign_extend(value, bits):", _IS_LABEL),
                                        (A, _B_ARM_INT, "        if is_label(reference):\n            imm = ['%offset', reference]\n        else:\n            imm = [reference]\n"),
                                        (A, _J_ARM_INT, "        if is_label(reference):\n            imm = ['%offset', reference]\n        else:\n            imm = [reference]\n")]),
]

BREAKING += [
    ('w13x-base-offset-live-extra', ['C13'], [(A, "    'c.lw',\n    'c.sw',\n}\n", "    'c.lw',\n    'c.sw',\n    'addi',\n}\n")]),
    # a lexer the rules do not follow must not mask the reader's violation (no-verdicts are deferred to the end of the run)
    ('w13x-violation-next-to-no-verdict', ['C13'], [(A, _LEX_STRIP, "    contents = contents.strip().lower()\n"),
                                                    (A, "    for i, raw_line in enumerate(source.splitlines(), start=1):", "    for i, raw_line in enumerate([l for l in source.splitlines() if l.strip()], start=1):")]),
]


# ---- C13 round 7: comments start at `#` only; comment lines are never directives; carriage returns left on lines ----
_RD_INCLUDE_TEST = "        if raw_line.lower().startswith('include '):"
_RD_INCLUDE_SUB = "                raw_include = re.sub(r'#.*$', r'', raw_line)"

BREAKING += [
    # `//` cuts expressions: VALUE = 100 // 7 defines 100
    ('c13-comment-also-slashes', ['C13'], [(A, _LEX_COMMENT, "    contents = re.sub(r'(#|//).*$', r'', line.contents)")]),
    ('c13-comment-also-semicolon', ['C13'], [(A, _LEX_COMMENT, "    contents = re.sub(r'[#;].*', '', line.contents)")]),
    # a commented-out include is executed
    ('c13-reader-hash-include', ['C13'], [(A, _RD_INCLUDE_TEST, "        if raw_line.lower().startswith(('include ', '#include ')):"),
                                          (A, _RD_INCLUDE_SUB, "                raw_include = re.sub(r'#.*$', r'', raw_line.lstrip('#'))")]),
    ('c13-reader-hash-stripped-first', ['C13'], [(A, _RD_INCLUDE_TEST, "        if raw_line.lstrip('# ').lower().startswith('include '):"),
                                                 (A, _RD_INCLUDE_SUB, "                raw_include = re.sub(r'#.*$', r'', raw_line.lstrip('# '))")]),
    # \r\n files: every line keeps its \r, and `string` takes the rest of the line verbatim
    ('c13-split-newline', ['C13'], [(A, _RD_LOOP, "    for i, raw_line in enumerate(source.split('\\n'), start=1):\n")]),
]

PRESERVING += [
    ('p13-reader-skip-comment-lines', ['C13'], [(A, _RD_SKIP, _RD_SKIP + "        # whole-line comments carry nothing\n        if raw_line.lstrip().startswith('#'):\n            continue\n")]),
    # (C13 only: the lines agree for \n and \r\n files; other line separators of splitlines() are no documented freedom)
    ('p13-split-newline-rstrip', ['C13'], [(A, _RD_LOOP, "    for i, raw_line in enumerate(source.split('\\n'), start=1):\n        raw_line = raw_line.rstrip('\\r')\n")]),
    ('p13-split-newline-literals-exclude-cr', ['C13'], [(A, _RD_LOOP, "    for i, raw_line in enumerate(source.split('\\n'), start=1):\n"),
                                                        (A, _RE_ERR_DEF, "    RE_ERROR = re.compile(r'\\s*error ([^\\r\\n]*)')"),
                                                        (A, _RE_STR_DEF, "    RE_STRING = re.compile(r'\\s*string ([^\\r\\n]*)')")]),
]

UNDECIDED += [
    ('u13-comment-alternation-hash-only', ['C13'], [(A, _LEX_COMMENT, "    contents = re.sub(r'(#|\\s+#).*$', r'', line.contents)")]),
    ('u13-split-newline-literal-word-tail', ['C13'], [(A, _RD_LOOP, "    for i, raw_line in enumerate(source.split('\\n'), start=1):\n"),
                                                      (A, _RE_ERR_DEF, "    RE_ERROR = re.compile(r'\\s*error ([^\\r\\n]*)')"),
                                                      (A, _RE_STR_DEF, "    RE_STRING = re.compile(r'\\s*string ([\\w ]*)')")]),
]

# ---- white-box round on C11 / C16 / C17 ----
from .variants_whitebox import BREAKING as _WB_BREAKING, PRESERVING as _WB_PRESERVING, UNDECIDED as _WB_UNDECIDED  # noqa: E402
BREAKING += _WB_BREAKING
PRESERVING += _WB_PRESERVING
UNDECIDED += _WB_UNDECIDED
UNDECIDED += [
    # formerly listed as breaking: the loop over `REGS & set(d.keys())` fills a dict that is only used for d.update(...) on keys that
    # exist already, so the field order - and the rebuilt item - do not depend on the hash seed; the rule no longer claims they do
    ('c16-set-iteration-update-existing', ['C16'], [(A, "        for key, value in d.items():\n            # skip if item field is not a register\n            if key not in REGS:\n                continue", "        for key in REGS & set(d.keys()):\n            value = d[key]")]),
]
# ---- round 7: white-box audit of C01 / C02 / C06 / C07 (program model, %hi / %lo evaluation rule, rebuild invariant, pack rule) ----
from .variants_w5 import BREAKING as _W5_BREAKING, PRESERVING as _W5_PRESERVING, UNDECIDED as _W5_UNDECIDED  # noqa: E402
BREAKING += _W5_BREAKING
PRESERVING += _W5_PRESERVING
UNDECIDED += _W5_UNDECIDED


# ---- C13 round 8: records (namedtuple / small class) carrying the source text; single-exit lexer with a `tokens = None` sentinel ----
_RD_LOAD = ("    if os.path.exists(path_or_source) or include:\n        log.info('reading file: {}'.format(os.path.abspath(path_or_source)))\n"
            "        # exceptions here will be caught by the recursive parent\n        path = path_or_source\n        with open(path) as f:\n            source = f.read()\n"
            "    else:\n        path = '<string>'\n        source = path_or_source\n")
_LOAD_SOURCE = ("def load_source(path_or_source, include):\n    if os.path.exists(path_or_source) or include:\n        log.info('reading file: {}'.format(os.path.abspath(path_or_source)))\n"
                "        with open(path_or_source) as f:\n            return SourceText(path_or_source, f.read())\n    return SourceText('<string>', path_or_source)\n\n\n")
_NT_DEF = "from collections import namedtuple\nSourceText = namedtuple('SourceText', ['path', 'text'])\n\n\n"
_CLS_DEF = "class SourceText:\n    def __init__(self, path, text):\n        self.path = path\n        self.text = text\n\n\n"
_RD_DEF = "def read_lines(path_or_source, *, include=False, include_dirs=None):"


def _reader_record(defn, loop):
    return [(A, _RD_DEF, defn + _LOAD_SOURCE + _RD_DEF), (A, _RD_LOAD, "    source = load_source(path_or_source, include)\n"),
            (A, _RD_LOOP, loop), (A, "        line = Line(path, i, raw_line)", "        line = Line(source.path, i, raw_line)")]


_LEX_REST = ("\n    # strip comments\n" + _LEX_COMMENT + "\n\n    # pad parens before split\n" + _LEX_PAD + "\n\n" + _LEX_STRIP + "\n" + _LEX_EMPTY + "\n" + _LEX_DROP
             + "\n    # carry the line and its tokens forward\n    return LineTokens(line, tokens)")


def _lex_single_exit(split="re.split(r'[\\s,]+', contents)"):
    return ("    # not lexed yet\n    tokens = None\n\n    match = RE_ERROR.match(line.contents)\n    if match is not None:\n        message = match.group(1)\n"
            "        message = message.encode('utf-8').decode('unicode_escape')\n        tokens = ['error', message]\n\n"
            "    if tokens is None:\n        match = RE_STRING.match(line.contents)\n        if match is not None:\n            value = match.group(1)\n"
            "            value = value.encode('latin-1', 'backslashreplace').decode('unicode_escape')\n            tokens = ['string', value]\n\n"
            "    if tokens is None:\n        contents = re.sub(r'#.*$', r'', line.contents)\n        contents = contents.replace('(', ' ( ').replace(')', ' ) ')\n        contents = contents.strip()\n"
            "        if len(contents) == 0:\n            tokens = []\n        else:\n            tokens = " + split + "\n            while '' in tokens:\n                tokens.remove('')\n\n"
            "    return LineTokens(line, tokens)")


PRESERVING += [
    ('p13-reader-namedtuple-source', ['C13'], _reader_record(_NT_DEF, "    for i, raw_line in enumerate(source.text.splitlines(), start=1):\n")),
    ('p13-reader-class-source', ['C13'], _reader_record(_CLS_DEF, "    for i, raw_line in enumerate(source.text.splitlines(), start=1):\n")),
    ('p13-lexer-single-exit', ['C13', 'C11'], [(A, _LEX_LITERALS + _LEX_REST, _lex_single_exit())]),
]

BREAKING += [
    ('c13-reader-namedtuple-source-filtered', ['C13'], _reader_record(_NT_DEF, "    for i, raw_line in enumerate([l for l in source.text.splitlines() if l.strip()], start=1):\n")),
    ('c13-lexer-single-exit-ws-only', ['C13'], [(A, _LEX_LITERALS + _LEX_REST, _lex_single_exit("re.split(r'\\s+', contents)"))]),
]

C13_FRONTEND_PRESERVING += [
    # understood by the C13 register-number rule (a suppressed failure is a handled one); bitdom does not follow `with` yet
    ('p13-reg-suppress', ['C13'], [(A, "import abc\n", "import abc\nimport contextlib\n"), (A, _REG_TRY, "    with contextlib.suppress(BaseException):\n        reg = int(reg, base=0)\n")]),
    ('p13-reg-suppress-two-kinds', ['C13'], [(A, "import abc\n", "import abc\nimport contextlib\n"), (A, _REG_TRY, "    with contextlib.suppress(ValueError, TypeError):\n        reg = int(reg, 0)\n")]),
]
UNDECIDED += [
    ('u13-reg-suppress-valueerror-only', ['C13'], [(A, "import abc\n", "import abc\nimport contextlib\n"), (A, _REG_TRY, "    with contextlib.suppress(ValueError):\n        reg = int(reg, base=0)\n")]),
]
# ---- round 7 (white-box audit): compression relation, pseudo-instruction templates, eval_immediate ----
from .variants_comprel import BREAKING as _CR_BREAKING, PRESERVING as _CR_PRESERVING, UNDECIDED as _CR_UNDECIDED  # noqa: E402
BREAKING += _CR_BREAKING
PRESERVING += _CR_PRESERVING
UNDECIDED += _CR_UNDECIDED

# ---- white-box round: layout engines (C03 C08 C09 C20) ----
from .variants_layout import BREAKING as _LAY_BREAKING, PRESERVING as _LAY_PRESERVING, UNDECIDED as _LAY_UNDECIDED  # noqa: E402
BREAKING += _LAY_BREAKING
PRESERVING += _LAY_PRESERVING
UNDECIDED += _LAY_UNDECIDED

# ---- final round: the li range test written with a shift ((value + 2**11) >> 12 == 0); interval_from_conds reads `value + c` and
# `(value + c) >> k == 0` exactly and nothing else that merely contains the evaluation
_LI_GUARD = "            if value >= (-2**11) and value <= (2**11 - 1):"
PRESERVING += [
    ('p5-li-guard-shift', ['C03', 'C05', 'C07'], [(A, _LI_GUARD, "            if (value + 2**11) >> 12 == 0:")]),
    ('p5-li-guard-shift-narrower', ['C03', 'C05', 'C07'], [(A, _LI_GUARD, "            if (value + 2**10) >> 11 == 0:")]),
    ('p5-li-guard-affine', ['C03', 'C05', 'C07'], [(A, _LI_GUARD, "            if value + 2048 >= 0 and value - 2047 <= 0:")]),
]
BREAKING += [
    ('c5-li-guard-shift-wide', ['C05', 'C07'], [(A, _LI_GUARD, "            if (value + 2**11) >> 13 == 0:")]),
    ('c5-li-guard-shift-offset', ['C05', 'C07'], [(A, _LI_GUARD, "            if (value + 2**12) >> 12 == 0:")]),
    ('c5-li-guard-affine-wide', ['C05', 'C07'], [(A, _LI_GUARD, "            if value + 2048 >= 0 and value - 2048 <= 0:")]),
]
UNDECIDED += [
    ('u5-li-guard-floordiv', ['C05', 'C07'], [(A, _LI_GUARD, "            if value // 2 >= -1024 and value // 2 <= 1023:")]),
]

_CALL_GUARD = "            if value >= (-2**20) and value <= (2**20 - 1):\n                inst = JTypeInstruction(item.line, 'jal', rd='x1', imm=imm)"
PRESERVING += [
    ('p5-call-guard-shift', ['C03', 'C05'], [(A, _CALL_GUARD, _CALL_GUARD.replace("value >= (-2**20) and value <= (2**20 - 1)", "(value + 2**20) >> 21 == 0"))]),
]
BREAKING += [
    ('c5-call-guard-shift-wide', ['C05'], [(A, _CALL_GUARD, _CALL_GUARD.replace("value >= (-2**20) and value <= (2**20 - 1)", "(value + 2**20) >> 22 == 0"))]),
    ('c5-call-guard-halved', ['C05'], [(A, _CALL_GUARD, _CALL_GUARD.replace("value >= (-2**20) and value <= (2**20 - 1)", "value - 2**20 >= (-2**20) and value <= (2**21 - 1)"))]),
]
UNDECIDED += [
    ('u5-call-guard-abs', ['C05'], [(A, _CALL_GUARD, _CALL_GUARD.replace("value >= (-2**20) and value <= (2**20 - 1)", "abs(value) <= 2**20 - 1"))]),
]
