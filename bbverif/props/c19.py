"""C19 - DFU refuses oversize firmware untouched and never reports a failed flash as done."""
import ast

from ..core import Report, Finding, AnalysisError
from ..facts import Facts
from ..astutil import unparse
from ..pathwalk import show, is_const, C
from ..poly import Poly
from .. import dfurules as D, oracle
from ..dfurules import LEN, PAGE, strip

LEVEL = 'other'
FILE = 'bronzebeard/dfu.py'


def failing_exit(kind, val):
    """True if a RAISE / EXIT event ends the process with a non-zero status."""
    arg = None
    if kind == 'RAISE':
        v = strip(val)
        if v[0] in ('call', 'new') and v[1] == 'SystemExit':
            arg = v[2][0] if v[2] else C(None)
        elif v[0] == 'name' and v[1] == 'SystemExit':
            arg = C(None)
        elif v[0] in ('call', 'new', 'name'):
            return True            # any other exception: traceback, exit status 1
        else:
            return True
    elif kind == 'EXIT':
        arg = val[0] if val else C(None)
    if arg is None:
        return False
    if is_const(arg):
        a = arg[1]
        if a is None or a is False or a == 0:
            return False
        return True
    return True        # a formatted message / computed non-constant: SystemExit(str) exits 1


def expected_capacity(m, consts, S):
    """Flash capacity this path must be guarded with, as a Poly (None when the path carries no variant information)."""
    letter = m.gd32_letter()
    if letter is not None and letter[0] in oracle.DFU['gd32_pages']:
        return Poly.const(oracle.DFU['gd32_pages'][letter[0]] * oracle.DFU['gd32_page_size']), 'GD32 letter {!r}'.format(letter[0])
    return None, None


def run(repo, tier):
    facts = Facts(repo.dfu, FILE)
    rep = Report('C19', LEVEL,
                 'Paths of dfu.cli_main are enumerated symbolically with every helper inlined (no USB, nothing executed); events are the '
                 'ctrl_transfer calls classified by their folded arguments.  (1) The size guard, normalised as a polynomial inequality '
                 'len(firmware) - CAP > 0 -> failing exit, lies before every DNLOAD / CLRSTATUS request on every path, and CAP is the flash '
                 'capacity: S * page_count for the chunk size S, 1024 * pages(letter) on GD32 paths.  (2) Checked-then-ignored: wherever '
                 'the code tests byte 0 of a GETSTATUS reply against STATUS_OK, the bad-status edge must leave through a failing exit and '
                 'send nothing more; (3) after every erase and every data download, byte 0 of the *latest* reply flows into such a test '
                 'before the next request.')
    rep.trusted_base = ['CPython ast', 'bbverif.pathwalk', 'DFU 1.1 request numbers (oracle)']
    rep.not_decided = ['device errors that surface only as USB stalls (pyusb exceptions abort with a traceback)',
                       'errors during SET_ADDRESS (its status is overwritten by the next poll)']
    fn, paths = D.main_paths(facts)
    rep.count('paths through cli_main', len(paths))
    consts = D.module_consts(facts)
    n_req = 0
    n_tests = 0
    guard_seen = False
    unread = []          # (line, text) of inequalities before the first request whose terms the rules cannot relate to the firmware length
    seen = set()
    for p in paths:
        m = D.PathModel(p, consts)
        evs = m.evs
        datas = [r for r in m.reqs if r.kind == 'DATA']
        # symbols: LEN is len() of the value read from the file; S the chunk size when the path gets as far as a data download
        raw = m.raw()
        S = None
        if datas:
            try:
                shape = m.data_shape(datas[0])
            except D.Undecided as e:
                # the capacity cannot be related to the chunk size on this path; the guard's form is still checked against the letter
                shape = str(e)
                if ('shape', shape) not in seen:
                    seen.add(('shape', shape))
                    rep.note('chunk size not derived on a path: ' + shape)
            if not isinstance(shape, str):
                S = shape[3]
        # the guard is recognised by what it compares: the length of a buffer bound earlier on the path (the symbol ('len', X)); that
        # buffer X must be the whole content of the file - whatever is done to the image afterwards
        sym = m.base_sym(None)
        # (1) guard
        guard = None
        for kind, idx, node, payload in evs:
            if kind == 'COND':
                g = sym.gt(payload[0])
                lens = {s_ for mono in g.terms for s_ in mono if isinstance(s_, tuple) and s_ and s_[0] == 'len'} if g is not None else set()
                if len(lens) == 1:
                    LENX = next(iter(lens))
                    buf = LENX[1]
                    if ('whole', repr(strip(buf))) not in seen:
                        seen.add(('whole', repr(strip(buf))))
                        whole, why = D.whole_file_read(buf)
                        if whole is None:
                            rep.undecided('cli_main: ' + why)
                            whole = True
                        node_r = next((ev[-1] for ev in p.events if ev[0] == 'value' and ev[1] == buf), fn)
                        rep.check(whole, 'R19.1.whole-file', 'the length that is guarded is the length of the whole file',
                                  lambda why=why, node_r=node_r: Finding('R19.1.whole-file', 'cli_main', node_r, why + ': an oversize firmware file is not refused', file=FILE,
                                                                         line=getattr(node_r, 'lineno', fn.lineno)))
                    a, b, high = D.split_by(g, LENX)
                    if payload[1] is False:
                        form_ok = not high and b == Poly.const(1)
                        cap = -a if form_ok else None
                        want, why = expected_capacity(m, consts, S)
                        by_key, key = D.table_values(cap, consts) if form_ok else (None, None)
                        if form_ok and want is not None:
                            form_ok = cap == want
                        elif form_ok and by_key is not None:
                            # the capacity is looked up in a module-level table by the serial-number letter: the oracle's table
                            ks = strip(key)
                            if not (ks[0] == 'sub' and ks[2] == C(2)):
                                rep.undecided('the flash capacity is looked up in a table by {}: not the serial-number letter'.format(show(key)[:40]))
                                form_ok = None
                            else:
                                form_ok = all(by_key.get(l) == n * oracle.DFU['gd32_page_size'] for l, n in oracle.DFU['gd32_pages'].items())
                        elif form_ok and S is not None:
                            q = D.divide(cap, S)
                            form_ok = q is not None and not D.mentions(q, PAGE)
                            if not form_ok and not (D.understood(cap, sym) and D.understood(S, sym)):
                                rep.undecided('the capacity the size guard admits ({}) is not an expression the rules can follow'.format(cap))
                                form_ok = None
                        elif not form_ok and not D.understood(g, sym, (LENX,)):
                            rep.undecided('the size guard compares the firmware length with something the rules cannot follow: {}'.format(g))
                            form_ok = None
                        if form_ok is None:
                            guard = guard or (idx, True)
                            guard_seen = True
                            continue
                        if guard is None:
                            guard = (idx, form_ok)
                        if form_ok:
                            guard_seen = True
                        elif (repr(g),) not in seen:
                            seen.add((repr(g),))
                            rep.fail(Finding('R19.1.guard', 'cli_main', node,
                                             'the firmware size guard refuses when {} > 0; it must refuse exactly when len(firmware) exceeds the flash capacity{}'.format(
                                                 g, ' ({} bytes for {})'.format(want, why) if want is not None else ' (page size * page count)'),
                                             file=FILE, line=getattr(node, 'lineno', fn.lineno)), instance='guard form')
                    else:
                        # the refusing branch: failing exit, nothing sent
                        rest = [e for e in evs if e[1] > idx]
                        sent = [e for e in evs if e[0] == 'REQ' and e[3].kind != 'POLL']
                        exits = [e for e in rest if e[0] in ('RAISE', 'EXIT')]
                        ok = bool(exits) and failing_exit(exits[-1][0], exits[-1][3]) and not sent and (p.end == 'raise' or exits[-1][0] == 'EXIT')
                        rep.check(ok, 'R19.1.refuse', 'oversize firmware: failing exit, nothing sent',
                                  lambda node=node: Finding('R19.1.refuse', 'cli_main', node, 'oversize firmware is not refused with a failing exit before any request', file=FILE,
                                                            line=getattr(node, 'lineno', fn.lineno)), nontrivial=False)
        unread_here = []
        if guard is None and m.sends:
            unread_here = m.unread_inequalities(sym, min(r.idx for r in m.sends), lengths=True)
            for idx_, node_, test_ in unread_here:
                unread.append((getattr(node_, 'lineno', '?'), show(test_)[:80]))
        # (2), (3)
        last_dn = None          # the last ERASE / DATA request whose status has not been tested yet
        last_poll = None
        for j, (kind, idx, node, payload) in enumerate(evs):
            if kind == 'COND':
                test, pol = payload
                st = D.status_test(test, consts)
                if st is None:
                    continue
                verdict, tested, weights, uid = st
                if verdict == 'unclear':
                    # a test over the status byte that cannot be evaluated: it may well be the check - no verdict for this request
                    key = ('unclear', getattr(node, 'lineno', None), show(test)[:80])
                    if key not in seen:
                        seen.add(key)
                        rep.undecided('the test on the device status at line {} cannot be evaluated: {}'.format(key[1], key[2]))
                    last_dn = None
                    continue
                n_tests += 1
                if strip(tested)[0] == 'havoc':
                    rep.undecided('the status tested at line {} is a loop-carried value the analysis cannot trace to a reply'.format(getattr(node, 'lineno', '?')))
                    last_dn = None
                    continue
                if weights is not None and weights != {0: 1}:
                    rep.fail(Finding('R19.3.status-byte', 'cli_main', node,
                                     'the value compared with STATUS_OK is not bStatus (byte 0 of the GETSTATUS reply) but bytes {}'.format(sorted(weights)),
                                     file=FILE, line=getattr(node, 'lineno', None)), instance='status byte')
                    continue
                fresh = None
                if weights is not None and last_poll is not None:
                    fresh = uid == last_poll.uid
                    rep.check(fresh, 'R19.3.fresh-status', 'the status compared with STATUS_OK is the one of the last GETSTATUS before the test',
                              lambda node=node, tested=tested: Finding('R19.3.fresh-status', 'cli_main', node,
                                                                       'the status tested here ({}) is not the one returned by the most recent GETSTATUS on this path: the polling loop refreshes the '
                                                                       'state but not the status, so an error reported while the device was settling is missed'.format(show(tested)[:80]),
                                                                       file=FILE, line=getattr(node, 'lineno', None)))
                if weights is None:
                    rep.undecided('cannot trace the value compared with STATUS_OK at line {} to a GETSTATUS reply: {}'.format(getattr(node, 'lineno', '?'), show(tested)[:80]))
                    last_dn = None
                    continue
                if last_dn is not None and last_poll is not None and fresh:
                    last_dn = None
                bad = (verdict == 'bad') == pol
                if bad:
                    rest = evs[j + 1:]
                    more = [e for e in rest if e[0] == 'REQ' and e[3].kind != 'POLL']
                    exits = [e for e in rest if e[0] in ('RAISE', 'EXIT')]
                    good_exit = bool(exits) and (p.end == 'raise' or exits[-1][0] == 'EXIT') and failing_exit(exits[-1][0], exits[-1][3])
                    prev = [e[3].kind for e in evs[:j] if e[0] == 'REQ' and e[3].kind in D.DNLOAD_KINDS]
                    after = prev[-1] if prev else 'start'
                    rep.check(good_exit and not more, 'R19.2.checked-then-ignored', 'bad status after {} ends the run with a failing exit'.format(after),
                              lambda node=node, more=more, after=after: Finding('R19.2.checked-then-ignored', 'cli_main:after-' + after, node,
                                                                                'the code tests the device status against STATUS_OK but on the bad-status edge the run {}: a failed flash is reported as done'.format(
                                                                                    'keeps sending requests' if more else 'continues to the normal end (exit status 0)'),
                                                                                file=FILE, line=getattr(node, 'lineno', None)))
            elif kind == 'REQ':
                r = payload
                if r.kind == 'POLL':
                    last_poll = r
                    continue
                n_req += 1
                if guard is None and unread_here:
                    pass           # a size comparison the rules could not read precedes the request: no verdict (reported below)
                else:
                    rep.check(guard is not None and guard[0] < idx, 'R19.1.dominates', '{} request is preceded by the size guard'.format(r.kind),
                          lambda r=r: Finding('R19.1.dominates', 'cli_main', r.site,
                                              'a {} request can be sent before the firmware size has been checked against the flash size'.format(r.kind),
                                              file=FILE, line=r.line), nontrivial=False)
                if last_dn is not None:
                    rep.fail(Finding('R19.3.status-tested', 'cli_main', last_dn.site,
                                     'the status polled after this {} request is never compared with STATUS_OK before the next request: a device error goes unnoticed'.format(last_dn.kind),
                                     file=FILE, line=last_dn.line), instance='{} at {}'.format(last_dn.kind, last_dn.line))
                    last_dn = None
                if r.kind in ('ERASE', 'DATA'):
                    last_dn = r
                    last_poll = None
            elif kind == 'ENDLOOP':
                if last_dn is not None and any(lp[1] is node for lp in m.loops_of.get(last_dn.idx, [])):
                    rep.fail(Finding('R19.3.status-tested', 'cli_main', last_dn.site,
                                     'the status polled after this {} request is never compared with STATUS_OK before the loop goes round to the next request: a device error goes unnoticed'.format(last_dn.kind),
                                     file=FILE, line=last_dn.line), instance='{} at {}'.format(last_dn.kind, last_dn.line))
                    last_dn = None
        if last_dn is not None and p.end != 'raise':
            rep.fail(Finding('R19.3.status-tested', 'cli_main', last_dn.site,
                             'the status polled after this {} request is never compared with STATUS_OK: a device error goes unnoticed'.format(last_dn.kind),
                             file=FILE, line=last_dn.line), instance='{} at {}'.format(last_dn.kind, last_dn.line))
        elif any(r.kind in ('ERASE', 'DATA') for r in m.reqs):
            rep.ok('R19.3.status-tested', 'every erase / data request has its status tested on every path')
    rep.analysed['requests on paths'] = n_req
    rep.count('status tests on paths', n_tests)
    if not guard_seen and unread:
        rep.undecided('a size comparison before the first request is not one the rules can relate to the firmware length (line {}): {}'.format(*unread[0]))
    elif not guard_seen:
        rep.fail(Finding('R19.1.guard', 'cli_main', 'size guard', 'no test of the firmware length against the flash capacity precedes the requests', file=FILE, line=fn.lineno))
    else:
        rep.ok('R19.1.guard', 'guard normalises to len(firmware) - capacity > 0 -> refuse')
    rep.floor('paths through cli_main', 20)
    rep.floor('requests on paths', 10)
    rep.floor('status tests on paths', 4)
    return rep
