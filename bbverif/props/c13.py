"""C13 - documented spelling variants of the same program assemble to identical bytes (structural clauses)."""
import ast
import re
import re._parser as sre_parse
import re._constants as sre

from ..core import Report, Finding, AnalysisError
from ..facts import Facts
from ..astutil import unparse, dotted, walk_no_nested, fold, NotConstant
from .. import encprops, oracle

LEVEL = 'other'


def regex_ast(pattern):
    try:
        return sre_parse.parse(pattern)
    except re.error as e:
        raise AnalysisError('regular expression {!r} does not parse: {}'.format(pattern, e))


def separator_class(tree):
    """For a pattern of the shape (class)+ return the set of class items; None otherwise."""
    items = list(tree)
    if len(items) != 1:
        return None
    op, av = items[0]
    if op not in (sre.MAX_REPEAT, sre.MIN_REPEAT):
        return None
    lo, hi, sub = av
    if lo != 1 or hi != sre.MAXREPEAT:
        return None
    sub = list(sub)
    if len(sub) != 1:
        return None
    sop, sav = sub[0]
    out = set()
    if sop == sre.IN:
        for iop, iav in sav:
            out.add((str(iop), iav if not isinstance(iav, (list, tuple)) else tuple(iav)))
        return out
    if sop == sre.SUBPATTERN:
        inner = list(sav[3])
        if len(inner) == 1 and inner[0][0] == sre.BRANCH:
            for alt in inner[0][1][1]:
                alt = list(alt)
                if len(alt) != 1:
                    return None
                if alt[0][0] == sre.IN:
                    for iop, iav in alt[0][1]:
                        out.add((str(iop), iav))
                else:
                    out.add((str(alt[0][0]), alt[0][1]))
            return out
    if sop in (sre.LITERAL,):
        return {(str(sop), sav)}
    return None


def is_comment_pattern(tree):
    """'#' followed by anything to the end of the line."""
    items = list(tree)
    if len(items) < 2:
        return False
    if items[0] != (sre.LITERAL, ord('#')):
        return False
    op, av = items[1]
    if op != sre.MAX_REPEAT or av[0] != 0 or av[1] != sre.MAXREPEAT:
        return False
    sub = list(av[2])
    if len(sub) != 1 or sub[0][0] != sre.ANY:
        return False
    rest = items[2:]
    return all(r[0] == sre.AT and r[1] in (sre.AT_END, sre.AT_END_STRING) for r in rest)


def def_chain(fn, name, upto):
    """Assignments to `name` in source order before statement `upto` (straight-line def-use chain)."""
    out = []
    for st in fn.body:
        if st is upto:
            break
        for n in ast.walk(st):
            if isinstance(n, ast.Assign) and isinstance(n.targets[0], ast.Name) and n.targets[0].id == name:
                out.append(n)
    return out


def check_lexer(rep, facts):
    fn = facts.funcs.get('lex_tokens')
    if fn is None:
        raise AnalysisError('anchor vanished: lex_tokens')
    splits = [n for n in ast.walk(fn) if isinstance(n, ast.Call) and dotted(n.func) in ('re.split',)]
    if len(splits) != 1:
        raise AnalysisError('lex_tokens: expected exactly one re.split (found {}): the lexer left the shape the rules can follow'.format(len(splits)))
    sp = splits[0]
    try:
        pat = fold(sp.args[0], facts.consts)
    except NotConstant:
        raise AnalysisError('lex_tokens: split pattern is not a literal')
    cls = separator_class(regex_ast(pat))
    want_space = ('CATEGORY', sre.CATEGORY_SPACE)
    want_comma = ('LITERAL', ord(','))
    ok = cls is not None and want_space in cls and want_comma in cls and all(
        c in (want_space, want_comma) or (c[0] == 'LITERAL' and chr(c[1]).isspace()) for c in cls)
    rep.check(ok, 'R13.3.separators', 'tokens are separated by one or more of: whitespace, comma',
              lambda: Finding('R13.3.separators', 'lex_tokens', sp,
                              'the token separator pattern {!r} does not consume exactly runs of whitespace and commas: `addi x1, x0, 1` and `addi x1 x0 1` no longer lex alike'.format(pat),
                              line=sp.lineno))
    # def-use chain from line.contents to the split argument
    arg = sp.args[1] if len(sp.args) > 1 else None
    if not isinstance(arg, ast.Name):
        raise AnalysisError('lex_tokens: split subject is not a local name')
    stmt = sp
    while getattr(stmt, '_parent', None) is not fn:
        stmt = stmt._parent
    chain = def_chain(fn, arg.id, stmt)
    steps = []
    for a in chain:
        v = a.value
        if isinstance(v, ast.Call) and dotted(v.func) == 're.sub':
            try:
                p = fold(v.args[0], facts.consts)
                repl = fold(v.args[1], facts.consts)
            except NotConstant:
                steps.append(('sub?', a))
                continue
            steps.append(('comment-strip' if is_comment_pattern(regex_ast(p)) and repl == '' else 'sub:' + p, a, unparse(v.args[2]) if len(v.args) > 2 else None))
        elif isinstance(v, ast.Call) and isinstance(v.func, ast.Attribute) and v.func.attr == 'strip' and not v.args:
            steps.append(('strip', a))
        elif isinstance(v, ast.Call) and isinstance(v.func, ast.Attribute) and v.func.attr == 'replace':
            steps.append(('replace', a))
        else:
            steps.append(('other:' + unparse(v)[:40], a))
    kinds = [s[0] for s in steps]
    rep.sample({'lexer_chain': kinds, 'separator_pattern': pat})
    has_comment = 'comment-strip' in kinds
    rep.check(has_comment and kinds.index('comment-strip') == 0 and steps[0][2] == 'line.contents', 'R13.4.comments',
              'the comment (`#` to end of line) is removed from line.contents before anything else',
              lambda: Finding('R13.4.comments', 'lex_tokens', steps[0][1] if steps else fn,
                              'comments are not stripped first on the way from the line text to the token split (chain: {}): a trailing `# comment` would contribute tokens'.format(kinds),
                              line=(steps[0][1].lineno if steps else fn.lineno)))
    rep.check('strip' in kinds, 'R13.5.indent', 'leading / trailing whitespace is stripped before the split',
              lambda: Finding('R13.5.indent', 'lex_tokens', sp, 'the line is not stripped before being split: indentation produces an empty first token', line=sp.lineno))
    others = [k for k in kinds if k.startswith('other:') or k.startswith('sub')]
    rep.check(not others, 'R13.3.separators', 'no other rewriting of the line text before the split',
              lambda: Finding('R13.3.separators', 'lex_tokens', sp, 'the line text is rewritten by {} before tokenising'.format(others), line=sp.lineno), nontrivial=False)
    # empty tokens removed / empty lines skipped
    src = unparse(fn)
    rep.check("while '' in tokens" in src or "if t" in src or "filter(" in src or "[t for t in" in src, 'R13.3.separators', 'empty tokens are dropped',
              lambda: Finding('R13.3.separators', 'lex_tokens', sp, 'empty tokens produced by the split are kept', line=sp.lineno), nontrivial=False)
    # the special-cased string / error lexing happens before the comment strip (documented: comments are part of the string)
    return pat


def check_reader(rep, facts):
    fn = facts.funcs.get('read_lines')
    loops = [n for n in ast.walk(fn) if isinstance(n, ast.For) and isinstance(n.iter, ast.Call) and dotted(n.iter.func) == 'enumerate']
    if not loops:
        raise AnalysisError('anchor vanished: enumerate loop of read_lines')
    lp = loops[0]
    it = lp.iter.args[0]
    ok = isinstance(it, ast.Call) and isinstance(it.func, ast.Attribute) and it.func.attr == 'splitlines' and not it.args
    rep.check(ok, 'R13.5.blank-lines', 'line numbers are taken from the unfiltered list of physical lines',
              lambda: Finding('R13.5.blank-lines', 'read_lines', lp, 'line numbering is computed over a filtered line list: blank lines shift later numbers', line=lp.lineno))
    skips = [n for n in lp.body if isinstance(n, ast.If) and any(isinstance(x, ast.Continue) for x in n.body) and 'strip()' in unparse(n.test)]
    rep.check(bool(skips), 'R13.5.blank-lines', 'blank lines are skipped',
              lambda: Finding('R13.5.blank-lines', 'read_lines', lp, 'blank lines are not skipped by the reader', line=lp.lineno), nontrivial=False)
    asm = facts.funcs['assemble']
    src = unparse(asm)
    rep.check('if len(t) > 0' in src or 'if t' in src, 'R13.5.blank-lines', 'lines without tokens (comment-only) are dropped before parsing',
              lambda: Finding('R13.5.blank-lines', 'assemble', asm, 'comment-only lines reach the parser', line=asm.lineno), nontrivial=False)


def check_base_offset(rep, facts):
    have = facts.sets.get('BASE_OFFSET_INSTRUCTIONS')
    if have is None:
        raise AnalysisError('anchor vanished: BASE_OFFSET_INSTRUCTIONS')
    want = {'jalr', 'lb', 'lh', 'lw', 'lbu', 'lhu', 'sb', 'sh', 'sw', 'c.lw', 'c.sw'}
    node = facts.assign_nodes['BASE_OFFSET_INSTRUCTIONS']
    present = set(facts.instructions())
    for m in sorted(want & present):
        rep.check(m in have, 'R13.2.base-offset', '`{} reg, imm(reg)` is accepted'.format(m),
                  lambda m=m: Finding('R13.2.base-offset', 'BASE_OFFSET_INSTRUCTIONS', 'missing ' + m, '{} is a base+offset instruction but its `imm(reg)` spelling is not recognised'.format(m), line=node.lineno))
    extra = sorted(have - want)
    rep.check(not extra, 'R13.2.base-offset', 'only base+offset instructions take the imm(reg) spelling',
              lambda: Finding('R13.2.base-offset', 'BASE_OFFSET_INSTRUCTIONS', 'extra', '{} are given the imm(reg) spelling although they have no base register + offset form'.format(extra), line=node.lineno), nontrivial=False)


def run(repo, tier):
    facts = Facts(repo.asm)
    rep = Report('C13', LEVEL,
                 'Structural clauses of spelling invariance: the REGISTERS table maps number, numeric string, xN and every ABI alias of '
                 'register N to N (and nothing else); in each parse branch that accepts both, `imm(reg)` and `reg, imm` deliver the same '
                 'roles to the same constructor parameters (token-provenance dataflow) and every load / store / jalr takes both spellings; the '
                 'token separator, read from the regex AST, consumes exactly runs of whitespace and commas; on the def-use chain from the '
                 'line text to the split the comment pattern is removed first and the text is stripped; blank lines are skipped without '
                 'disturbing line numbering.')
    rep.trusted_base = ['CPython ast and re._parser', 'bbverif.wiring token provenance']
    rep.not_decided = ['equality of whole binaries under arbitrary combinations of rewrites, in particular the interaction of the special-cased string / error lexing '
                       'with indentation and comments', 'integers spelled in forms only eval or only int(., 0) accepts']
    encprops.check_registers(rep, facts, 'R13.1.registers')
    doc = repo.text['docs/instruction_reference.rst']
    encprops.check_wiring(rep, facts, 'R13.2.wiring', False, doc)
    encprops.check_wiring(rep, facts, 'R13.2.wiring', True, doc)
    check_base_offset(rep, facts)
    check_lexer(rep, facts)
    check_reader(rep, facts)
    # lookup_register: hex / octal spellings through int(reg, base=0), then the table
    lr = facts.funcs.get('lookup_register')
    src = unparse(lr)
    rep.check('int(reg, base=0)' in src or 'int(reg, 0)' in src, 'R13.1.registers', 'numeric register spellings in any base go through int(., 0)',
              lambda: Finding('R13.1.registers', 'lookup_register', lr, 'hex / binary register numbers are no longer normalised before the table lookup', line=lr.lineno), nontrivial=False)
    # R13.6 decisions must not depend on how a register is spelled: predicates compare register *numbers*
    from ..comprel import CompRel
    rel = CompRel(facts)
    for fac, field in rel.raw_compares:
        node = rel.factories[fac][2]
        rep.fail(Finding('R13.6.normalised', 'transform_compressible.' + fac, node,
                         'the compression predicate {} compares the register operand `{}` as written instead of its number (lookup_register): `addi a0, x10, 1` and `addi a0, a0, 1` '
                         'name the same registers but are compressed differently, so bytes and labels depend on the spelling'.format(fac, field), line=node.lineno),
                 instance=fac + ' ' + str(field))
    if not rel.raw_compares:
        rep.ok('R13.6.normalised', 'all {} compression predicates compare register numbers, not spellings'.format(len(rel.factories)))
    rep.floor('register spellings checked', 129)
    rep.floor('parse paths analysed', 30)
    return rep
