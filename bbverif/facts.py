"""Program model of bronzebeard/asm.py lifted from the syntax tree (never imported, never executed)."""
import ast

from .core import AnalysisError
from .astutil import fold, try_fold, NotConstant, dotted, unparse


def _strip_parents(node):
    """Copy of an expression without the parent links core.Repo puts on the analysed tree (deepcopy would follow them)."""
    new = node.__class__()
    for k, v in node.__dict__.items():
        if k == '_parent':
            continue
        if isinstance(v, ast.AST):
            v = _strip_parents(v)
        elif isinstance(v, list):
            v = [_strip_parents(x) if isinstance(x, ast.AST) else x for x in v]
        setattr(new, k, v)
    return new


class Closure:
    """NAME = factory(args...) at module level (constraint closures)."""

    def __init__(self, name, factory, args, node):
        self.name, self.factory, self.args, self.node = name, factory, args, node

    def __repr__(self):
        return '{}({})'.format(self.factory, ', '.join(repr(a) for a in self.args))


class Partial:
    """NAME = partial(func, k=v, ...) at module level."""

    def __init__(self, name, func, kwargs, node):
        self.name, self.func, self.kwargs, self.node = name, func, kwargs, node

    def __repr__(self):
        return 'partial({}, {})'.format(self.func, self.kwargs)


class ClassInfo:
    def __init__(self, node):
        self.node = node
        self.name = node.name
        self.bases = [dotted(b) for b in node.bases]
        self.methods = {st.name: st for st in node.body if isinstance(st, ast.FunctionDef)}
        self.init_params = None   # [(name, default_node_or_None)] without self
        self.init_vararg = None
        self.attr_order = None    # [(attr, param_name or None)] in assignment order incl. super().__init__ attrs
        self.args_attrs = None    # attrs returned by args()


class Facts:
    def __init__(self, tree, relpath='bronzebeard/asm.py'):
        self.tree = tree
        self.relpath = relpath
        self.consts = {}
        self.funcs = {}
        self.classes = {}
        self.closures = {}
        self.partials = {}
        self.tables = {}        # dict-of-names tables
        self.table_nodes = {}
        self.sets = {}
        self.assign_nodes = {}
        self._collect()

    # ------------------------------------------------------------------------------------------
    def _collect(self):
        for st in self.tree.body:
            if isinstance(st, ast.FunctionDef):
                self.funcs[st.name] = st
            elif isinstance(st, ast.ClassDef):
                self.classes[st.name] = ClassInfo(st)
            elif isinstance(st, ast.Assign) and len(st.targets) == 1 and isinstance(st.targets[0], ast.Name):
                self._assign(st.targets[0].id, st.value, st)
            elif isinstance(st, ast.Assign) and all(isinstance(t, ast.Name) for t in st.targets):
                # A = B = <value>
                for t in st.targets:
                    self._assign(t.id, st.value, st)
            elif (isinstance(st, ast.Assign) and len(st.targets) == 1 and isinstance(st.targets[0], (ast.Tuple, ast.List))
                  and all(isinstance(e, ast.Name) for e in st.targets[0].elts)):
                # A, B, C = <sequence of constants> (a tuple display, range(n), ...): one constant per name
                names = [e.id for e in st.targets[0].elts]
                vals = try_fold(st.value, self.consts)
                if isinstance(st.value, (ast.Tuple, ast.List)) and len(st.value.elts) == len(names) and not any(isinstance(e, ast.Starred) for e in st.value.elts):
                    for n_, e in zip(names, st.value.elts):
                        self._assign(n_, e, st)
                elif isinstance(vals, (list, tuple)) and len(vals) == len(names):
                    for n_, v_ in zip(names, vals):
                        self.assign_nodes[n_] = st
                        self.consts[n_] = v_
                else:
                    for n_ in names:
                        self.assign_nodes[n_] = st
            elif isinstance(st, ast.Expr) and isinstance(st.value, ast.Call):
                self._module_call(st.value)
        for ci in self.classes.values():
            self._class_details(ci)

    def _assign(self, name, value, st):
        self.assign_nodes[name] = st
        try:
            v = fold(value, self.consts)
            if isinstance(v, dict):
                self.tables[name] = v
                self.table_nodes[name] = st
            elif isinstance(v, set):
                self.sets[name] = v
            self.consts[name] = v
            return
        except NotConstant:
            pass
        if isinstance(value, ast.Call):
            expanded = self._factory_result(value)
            if expanded is not None:
                # NAME = factory(...) where the factory's body is `return partial(...)`: the binding is that partial with the
                # factory's parameters replaced by the call's arguments
                value = expanded
            fn = dotted(value.func)
            if fn in ('partial', 'functools.partial') and value.args and isinstance(value.args[0], ast.Name):
                kwargs = {}
                for kw in value.keywords:
                    if kw.arg is None:
                        raise AnalysisError('partial binding {} uses **kwargs'.format(name))
                    if kw.arg == 'cs':
                        if not isinstance(kw.value, (ast.List, ast.Tuple)):
                            raise AnalysisError('partial binding {}: cs is not a literal list'.format(name))
                        cs = []
                        for e in kw.value.elts:
                            if isinstance(e, ast.Name) and e.id in self.closures:
                                cs.append(self.closures[e.id])
                            elif isinstance(e, ast.Call) and isinstance(e.func, ast.Name):
                                cs.append(Closure('<inline>', e.func.id, [self._fold_arg(a) for a in e.args], e))
                            else:
                                raise AnalysisError('partial binding {}: unresolved constraint {}'.format(name, unparse(e)))
                        kwargs['cs'] = cs
                    else:
                        kwargs[kw.arg] = self._fold_arg(kw.value)
                if len(value.args) > 1:
                    raise AnalysisError('partial binding {} pre-binds positional arguments'.format(name))
                base = value.args[0].id
                if base in self.partials:
                    # partial of a partial: functools flattens it (keywords of the outer one win)
                    inner = self.partials[base]
                    merged = dict(inner.kwargs)
                    merged.update(kwargs)
                    kwargs, base = merged, inner.func
                self.partials[name] = Partial(name, base, kwargs, st)
                return
            if isinstance(value.func, ast.Name) and value.func.id in self.funcs and not value.keywords:
                try:
                    args = [fold(a, self.consts) for a in value.args]
                except NotConstant:
                    return
                self.closures[name] = Closure(name, value.func.id, args, st)
                return
        if isinstance(value, ast.Dict):
            # dict whose values are names of bindings (mnemonic tables)
            tbl = {}
            for k, v in zip(value.keys, value.values):
                kk = try_fold(k, self.consts)
                if kk is None or not isinstance(v, ast.Name):
                    return
                tbl[kk] = v.id
            self.tables[name] = tbl
            self.table_nodes[name] = st

    def _factory_result(self, call, depth=0):
        """The `partial(...)` expression a module-level factory call stands for (parameters substituted by the argument
        expressions), or None when the callee is not such a factory."""
        if not (isinstance(call.func, ast.Name) and call.func.id in self.funcs) or depth > 4:
            return None
        fn = self.funcs[call.func.id]
        body = [b for b in fn.body if not (isinstance(b, ast.Expr) and isinstance(b.value, ast.Constant))]
        if len(body) != 1 or not isinstance(body[0], ast.Return) or not isinstance(body[0].value, ast.Call) or fn.decorator_list:
            return None
        ret = body[0].value
        if dotted(ret.func) not in ('partial', 'functools.partial'):
            inner = self._factory_result(ret, depth + 1) if isinstance(ret.func, ast.Name) and ret.func.id in self.funcs else None
            if inner is None:
                return None
        a = fn.args
        if a.vararg or a.kwarg or any(isinstance(x, ast.Starred) for x in call.args) or any(k.arg is None for k in call.keywords):
            return None
        pos = [x.arg for x in a.posonlyargs + a.args]
        if len(call.args) > len(pos):
            return None
        env = dict(zip(pos, call.args))
        names = set(pos) | {x.arg for x in a.kwonlyargs}
        for k in call.keywords:
            if k.arg not in names or k.arg in env:
                return None
            env[k.arg] = k.value
        defaults = dict(zip(pos[len(pos) - len(a.defaults):], a.defaults))
        for x, d in zip(a.kwonlyargs, a.kw_defaults):
            if d is not None:
                defaults[x.arg] = d
        for n in names:
            if n not in env:
                if n not in defaults:
                    return None
                env[n] = defaults[n]

        class Subst(ast.NodeTransformer):
            def visit_Name(self_inner, node):
                if isinstance(node.ctx, ast.Load) and node.id in env:
                    return env[node.id]
                return node

        import copy
        out = Subst().visit(copy.deepcopy(_strip_parents(ret)))
        ast.copy_location(out, call)
        ast.fix_missing_locations(out)
        if dotted(out.func) not in ('partial', 'functools.partial'):
            return self._factory_result(out, depth + 1)
        return out

    def _fold_arg(self, node):
        try:
            return fold(node, self.consts)
        except NotConstant:
            raise AnalysisError('cannot fold bound argument {}'.format(unparse(node)))

    def _module_call(self, call):
        # NAME.update(OTHER) at module level for dict / set tables
        if isinstance(call.func, ast.Attribute) and call.func.attr == 'update' and isinstance(call.func.value, ast.Name):
            tgt = call.func.value.id
            if len(call.args) != 1:
                return
            arg = call.args[0]
            if tgt in self.tables:
                if isinstance(arg, ast.Name) and arg.id in self.tables:
                    self.tables[tgt] = dict(self.tables[tgt])
                    self.tables[tgt].update(self.tables[arg.id])
                    self.consts[tgt] = self.tables[tgt]
                    self.table_update_order = getattr(self, 'table_update_order', {})
                    self.table_update_order.setdefault(tgt, []).append(arg.id)
            elif tgt in self.sets:
                src = None
                if isinstance(arg, ast.Name) and arg.id in self.sets:
                    src = self.sets[arg.id]
                elif (isinstance(arg, ast.Call) and isinstance(arg.func, ast.Attribute) and arg.func.attr == 'keys'
                      and isinstance(arg.func.value, ast.Name) and arg.func.value.id in self.tables):
                    src = set(self.tables[arg.func.value.id].keys())
                if src is not None:
                    self.sets[tgt] = set(self.sets[tgt]) | src
                    self.consts[tgt] = self.sets[tgt]

    def _class_details(self, ci):
        init = ci.methods.get('__init__')
        if init is not None:
            a = init.args
            pos = a.args[1:]
            defaults = [None] * (len(pos) - len(a.defaults)) + list(a.defaults)
            ci.init_params = [(p.arg, d) for p, d in zip(pos, defaults)]
            ci.init_vararg = a.vararg.arg if a.vararg else None
            order = []
            for st in init.body:
                if (isinstance(st, ast.Expr) and isinstance(st.value, ast.Call)
                        and isinstance(st.value.func, ast.Attribute) and st.value.func.attr == '__init__'):
                    # super().__init__(line): attribute order continues in the base class
                    order.append(('<super>', [unparse(x) for x in st.value.args]))
                elif (isinstance(st, ast.Assign) and len(st.targets) == 1 and isinstance(st.targets[0], ast.Attribute)
                      and isinstance(st.targets[0].value, ast.Name) and st.targets[0].value.id == 'self'):
                    src = st.value.id if isinstance(st.value, ast.Name) else None
                    order.append((st.targets[0].attr, src))
                elif (isinstance(st, ast.Assign) and len(st.targets) == 1 and isinstance(st.targets[0], (ast.Tuple, ast.List))
                      and isinstance(st.value, (ast.Tuple, ast.List)) and len(st.targets[0].elts) == len(st.value.elts)):
                    # self.a, self.b = a, b : targets are stored left to right
                    for t, v in zip(st.targets[0].elts, st.value.elts):
                        if isinstance(t, ast.Attribute) and isinstance(t.value, ast.Name) and t.value.id == 'self':
                            order.append((t.attr, v.id if isinstance(v, ast.Name) else None))
                elif isinstance(st, ast.Assign) and len(st.targets) > 1 and all(
                        isinstance(t, ast.Attribute) and isinstance(t.value, ast.Name) and t.value.id == 'self' for t in st.targets):
                    # self.a = self.b = v : targets are stored left to right
                    for t in st.targets:
                        order.append((t.attr, st.value.id if isinstance(st.value, ast.Name) else None))
            ci.attr_order = order
        args_m = ci.methods.get('args')
        if args_m is not None:
            for st in args_m.body:
                if isinstance(st, ast.Return) and isinstance(st.value, ast.List):
                    attrs = []
                    ok = True
                    for e in st.value.elts:
                        if isinstance(e, ast.Attribute) and isinstance(e.value, ast.Name) and e.value.id == 'self':
                            attrs.append(e.attr)
                        else:
                            ok = False
                    if ok:
                        ci.args_attrs = attrs

    # ------------------------------------------------------------------------------------------
    def mro(self, cname):
        out = []
        todo = [cname]
        while todo:
            c = todo.pop(0)
            if c in out or c not in self.classes:
                continue
            out.append(c)
            todo.extend(b for b in self.classes[c].bases if b)
        return out

    def is_subclass(self, cname, base):
        return base in self.mro(cname)

    def subclasses(self, base):
        return [c for c in self.classes if self.is_subclass(c, base)]

    def method(self, cname, mname):
        for c in self.mro(cname):
            m = self.classes[c].methods.get(mname)
            if m is not None:
                return c, m
        return None, None

    def full_attr_order(self, cname):
        """[(attr, ctor-param)] in the order vars(obj) lists them (dict insertion order of __init__ chain)."""
        ci = self.classes[cname]
        if ci.attr_order is None:
            for b in ci.bases:
                if b in self.classes:
                    return self.full_attr_order(b)
            return []
        out = []
        for attr, src in ci.attr_order:
            if attr == '<super>':
                for b in ci.bases:
                    if b in self.classes and self._has_init(b):
                        base_order = self.full_attr_order(b)
                        base_params = [p for p, _ in self.init_params(b)]
                        # map base param -> our expression
                        for (battr, bsrc) in base_order:
                            mapped = None
                            if bsrc in base_params:
                                idx = base_params.index(bsrc)
                                if idx < len(src):
                                    mapped = src[idx]
                            out.append((battr, mapped))
                        break
            else:
                out.append((attr, src))
        return out

    def _has_init(self, cname):
        return any('__init__' in self.classes[c].methods for c in self.mro(cname))

    def init_params(self, cname):
        for c in self.mro(cname):
            ci = self.classes[c]
            if ci.init_params is not None:
                return ci.init_params
        return []

    def init_owner(self, cname):
        for c in self.mro(cname):
            if self.classes[c].init_params is not None:
                return self.classes[c]
        return None

    def args_attrs(self, cname):
        """Attribute names args() of class `cname` returns, in order: a literal `[self.a, self.b]`, or
        `[getattr(self, n) for n in self.OPERANDS]` over a class-level constant tuple (resolved along the MRO of `cname`, so a
        shared args() with per-class OPERANDS works); None when args() is something else (PseudoInstruction: `self.args`)."""
        for c in self.mro(cname):
            ci = self.classes[c]
            if 'args' in ci.methods:
                if ci.args_attrs is not None:
                    return ci.args_attrs
                return self._args_by_names(cname, ci.methods['args'])
        return None

    def class_constant(self, cname, attr):
        """Folded value of a class-level assignment `attr = <constant>` found along the MRO of cname, or None."""
        for c in self.mro(cname):
            for st in self.classes[c].node.body:
                if isinstance(st, ast.Assign) and any(isinstance(t, ast.Name) and t.id == attr for t in st.targets):
                    return try_fold(st.value, self.consts)
        return None

    def _args_by_names(self, cname, m):
        body = [b for b in m.body if not (isinstance(b, ast.Expr) and isinstance(b.value, ast.Constant))]
        if len(body) != 1 or not isinstance(body[0], ast.Return) or len(m.args.args) != 1:
            return None
        me = m.args.args[0].arg
        v = body[0].value
        if isinstance(v, ast.Call) and isinstance(v.func, ast.Name) and v.func.id in ('list', 'tuple') and len(v.args) == 1 and not v.keywords:
            v = v.args[0]
        if not isinstance(v, (ast.ListComp, ast.GeneratorExp)) or len(v.generators) != 1:
            return None
        g = v.generators[0]
        if g.ifs or g.is_async or not isinstance(g.target, ast.Name):
            return None
        e = v.elt
        if not (isinstance(e, ast.Call) and isinstance(e.func, ast.Name) and e.func.id == 'getattr' and len(e.args) == 2 and not e.keywords
                and isinstance(e.args[0], ast.Name) and e.args[0].id == me and isinstance(e.args[1], ast.Name) and e.args[1].id == g.target.id):
            return None
        src = g.iter
        names = None
        if isinstance(src, ast.Attribute):
            base = src.value
            is_self = isinstance(base, ast.Name) and base.id == me
            is_type = (isinstance(base, ast.Call) and isinstance(base.func, ast.Name) and base.func.id == 'type' and len(base.args) == 1
                       and isinstance(base.args[0], ast.Name) and base.args[0].id == me) or \
                      (isinstance(base, ast.Attribute) and base.attr == '__class__' and isinstance(base.value, ast.Name) and base.value.id == me)
            if is_self or is_type:
                names = self.class_constant(cname, src.attr)
            elif isinstance(base, ast.Name) and base.id in self.classes:
                names = self.class_constant(base.id, src.attr)
        else:
            names = try_fold(src, self.consts)
        if isinstance(names, (list, tuple)) and all(isinstance(n, str) for n in names):
            return list(names)
        return None

    # -- mnemonic tables -------------------------------------------------------------------------
    def instruction_tables(self):
        """{table name: {mnemonic: binding}} for every *_INSTRUCTIONS table merged into INSTRUCTIONS."""
        order = getattr(self, 'table_update_order', {}).get('INSTRUCTIONS', [])
        return {t: self.tables[t] for t in order}

    def instructions(self):
        if 'INSTRUCTIONS' not in self.tables:
            raise AnalysisError('anchor vanished: INSTRUCTIONS table')
        return self.tables['INSTRUCTIONS']

    def binding(self, mnemonic):
        b = self.instructions().get(mnemonic)
        if b is None or b not in self.partials:
            raise AnalysisError('mnemonic {!r} has no resolvable partial binding'.format(mnemonic))
        return self.partials[b]

    def table_of(self, mnemonic):
        return [t for t, d in self.instruction_tables().items() if mnemonic in d]
