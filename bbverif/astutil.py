"""Small AST helpers: constant folding, lookups, parent chains."""
import ast
import operator

from .core import AnalysisError

_BINOPS = {
    ast.Add: operator.add, ast.Sub: operator.sub, ast.Mult: operator.mul, ast.FloorDiv: operator.floordiv,
    ast.Mod: operator.mod, ast.Pow: operator.pow, ast.LShift: operator.lshift, ast.RShift: operator.rshift,
    ast.BitOr: operator.or_, ast.BitAnd: operator.and_, ast.BitXor: operator.xor,
}
_UNOPS = {ast.USub: operator.neg, ast.UAdd: operator.pos, ast.Invert: operator.invert, ast.Not: operator.not_}


class NotConstant(Exception):
    pass


def fold(node, env=None):
    """Fold a literal expression to a Python value (int, str, bytes, bool, None, list, tuple, dict, set).
    ``env`` maps names to already folded values.  Raises NotConstant otherwise.  Only literal arithmetic is
    evaluated; no repository function is ever called."""
    env = env or {}
    if isinstance(node, ast.Constant):
        return node.value
    if isinstance(node, ast.Name):
        if node.id in env:
            return env[node.id]
        if node.id in ('True', 'False', 'None'):
            return {'True': True, 'False': False, 'None': None}[node.id]
        raise NotConstant(node.id)
    if isinstance(node, ast.BinOp) and type(node.op) in _BINOPS:
        a, b = fold(node.left, env), fold(node.right, env)
        if isinstance(node.op, ast.Pow) and (not isinstance(b, int) or b < 0 or b > 256):
            raise NotConstant('pow')
        if isinstance(node.op, ast.LShift) and (not isinstance(b, int) or b > 4096):
            raise NotConstant('shift')
        try:
            return _BINOPS[type(node.op)](a, b)
        except Exception as e:
            raise NotConstant(str(e))
    if isinstance(node, ast.UnaryOp) and type(node.op) in _UNOPS:
        return _UNOPS[type(node.op)](fold(node.operand, env))
    if isinstance(node, (ast.List, ast.Tuple)):
        vals = [fold(e, env) for e in node.elts]
        return vals if isinstance(node, ast.List) else tuple(vals)
    if isinstance(node, ast.Set):
        return set(fold(e, env) for e in node.elts)
    if isinstance(node, ast.Dict):
        out = {}
        for k, v in zip(node.keys, node.values):
            if k is None:
                raise NotConstant('dict unpack')
            out[fold(k, env)] = fold(v, env)
        return out
    raise NotConstant(type(node).__name__)


def try_fold(node, env=None, default=None):
    try:
        return fold(node, env)
    except NotConstant:
        return default


def parents(node):
    p = getattr(node, '_parent', None)
    while p is not None:
        yield p
        p = getattr(p, '_parent', None)


def enclosing_function(node):
    for p in parents(node):
        if isinstance(p, (ast.FunctionDef, ast.AsyncFunctionDef, ast.Lambda)):
            return p
    return None


def qualname(node):
    """Qualified name of the def/class enclosing ``node`` (inclusive)."""
    parts = []
    cur = node
    while cur is not None:
        if isinstance(cur, (ast.FunctionDef, ast.ClassDef, ast.AsyncFunctionDef)):
            parts.append(cur.name)
        cur = getattr(cur, '_parent', None)
    return '.'.join(reversed(parts)) or '<module>'


def call_name(call):
    """Dotted name of the callee of a Call node, or None."""
    return dotted(call.func) if isinstance(call, ast.Call) else None


def dotted(node):
    if isinstance(node, ast.Name):
        return node.id
    if isinstance(node, ast.Attribute):
        base = dotted(node.value)
        return None if base is None else base + '.' + node.attr
    return None


def find_function(tree, name, required=True):
    """Top-level (or nested, dotted) function definition."""
    parts = name.split('.')
    scope = tree.body
    node = None
    for part in parts:
        node = None
        for st in scope:
            if isinstance(st, (ast.FunctionDef, ast.ClassDef)) and st.name == part:
                node = st
                break
        if node is None:
            if required:
                raise AnalysisError('anchor vanished: function/class {!r} not found'.format(name))
            return None
        scope = node.body
    return node


def walk_no_nested(node):
    """ast.walk that does not descend into nested function / class definitions (the root may be one)."""
    todo = list(ast.iter_child_nodes(node))
    while todo:
        n = todo.pop()
        yield n
        if isinstance(n, (ast.FunctionDef, ast.AsyncFunctionDef, ast.ClassDef, ast.Lambda)):
            continue
        todo.extend(ast.iter_child_nodes(n))


def stmts_in_order(body):
    """All statements nested inside a body, in source order (not entering nested defs)."""
    for st in body:
        yield st
        if isinstance(st, (ast.FunctionDef, ast.AsyncFunctionDef, ast.ClassDef)):
            continue
        for field in ('body', 'orelse', 'finalbody'):
            sub = getattr(st, field, None)
            if sub:
                yield from stmts_in_order(sub)
        if isinstance(st, ast.Try):
            for h in st.handlers:
                yield from stmts_in_order(h.body)


def unparse(node):
    try:
        return ast.unparse(node)
    except Exception:
        return ast.dump(node)
